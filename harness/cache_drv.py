"""cache_drv — shared driver for C01 / C05 / C06 (threadsafe_async_cache).

Runs the REAL `aiuti.asyncio.threadsafe_async_cache` under the gated-thread
controller (harness/gate.py): every thread owns one virtual-time event loop,
the library's `Lock` is a gated lock, the cache mapping is a gated dict passed
through the public `cache=` parameter, the wrapped coroutine is harness-owned.

case (JSON):
  {'thr':  [ {'callers': [[key, at_tick, cancel_tick|-1], ...],
              'stop': -1 (main joins all its callers) | T (main returns at tick T),
              'epi':  [[act, at_tick], ...]   act in 'shut' | 'shutrev' | 'close'
             }, ...],
   'invs': [[dur, ok], ...]   n-th started invocation: dur -2 = the wrapped callable raises synchronously
                              (before returning its awaitable), -1 = returns without
                              suspending, 0 = sleep(0), d>0 = sleep(d ticks);
                              ok 1 = return value (= invocation id), 0 = raise
   'sched': [thread index, ...]   one entry per controller decision
   'plain': 0|1   also run once with cache=None (the DEFAULT dict, ungated) and compare the observable
                  events; only meaningful for sched == [] (non-preemptive default: every thread runs
                  until its loop idles, so the gates of the cache do not change the interleaving)
   'none': 0|1    successful invocations return None (a legitimate result that must be cached like any other)
   'aw': 0|1      successful invocations return an awaitable object (must be cached like any other result)
   'cache': 'dict' (default: gated dict subclass) | 'map' (gated MutableMapping that is not a dict)
  }
Caller ids are global, numbered thread by thread in program order.

observation: {'tr': [event, ...], 'plain_same': bool}
  ['op', t, c, 'get'|'miss'|'acq'|'rel'|'set'|'xsub']  decision: thread t performs caller c's gated op
                                         ('miss' = second gate of a cache lookup that raised KeyError)
  ['idle', t] ['har', t, what]           decision: loop wake-up / harness gate
  ['adv', tick]                          virtual time jumps (nothing was enabled)
  ['istart', i, c, tick] ['iend', i, r, tick]   r: 0 ok, 1 exc, 2 cancelled
  ['cancel', c, tick]                    harness delivered task.cancel() to caller c
  ['done', c, kind, payload, tick]       kind 0 Ret v, 1 UserExc inv, 2 Cancelled, 3 LibExc class-id
  ['proxy', t, c, r]                     cross-loop wait of c finished on the computing loop (thread t): 0 True 1 False 2 cancelled 3 exception
  ['loop', t, what]                      0 stop (run_until_complete returned), 1 shutdown begins, 2 shutdown done, 3 closed
  ['end', r]                             0 all threads finished, 1 deadlock, 2 step bound, 3 wall-clock hang
"""
from __future__ import annotations

import asyncio
import logging
import os
import sys
import threading
import warnings

from collections.abc import MutableMapping

from . import gate
from .gate import Ctl, GLock, GDict, GVLoop, TICK, schedule_chooser

SAFETY = 61440                      # 60 s in ticks
MAX_STEPS = 2500
LIB_CLASSES = ['KeyError', 'CancelledError', 'RuntimeError', 'TimeoutError', 'InvalidStateError',
               'AttributeError', 'TypeError', 'ValueError']


# key id -> actual argument of the cached function.  hash(-1) == hash(-2) == -2 in CPython, so the two
# keys used by the generators are DISTINCT arguments whose hashes (and the hashes of the argument
# tuples built from them) collide: a cache that keys on the hash mixes them up.
KEY_ARG = {0: -1, 1: -2}


class HResult:
    """'aw' mode: a successful result that is itself a reusable awaitable (has __await__), like an
    already-completed Future; it still carries the id of the invocation that produced it."""

    def __init__(self, inv):
        self.inv = inv

    def __await__(self):
        if False:
            yield
        return self.inv


class HarnessExc(Exception):
    def __init__(self, inv):
        super().__init__(inv)
        self.inv = inv


class Run:
    """State of one gated run."""

    def __init__(self, case, ctl, gated_cache=True):
        self.case = case
        self.ctl = ctl
        self.dead = False
        self.ninv = 0
        self.task2cid = {}
        self.loops = {}
        self.keep = []
        self.gated_cache = gated_cache
        self.xround = {}
        self.ntryfail = 0
        self.last_ok = {}
        self.tryfailed = {}

    def log(self, *ev):
        self.ctl.trace.append(('ev',) + ev)

    def cid(self):
        try:
            t = asyncio.current_task()
        except RuntimeError:
            return -1
        return self.task2cid.get(t, -1)

    def tick(self):
        return self.ctl.ticks()


def _stop_if_dead(R):
    """After a run was torn down (deadlock / step bound / hang) a managed thread that is still inside
    the library (asyncio stores the controller's _Abort in the task and runs the next task) must not
    keep spinning without gates: SystemExit is re-raised by Task.__step and ends the thread's loop."""
    if R is not None and R.dead and R.ctl.me() is not None:
        raise SystemExit('run torn down')


class CLock(GLock):
    """gated threading.Lock whose ops carry the caller id"""
    run = None

    def acquire(self, blocking=True, timeout=-1):
        R = self.run
        _stop_if_dead(R)
        if R is None or R.dead or R.ctl.me() is None:
            self.owner = 'x'
            return True
        if not blocking:
            # a non-blocking acquire never waits: the gate is always enabled and the attempt FAILS when
            # the lock is held (the unchanged code never does this; a failed attempt is not part of
            # the canonical trace, a successful one is an ordinary 'acq')
            cid = R.cid()
            me = R.ctl.me()
            # the first attempt is always enabled (and may fail); a thread that has just failed is not
            # scheduled for another attempt before the lock is free again: spinning on a held lock makes
            # no progress, and an (unfair) schedule that only runs the spinner is not a finding
            R.ctl.gate(f'try:{cid}', enabled=lambda: self.owner is None or not R.tryfailed.get(me))
            if self.owner is None:
                self.owner = me
                R.tryfailed[me] = False
                R.log('tryok', int(me[1:]), cid)
                return True
            R.tryfailed[me] = True
            R.ntryfail += 1
            return False
        R.ctl.gate(f'acq:{R.cid()}', enabled=lambda: self.owner is None)
        self.owner = R.ctl.me()
        return True

    def release(self):
        R = self.run
        _stop_if_dead(R)
        if R is None or R.dead or R.ctl.me() is None:
            self.owner = None
            return
        R.ctl.gate(f'rel:{R.cid()}')
        self.owner = None


class CDict(dict):
    run = None

    def __getitem__(self, k):
        R = self.run
        _stop_if_dead(R)
        live = R is not None and not R.dead and R.ctl.me() is not None
        if live:
            R.ctl.gate(f'get:{R.cid()}')
        try:
            return dict.__getitem__(self, k)
        except KeyError:
            if live:
                # second scheduling point after a miss: the window between the (re-)probe and the
                # lookup of the in-flight table is a source-line boundary of its own
                R.ctl.gate(f'miss:{R.cid()}')
            raise

    def __setitem__(self, k, v):
        R = self.run
        _stop_if_dead(R)
        if R is not None and not R.dead and R.ctl.me() is not None:
            R.ctl.gate(f'set:{R.cid()}')
        dict.__setitem__(self, k, v)


class CMap(MutableMapping):
    """A retaining MutableMapping that is NOT a dict (the property names "the default dict cache and any
    retaining MutableMapping"): same gates as CDict around an inner dict."""

    def __init__(self):
        self.d = CDict()

    @property
    def run(self):
        return self.d.run

    @run.setter
    def run(self, R):
        self.d.run = R

    def __getitem__(self, k):
        return self.d[k]

    def __setitem__(self, k, v):
        self.d[k] = v

    def __delitem__(self, k):
        dict.__delitem__(self.d, k)

    def __iter__(self):
        return dict.__iter__(self.d)

    def __len__(self):
        return dict.__len__(self.d)


class CLoop(GVLoop):
    """GVLoop that remembers every task in creation order (deterministic
    emulation of asyncio.run's epilogue; keeps tasks alive during the run)."""

    def __init__(self, ctl):
        super().__init__(ctl)
        self.created = []
        self.set_task_factory(self._factory)

    def _factory(self, loop, coro, context=None):
        t = asyncio.Task(coro, loop=loop, context=context)
        self.created.append(t)
        return t


def caller_table(case):
    """[(cid, thread, key, at, cancel)] in global id order"""
    out = []
    for ti, th in enumerate(case['thr']):
        for (k, at, cn) in th['callers']:
            out.append((len(out), ti, k, at, cn))
    return out


def _thread_body(R, ti, fn):
    case, ctl = R.case, R.ctl
    th = case['thr'][ti]
    mine = [c for c in caller_table(case) if c[1] == ti]

    def body():
        loop = CLoop(ctl)
        R.loops[ti] = loop
        R.keep.append(loop)
        asyncio.set_event_loop(loop)
        tasks = {}

        async def caller(cid, key):
            try:
                v = await fn(KEY_ARG.get(key, key))
            except HarnessExc as e:
                R.log('done', cid, 1, e.inv, R.tick())
            except asyncio.CancelledError:
                R.log('done', cid, 2, 0, R.tick())
            except BaseException as e:          # anything else is the library's own
                if isinstance(e, gate._Abort):
                    raise
                n = type(e).__name__
                R.log('done', cid, 3, LIB_CLASSES.index(n) if n in LIB_CLASSES else len(LIB_CLASSES), R.tick())
            else:
                if R.case.get('none') and v is None:
                    # 'none' mode: successful invocations return None, which cannot identify the invocation
                    # that produced it; the payload is the driver's record of the (last) successful
                    # invocation of this key — what is judged in this mode is the number and overlap of
                    # invocations (a cached None must still be a hit) and the kinds of the outcomes
                    R.log('done', cid, 0, R.last_ok.get(KEY_ARG.get(key, key), 4998), R.tick())
                    return
                if isinstance(v, HResult):
                    R.log('done', cid, 0, v.inv, R.tick())
                    return
                ok = isinstance(v, tuple) and len(v) == 2 and v[0] == 'v'
                R.log('done', cid, 0 if ok else 3, v[1] if ok else len(LIB_CLASSES) + 1, R.tick())

        async def main():
            tl = []
            for (cid, _, key, at, cn) in mine:
                tl.append((at, 0, cid, key))
                if cn >= 0:
                    tl.append((cn, 1, cid, key))
            tl.sort()
            for (tick, kind, cid, key) in tl:
                now = R.tick()
                if tick > now:
                    await asyncio.sleep((tick - now) * TICK)
                if kind == 0:
                    t = loop.create_task(caller(cid, key))
                    R.task2cid[t] = cid
                    tasks[cid] = t
                else:
                    t = tasks[cid]
                    if not t.done() and t.cancel():
                        R.log('cancel', cid, R.tick())
            if th['stop'] < 0:
                await asyncio.gather(*tasks.values(), return_exceptions=True)
            else:
                now = R.tick()
                if th['stop'] > now:
                    await asyncio.sleep((th['stop'] - now) * TICK)

        try:
            loop.run_until_complete(main())
        finally:
            R.log('loop', ti, 0)
        for (act, at) in th['epi']:
            deadline = at * TICK
            ctl.gate(act, enabled=lambda: ctl.vt >= deadline - gate.EPS, when=lambda: deadline)
            if act in ('shut', 'shutrev'):
                R.log('loop', ti, 1)
                todo = [t for t in loop.created if not t.done()]
                if act == 'shutrev':
                    todo.reverse()
                for t in todo:
                    if t.cancel() and t in R.task2cid:
                        R.log('cancel', R.task2cid[t], R.tick())
                if todo:
                    loop.run_until_complete(asyncio.gather(*todo, return_exceptions=True))
                loop.run_until_complete(loop.shutdown_asyncgens())
                loop.run_until_complete(loop.shutdown_default_executor())
                R.log('loop', ti, 2)
            elif act == 'close':
                loop.close()
                R.log('loop', ti, 3)
    return body


def _make_fn(R, lib, cache):
    script = R.case['invs']

    async def body(i, dur, ok, arg):
        try:
            if dur == 0:
                await asyncio.sleep(0)
            elif dur > 0:
                await asyncio.sleep(dur * TICK)
        except asyncio.CancelledError:
            R.log('iend', i, 2, R.tick())
            raise
        if ok:
            R.log('iend', i, 0, R.tick())
            R.last_ok[arg] = i
            if R.case.get('aw'):
                return HResult(i)
            return None if R.case.get('none') else ('v', i)
        R.log('iend', i, 1, R.tick())
        raise HarnessExc(i)

    def user(key):
        """The wrapped callable: a plain function returning an awaitable (the decorator accepts any
        Callable[..., Awaitable]); dur -2 = it raises synchronously, before returning the awaitable."""
        _stop_if_dead(R)
        i = R.ninv
        R.ninv += 1
        dur, ok = script[i] if i < len(script) else (1, 1)
        R.log('istart', i, R.cid(), R.tick())
        if dur == -2:
            R.log('iend', i, 1, R.tick())
            raise HarnessExc(i)
        return body(i, dur, ok, key)

    if cache is None:
        return lib.threadsafe_async_cache(user)
    return lib.threadsafe_async_cache(cache=cache)(user)


def run_once(case, gated_cache=True, wall=8.0, want_choices=False):
    """One gated run; returns the canonical trace (list of lists)
    (with want_choices: (trace, [(enabled thread indices, chosen index)] per decision))."""
    import aiuti.asyncio as lib
    logging.disable(logging.CRITICAL)
    warnings.simplefilter('ignore')
    names = [f'T{i}' for i in range(len(case['thr']))]
    sched = [names[i] for i in case['sched'] if 0 <= i < len(names)]
    ctl = Ctl(schedule_chooser(sched), max_steps=MAX_STEPS)
    R = Run(case, ctl, gated_cache)
    old_lock, old_rcts = lib.Lock, lib.run_coro_ts

    def mk_lock():
        lk = CLock(ctl, 'lock')
        lk.run = R
        return lk

    def rcts(coro, loop):
        _stop_if_dead(R)
        cid = R.cid()
        me = ctl.me()
        rnd = R.xround[cid] = R.xround.get(cid, 0) + 1
        if not R.dead and me is not None:
            ctl.gate(f'xsub:{cid}')          # scheduling point between leaving the lock and the hand-over
        R.log('xsub', cid, rnd)
        try:
            fut = old_rcts(coro, loop)
        except BaseException:
            if hasattr(coro, 'close'):
                coro.close()
            raise
        R.keep.append(fut)

        def cb(f):
            if R.dead or ctl.me() == me or ctl.me() is None:
                return                       # the waiter's own cancellation travelling to the proxy
            if f.cancelled():
                r = 2
            elif f.exception() is not None:
                r = 3
            else:
                r = 0 if f.result() else 1
            R.log('proxy', int(ctl.me()[1:]), cid, r, rnd)
        fut.add_done_callback(cb)
        return fut

    end = 3
    try:
        lib.Lock = mk_lock
        lib.run_coro_ts = rcts
        cache = None
        if gated_cache:
            cache = CMap() if case.get('cache') == 'map' else CDict()
            cache.run = R
        fn = _make_fn(R, lib, cache)
        lib.Lock = old_lock
        for ti, n in enumerate(names):
            ctl.spawn(n, _thread_body(R, ti, fn))
        box = {}
        runner = threading.Thread(target=lambda: box.setdefault('r', ctl.run()), daemon=True)
        runner.start()
        runner.join(wall)
        end = {'ok': 0, 'deadlock': 1, 'steps': 2}.get(box.get('r'), 3)
        exc = [(n, repr(ctl.th[n]['exc'])) for n in names if ctl.th[n]['exc'] is not None]
    finally:
        lib.Lock, lib.run_coro_ts = old_lock, old_rcts
        trace = list(ctl.trace)
        R.dead = True
        if end != 0:
            ctl.abort()
        for lp in R.loops.values():
            try:
                if not lp.is_closed() and not lp.is_running():
                    for t in lp.created:
                        if not t.done():
                            t._log_destroy_pending = False
                    lp.close()
            except BaseException:
                pass
    out = []
    cur = {}          # caller -> number of the cross-loop wait it is currently in
    for e in trace:
        if e[0] == 'ev' and e[1] == 'xsub':
            cur[e[2]] = e[3]
        elif e[0] == 'ev' and e[1] == 'proxy':
            # a proxy wait that finishes after its caller has left that wait (caller cancelled or
            # timed out, the cancellation of the thread-safe future still in flight) is consumed by
            # nobody: not part of the canonical trace
            if cur.get(e[3]) == e[5]:
                out.append(list(e[1:5]))
        elif e[0] == 'ev' and e[1] == 'tryok':
            cur.pop(e[3], None)
            out.append(['op', e[2], e[3], 'acq'])
        elif e[0] == 'ev':
            if e[1] == 'done':
                cur.pop(e[2], None)
            out.append(list(e[1:]))
        elif e[0] == 'adv':
            out.append(['adv', e[1]])
        else:
            t = int(e[0][1:])
            op = e[1]
            if ':' in op:
                k, c = op.split(':')
                if k == 'try':
                    continue                     # see CLock.acquire(blocking=False)
                cur.pop(int(c), None)
                out.append(['op', t, int(c), k])
            elif op == 'idle':
                out.append(['idle', t])
            else:
                out.append(['har', t, op])
    for (n, x) in exc:
        out.append(['thread_exc', int(n[1:]), x[:200]])
    out.append(['end', end])
    if want_choices:
        return out, [([int(n[1:]) for n in en], int(ch[1:])) for en, ch in ctl.choices]
    return out


def observable(tr):
    """schedule-independent-of-cache-gates projection (plain dict comparison)"""
    return [e for e in tr if e[0] in ('istart', 'iend', 'cancel', 'done', 'loop', 'end', 'adv', 'proxy')]


def run_impl(case):
    tr = run_once(case, True)
    same = True
    if case.get('plain'):
        tr2 = run_once(case, False)
        same = observable(tr) == observable(tr2)
    return {'tr': tr, 'plain_same': same}


if __name__ == '__main__':
    import json
    c = json.loads(sys.argv[1])
    for e in run_impl(c)['tr']:
        print(e)
