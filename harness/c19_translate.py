"""C19 — fail-closed Python-ast -> Gallina translator for the syntactic facts of
aiuti/parsing.py that the property relies on (DESIGN §3.2).

Reads $AIUTI_REPO/aiuti/parsing.py, matches `parse_to_dict` against an explicit
whitelist of statement shapes and writes coq/gen/T_ParseDefaults.v with one
definition per fact plus the tuple `facts`.  Any shape it does not know makes it
emit `Definition translation_failed := tt.` and omit `facts`, so the theorem
`source_shape_as_modelled` of props/C19.v stops compiling.  Local names of the
inner functions are normalised (a0, a1 = parameters; t0, t1 = assigned locals)
so renaming them changes nothing."""
from __future__ import annotations

import ast
import os

from . import common as C

OUT = os.path.join(C.GEN, 'T_ParseDefaults.v')


class Unknown(Exception):
    pass


def need(cond, what):
    if not cond:
        raise Unknown(what)


class _Rename(ast.NodeTransformer):
    def __init__(self, m):
        self.m = m

    def visit_Name(self, node):
        return ast.copy_location(ast.Name(id=self.m.get(node.id, node.id), ctx=node.ctx), node)

    def visit_arg(self, node):
        return ast.copy_location(ast.arg(arg=self.m.get(node.arg, node.arg), annotation=None), node)

    def visit_ExceptHandler(self, node):
        self.generic_visit(node)
        if node.name is not None:
            node.name = self.m.get(node.name, node.name)
        return node


def normalise(fn: ast.FunctionDef) -> ast.FunctionDef:
    """Rename parameters to a0.. and locally bound names to t0.. (order of appearance)."""
    need(not fn.args.vararg and not fn.args.kwarg and not fn.args.kwonlyargs
         and not fn.args.posonlyargs and not fn.args.defaults and not fn.decorator_list,
         f'{fn.name}: unexpected signature')
    m = {}
    for i, a in enumerate(fn.args.args):
        m[a.arg] = f'a{i}'
    k = 0
    for node in ast.walk(fn):
        names = []
        if isinstance(node, ast.Assign):
            for t in node.targets:
                names += [n.id for n in ast.walk(t) if isinstance(n, ast.Name)]
        elif isinstance(node, ast.ExceptHandler) and node.name:
            names.append(node.name)
        elif isinstance(node, (ast.AugAssign, ast.AnnAssign, ast.NamedExpr, ast.For, ast.With,
                               ast.Global, ast.Nonlocal, ast.Lambda, ast.FunctionDef, ast.ClassDef,
                               ast.ListComp, ast.DictComp, ast.SetComp, ast.GeneratorExp,
                               ast.Import, ast.ImportFrom)) and node is not fn:
            raise Unknown(f'{fn.name}: unexpected binding construct {type(node).__name__}')
        for n in names:
            if n not in m:
                m[n] = f't{k}'
                k += 1
    import copy
    return ast.fix_missing_locations(_Rename(m).visit(copy.deepcopy(fn)))


def U(node) -> str:
    return ast.unparse(node)


def handler_types(h: ast.ExceptHandler):
    if h.type is None:
        return 'BARE'
    return U(h.type)


def extract(src: str) -> dict:
    mod = ast.parse(src)
    f = {}
    fns = [n for n in mod.body if isinstance(n, ast.FunctionDef) and n.name == 'parse_to_dict']
    need(len(fns) == 1, 'exactly one parse_to_dict')
    fn = fns[0]
    need(not fn.decorator_list, 'no decorators')

    # --- signature ----------------------------------------------------------
    a = fn.args
    need([x.arg for x in a.args] == ['items'] and not a.posonlyargs and not a.vararg and not a.kwarg
         and not a.defaults, 'positional signature (items)')
    kw = {x.arg: d for x, d in zip(a.kwonlyargs, a.kw_defaults)}
    need(list(kw) == ['sep', 'parse', 'parse_keys'], 'keyword-only sep, parse, parse_keys')
    need(isinstance(kw['sep'], ast.Constant) and isinstance(kw['sep'].value, str), 'sep default is a str constant')
    f['default_sep'] = kw['sep'].value
    need(isinstance(kw['parse_keys'], ast.Constant) and isinstance(kw['parse_keys'].value, bool),
         'parse_keys default is a bool constant')
    f['default_parse_keys'] = kw['parse_keys'].value
    dp = kw['parse']
    need(isinstance(dp, (ast.Name, ast.Attribute)), 'parse default is a (dotted) name')
    f['default_parse'] = U(dp)
    root = dp
    while isinstance(root, ast.Attribute):
        root = root.value
    need(isinstance(root, ast.Name), 'parse default is a dotted name')
    # how the root name of the default parser is bound at module level (must be unique)
    binds = []
    for st in ast.walk(mod):
        if isinstance(st, ast.Import):
            for al in st.names:
                if (al.asname or al.name.split('.')[0]) == root.id:
                    binds.append(U(st))
        elif isinstance(st, ast.ImportFrom):
            for al in st.names:
                if (al.asname or al.name) == root.id or al.name == '*':
                    binds.append(U(st))
        elif isinstance(st, (ast.FunctionDef, ast.AsyncFunctionDef, ast.ClassDef)) and st.name == root.id:
            binds.append(f'def {st.name}')
        elif isinstance(st, ast.Name) and st.id == root.id and isinstance(st.ctx, (ast.Store, ast.Del)):
            binds.append(f'assignment to {st.id}')
        elif isinstance(st, ast.arg) and st.arg == root.id:
            binds.append(f'parameter {st.arg}')
        elif isinstance(st, (ast.Global, ast.Nonlocal)) and root.id in st.names:
            binds.append(f'global {root.id}')
    need(len(binds) <= 1, f'root of the default parser bound more than once: {binds}')
    f['default_parse_binding'] = binds[0] if binds else 'builtin'

    # --- body ---------------------------------------------------------------
    body = list(fn.body)
    if body and isinstance(body[0], ast.Expr) and isinstance(body[0].value, ast.Constant) \
            and isinstance(body[0].value.value, str):
        body = body[1:]
    need(len(body) in (5, 7), 'body = try_parse, if parse_keys, parse_pair, try items(), return '
                              '(or: ..., result = {}, for-loop, return result)')
    s_try, s_if, s_pair, s_items = body[:4]
    s_tail = body[4:]

    # try_parse
    need(isinstance(s_try, ast.FunctionDef) and s_try.name == 'try_parse', 'def try_parse')
    tp = normalise(s_try)
    need(len(tp.args.args) == 1 and len(tp.body) == 2, 'try_parse(x): if ...; return ...')
    g, fb = tp.body
    need(isinstance(g, ast.If) and not g.orelse and len(g.body) == 1 and isinstance(g.body[0], ast.Try),
         'try_parse: if <guard>: try: ...')
    t = g.body[0]
    need(len(t.body) == 1 and isinstance(t.body[0], ast.Return) and t.body[0].value is not None
         and not t.orelse and not t.finalbody and len(t.handlers) >= 1, 'try_parse: try: return <call>')
    for h in t.handlers:
        need(len(h.body) == 1 and isinstance(h.body[0], ast.Pass), 'try_parse: handler body is pass')
    need(isinstance(fb, ast.Return) and fb.value is not None, 'try_parse: final return')
    f['try_parse_guard'] = U(g.test)
    f['try_parse_attempt'] = U(t.body[0].value)
    f['try_parse_catches'] = [handler_types(h) for h in t.handlers]
    f['try_parse_fallback'] = U(fb.value)

    # if parse_keys: def parse_tuple ... else: def parse_tuple ...
    need(isinstance(s_if, ast.If) and len(s_if.body) == 1 and len(s_if.orelse) == 1, 'if parse_keys: def / else: def')
    f['parse_tuple_switch'] = U(s_if.test)
    for tag, d in (('parse_tuple_when_true', s_if.body[0]), ('parse_tuple_when_false', s_if.orelse[0])):
        need(isinstance(d, ast.FunctionDef) and d.name == 'parse_tuple', 'def parse_tuple')
        dn = normalise(d)
        need(len(dn.args.args) == 2 and len(dn.body) == 1 and isinstance(dn.body[0], ast.Return)
             and isinstance(dn.body[0].value, ast.Tuple) and len(dn.body[0].value.elts) == 2,
             'parse_tuple(key, value): return <e1>, <e2>')
        f[tag] = [U(e) for e in dn.body[0].value.elts]

    # parse_pair
    need(isinstance(s_pair, ast.FunctionDef) and s_pair.name == 'parse_pair', 'def parse_pair')
    pp = normalise(s_pair)
    need(len(pp.args.args) == 1 and len(pp.body) == 2, 'parse_pair(pair): if ...; return ...')
    g, fb = pp.body
    need(isinstance(g, ast.If) and not g.orelse and len(g.body) == 2 and isinstance(g.body[0], ast.Try)
         and isinstance(g.body[1], ast.Return), 'parse_pair: if <guard>: try ...; return ...')
    t = g.body[0]
    need(len(t.body) == 1 and isinstance(t.body[0], ast.Assign) and len(t.body[0].targets) == 1
         and not t.orelse and not t.finalbody and len(t.handlers) == 1, 'parse_pair: try: <targets> = <call>')
    asg = t.body[0]
    tg = asg.targets[0]
    need(isinstance(tg, ast.Tuple) and all(isinstance(e, ast.Name) for e in tg.elts), 'tuple unpacking of names')
    call = asg.value
    need(isinstance(call, ast.Call) and isinstance(call.func, ast.Attribute), 'method call on the item')
    h = t.handlers[0]
    need(len(h.body) == 1 and isinstance(h.body[0], ast.Raise) and isinstance(h.body[0].exc, ast.Call)
         and isinstance(h.body[0].exc.func, ast.Name), 'handler re-raises a new exception')
    need(isinstance(fb, ast.Return) and fb.value is not None and g.body[1].value is not None, 'returns')
    f['str_item_guard'] = U(g.test)
    f['split_receiver'] = U(call.func.value)
    f['split_method'] = call.func.attr
    f['split_args'] = [U(x) for x in call.args] + [f'{k.arg}={U(k.value)}' for k in call.keywords]
    f['split_targets'] = [e.id for e in tg.elts]
    f['split_catches'] = [handler_types(h)]
    f['split_raises'] = h.body[0].exc.func.id
    f['str_item_result'] = U(g.body[1].value)
    f['other_item_result'] = U(fb.value)

    # try: items = items.items()  except AttributeError: pass
    need(isinstance(s_items, ast.Try) and len(s_items.body) == 1 and isinstance(s_items.body[0], ast.Assign)
         and not s_items.orelse and not s_items.finalbody and len(s_items.handlers) == 1
         and len(s_items.handlers[0].body) == 1 and isinstance(s_items.handlers[0].body[0], ast.Pass),
         'try: items = ...  except ...: pass')
    f['mapping_conversion'] = U(s_items.body[0])
    f['mapping_catches'] = [handler_types(s_items.handlers[0])]

    # return dict(map(parse_pair, items))
    if len(s_tail) == 1:
        s_ret = s_tail[0]
        need(isinstance(s_ret, ast.Return) and s_ret.value is not None, 'final return')
        f['result_expr'] = U(s_ret.value)
    else:
        f['result_expr'] = explicit_loop(fn, s_tail)
    return f


CANONICAL_RESULT = 'dict(map(parse_pair, items))'


def explicit_loop(fn, tail):
    """The one other spelling of `return dict(map(parse_pair, items))` that is recognised:

        R = {}                      # or dict()
        for X in items:
            K, V = parse_pair(X)
            R[K] = V
        return R

    with R, X, K, V four distinct names that are used nowhere else in parse_to_dict (so they can
    shadow nothing).  It inserts the pairs one at a time in iteration order exactly like dict() over
    the lazy map (parse_pair always returns a 2-tuple; an exception of parse_pair or an unhashable key
    ends the loop at that item), so it is reported as the canonical expression.  Anything else —
    another iterable, another callee, extra statements, an else clause, a different target, a
    comprehension — is Unknown (fail-closed)."""
    s_init, s_for, s_ret = tail
    need(isinstance(s_init, ast.Assign) and len(s_init.targets) == 1 and isinstance(s_init.targets[0], ast.Name),
         'loop form: R = {}')
    R = s_init.targets[0].id
    v = s_init.value
    empty = (isinstance(v, ast.Dict) and not v.keys and not v.values) or \
            (isinstance(v, ast.Call) and isinstance(v.func, ast.Name) and v.func.id == 'dict'
             and not v.args and not v.keywords)
    need(empty, 'loop form: R starts as the empty dict')
    need(isinstance(s_for, ast.For) and not s_for.orelse and isinstance(s_for.target, ast.Name)
         and isinstance(s_for.iter, ast.Name) and s_for.iter.id == 'items' and len(s_for.body) == 2
         and s_for.type_comment is None, 'loop form: for X in items: <2 statements>')
    X = s_for.target.id
    a1, a2 = s_for.body
    need(isinstance(a1, ast.Assign) and len(a1.targets) == 1 and isinstance(a1.targets[0], ast.Tuple)
         and len(a1.targets[0].elts) == 2 and all(isinstance(e, ast.Name) for e in a1.targets[0].elts),
         'loop form: K, V = ...')
    K, V = (e.id for e in a1.targets[0].elts)
    c = a1.value
    need(isinstance(c, ast.Call) and isinstance(c.func, ast.Name) and c.func.id == 'parse_pair'
         and len(c.args) == 1 and not c.keywords and isinstance(c.args[0], ast.Name) and c.args[0].id == X,
         'loop form: K, V = parse_pair(X)')
    need(isinstance(a2, ast.Assign) and len(a2.targets) == 1 and isinstance(a2.targets[0], ast.Subscript)
         and isinstance(a2.targets[0].value, ast.Name) and a2.targets[0].value.id == R
         and isinstance(a2.targets[0].slice, ast.Name) and a2.targets[0].slice.id == K
         and isinstance(a2.value, ast.Name) and a2.value.id == V, 'loop form: R[K] = V')
    need(isinstance(s_ret, ast.Return) and isinstance(s_ret.value, ast.Name) and s_ret.value.id == R,
         'loop form: return R')
    names = [R, X, K, V]
    need(len(set(names)) == 4, 'loop form: four distinct names')
    # none of them occurs anywhere else in parse_to_dict, except as a PARAMETER of an inner function
    # (which has its own scope: `def parse_tuple(key, value)`); in particular none is free in an
    # inner function, a parameter of parse_to_dict, or the name of an inner function
    in_tail = {id(n) for st in tail for n in ast.walk(st)}

    def scan(node, shadowed):
        for ch in ast.iter_child_nodes(node):
            if id(ch) in in_tail:
                continue
            if isinstance(ch, (ast.FunctionDef, ast.AsyncFunctionDef, ast.Lambda, ast.ClassDef)):
                need(getattr(ch, 'name', None) not in names, 'loop form: a loop name names an inner function')
                if isinstance(ch, ast.ClassDef):
                    raise Unknown('loop form: class definition')
                a = ch.args
                need(not a.vararg and not a.kwarg and not a.kwonlyargs and not a.posonlyargs,
                     'loop form: inner function with an unusual signature')
                params = {x.arg for x in a.args}
                for d in list(a.defaults) + [x.annotation for x in a.args if x.annotation is not None]:
                    scan_expr(d, shadowed)
                body = ch.body if isinstance(ch.body, list) else [ch.body]
                for st in body:
                    scan_stmt(st, shadowed | params)
                continue
            scan_stmt(ch, shadowed)

    def scan_expr(node, shadowed):
        for n in ast.walk(node):
            if isinstance(n, ast.Name) and n.id in names and n.id not in shadowed:
                raise Unknown('loop form: a loop name is also used elsewhere')

    def scan_stmt(node, shadowed):
        if id(node) in in_tail:
            return
        if isinstance(node, ast.Name):
            if node.id in names and node.id not in shadowed:
                raise Unknown('loop form: a loop name is also used elsewhere')
        elif isinstance(node, ast.ExceptHandler) and node.name in names:
            raise Unknown('loop form: a loop name is also used elsewhere')
        elif isinstance(node, (ast.Global, ast.Nonlocal)) and set(node.names) & set(names):
            raise Unknown('loop form: a loop name is declared global/nonlocal')
        scan(node, shadowed)

    for x in fn.args.args + fn.args.kwonlyargs:
        need(x.arg not in names, 'loop form: a loop name is a parameter of parse_to_dict')
    for st in fn.body:
        scan_stmt(st, frozenset())
    return CANONICAL_RESULT


ORDER = ['default_sep', 'default_parse', 'default_parse_binding', 'default_parse_keys',
         'try_parse_guard', 'try_parse_attempt', 'try_parse_catches', 'try_parse_fallback',
         'parse_tuple_switch', 'parse_tuple_when_true', 'parse_tuple_when_false',
         'str_item_guard', 'split_receiver', 'split_method', 'split_args', 'split_targets',
         'split_catches', 'split_raises', 'str_item_result', 'other_item_result',
         'mapping_conversion', 'mapping_catches', 'result_expr']


def coq_string(s: str) -> str:
    assert all(32 <= ord(c) < 127 for c in s), s
    return '"' + s.replace('"', '""').replace('(*', '( *').replace('*)', '* )') + '"'


def coq_value(v) -> str:
    if isinstance(v, bool):
        return 'true' if v else 'false'
    if isinstance(v, str):
        return coq_string(v)
    if isinstance(v, list):
        return '[' + '; '.join(coq_value(x) for x in v) + ']'
    raise Unknown(f'unprintable fact {v!r}')


def render(facts, error=None) -> str:
    lines = ['(* T_ParseDefaults.v — GENERATED by harness/c19_translate.py from aiuti/parsing.py; do not edit. *)',
             'From Coq Require Import String List.', 'Import ListNotations.', 'Local Open Scope string_scope.', '']
    if facts is None:
        msg = (error or '').replace('*)', '* )').replace('(*', '( *')
        lines.append(f'(* translation failed (fail-closed): {msg} *)')
        lines.append('Definition translation_failed := tt.')
        return '\n'.join(lines) + '\n'
    for k in ORDER:
        lines.append(f'Definition {k} := {coq_value(facts[k])}.')
    lines.append('')
    lines.append('Definition facts :=\n  (' + ',\n   '.join(ORDER) + ').')
    return '\n'.join(lines) + '\n'


def translate():
    path = os.path.join(C.REPO, 'aiuti', 'parsing.py')
    try:
        facts = extract(open(path).read())
        txt = render(facts)
    except (Unknown, SyntaxError, OSError, AssertionError, KeyError) as e:
        facts = None
        txt = render(None, f'{type(e).__name__}: {e}')
    C.write_if_changed(OUT, txt)
    return facts


if __name__ == '__main__':
    import json
    print(json.dumps(translate(), indent=1))
