"""Fail-closed Python-ast -> Gallina translator for the syntactic facts of C15
(DESIGN.md §3.2): for threadsafe_async_cache, buffer_until_timeout and
async_background_batcher of aiuti/asyncio.py

  accepted : keyword-only parameters of the public function
  rebound  : (keyword, variable) pairs of ``partial(<the function itself>, ...)``
             returned by the ``if func is None`` branch
  applied  : (keyword, variable) pairs with which the direct branch configures
             what it builds: the keywords of the one call of the class
             (BufferAsyncCalls / AsyncBackgroundBatcher); for the cache, the
             statement ``_cache = cache if cache is not None else {}``
  ctor     : keyword-only parameters of the class' __init__ (the cache has no
             class: its own parameter list)

Output: coq/gen/T_Options.v (``Definition decorators : list deco``), regenerated on
every run from the CURRENT source of ``common.REPO`` and content-compared.
Any shape outside the whitelist below -> no ``decorators`` definition (only
``translation_failed``), so props/C15.v stops compiling and the runner goes to
its behavioural search.
"""
from __future__ import annotations

import ast
import os

from . import common as C
from . import c14_translate as K

OUT = os.path.join(C.GEN, 'T_Options.v')
Unsupported = K.Unsupported

DECOS = [('threadsafe_async_cache', None),
         ('buffer_until_timeout', 'BufferAsyncCalls'),
         ('async_background_batcher', 'AsyncBackgroundBatcher')]


def _kw_pairs(call, what):
    out = []
    for k in call.keywords:
        if k.arg is None:
            raise Unsupported(f'{what}: **mapping argument at line {call.lineno}')
        if not isinstance(k.value, ast.Name):
            raise Unsupported(f'{what}: value of {k.arg}= is not a plain variable (line {call.lineno})')
        out.append((k.arg, k.value.id))
    return out


def _is_func_none_test(t):
    return (isinstance(t, ast.Compare) and K._is_name(t.left, 'func') and len(t.ops) == 1
            and isinstance(t.ops[0], ast.Is) and K._is_none(t.comparators[0]))


def _first_param_is_func(fn):
    a = fn.args
    pos = a.posonlyargs + a.args
    if len(pos) != 1 or pos[0].arg != 'func' or a.vararg or a.kwarg:
        raise Unsupported(f'{fn.name}: positional signature is not (func)')
    if len(a.defaults) != 1 or not K._is_none(a.defaults[0]):
        raise Unsupported(f'{fn.name}: func does not default to None')


def rebound(fn):
    branches = [st for st in fn.body if isinstance(st, ast.If) and _is_func_none_test(st.test)]
    if len(branches) != 1:
        raise Unsupported(f'{fn.name}: {len(branches)} `if func is None` branches')
    br = branches[0]
    if br.orelse or len(br.body) != 1 or not isinstance(br.body[0], ast.Return):
        raise Unsupported(f'{fn.name}: `if func is None` branch is not a single return')
    call = br.body[0].value
    if not (isinstance(call, ast.Call) and K._is_name(call.func, 'partial') and len(call.args) == 1
            and K._is_name(call.args[0], fn.name)):
        raise Unsupported(f'{fn.name}: the branch does not return partial({fn.name}, ...)')
    # nothing before the branch may re-bind an option
    for st in fn.body:
        if st is br:
            break
        if not (isinstance(st, ast.Expr) and isinstance(st.value, ast.Constant)):
            raise Unsupported(f'{fn.name}: statement before the `func is None` branch (line {st.lineno})')
    return br, _kw_pairs(call, fn.name + ' partial')


def _stores_to(fn, names, skip=()):
    """Names of ``names`` that are re-bound anywhere in fn (outside ``skip`` statements)."""
    bad = []
    for st in fn.body:
        if st in skip:
            continue
        for n in ast.walk(st):
            if isinstance(n, ast.Name) and isinstance(n.ctx, ast.Store) and n.id in names:
                bad.append(n.id)
            if isinstance(n, ast.arg) and n.arg in names:
                bad.append(n.arg)          # shadowed by a nested function's parameter
    return bad


def applied_via_class(fn, br, cls):
    calls = []
    for st in fn.body:
        if st is br:
            continue
        for n in ast.walk(st):
            if isinstance(n, ast.Call) and K._is_name(n.func, cls):
                calls.append(n)
    if len(calls) != 1:
        raise Unsupported(f'{fn.name}: {len(calls)} calls of {cls}')
    return _kw_pairs(calls[0], f'{fn.name} -> {cls}')


def ctor_params(tree, cls):
    cs = [n for n in tree.body if isinstance(n, ast.ClassDef) and n.name == cls]
    if len(cs) != 1:
        raise Unsupported(f'{len(cs)} classes {cls}')
    inits = [n for n in cs[0].body if isinstance(n, ast.FunctionDef) and n.name == '__init__']
    if len(inits) != 1:
        raise Unsupported(f'{cls}: {len(inits)} __init__')
    a = inits[0].args
    if a.kwarg is not None or a.vararg is not None:
        raise Unsupported(f'{cls}.__init__ takes * / ** arguments')
    params = [x.arg for x in a.kwonlyargs]
    # every keyword-only parameter must be read somewhere in __init__ and none re-bound
    for p in params:
        loads = [n for n in ast.walk(inits[0]) if isinstance(n, ast.Name) and n.id == p and isinstance(n.ctx, ast.Load)]
        stores = [n for n in ast.walk(inits[0]) if isinstance(n, ast.Name) and n.id == p and isinstance(n.ctx, ast.Store)]
        if not loads or stores:
            raise Unsupported(f'{cls}.__init__: parameter {p} is unused or re-bound')
    # self.<option> = <variable>: the variable must be the option of the same name
    for n in ast.walk(inits[0]):
        if isinstance(n, ast.Assign) and len(n.targets) == 1 and isinstance(n.targets[0], ast.Attribute) \
                and K._is_name(n.targets[0].value, 'self') and n.targets[0].attr in params:
            if not K._is_name(n.value, n.targets[0].attr):
                raise Unsupported(f'{cls}.__init__: self.{n.targets[0].attr} is not set from the parameter of that name')
    return params


def facts():
    out = dict(decos=None, errors=[])
    try:
        tree = ast.parse(K._source())
        decos = []
        for name, cls in DECOS:
            fn = K._public_def(tree, name)
            _first_param_is_func(fn)
            acc = [a.arg for a in fn.args.kwonlyargs]
            br, reb = rebound(fn)
            bad = _stores_to(fn, set(acc), skip=(br,))
            if cls is None:
                store, mode = K.cache_init(fn)
                if mode != 'IfNotNone':
                    raise Unsupported(f'{name}: the cache option is applied conditionally ({mode})')
                app = [('cache', 'cache')]
                ctor = list(acc)
            else:
                app = applied_via_class(fn, br, cls)
                ctor = ctor_params(tree, cls)
            if bad:
                raise Unsupported(f'{name}: option variables re-bound: {sorted(set(bad))}')
            decos.append(dict(name=name, accepted=acc, rebound=reb, applied=app, ctor=ctor))
        out['decos'] = decos
    except (Unsupported, SyntaxError, OSError) as e:
        out['errors'].append(str(e))
    return out


def _s(x):
    assert '"' not in x
    return f'"{x}"'


def render(f):
    L = ['(* GENERATED by harness/c15_translate.py from aiuti/asyncio.py.',
         '   Regenerated on every run; do not edit. *)',
         'From Coq Require Import List String.', 'Import ListNotations.', 'Open Scope string_scope.',
         'Require Import Aiuti.Options.', '']
    for e in f['errors']:
        L.append('(* untranslatable: ' + e.replace('(*', '( *').replace('*)', '* )') + ' *)')
    if f['decos'] is None:
        L.append('Definition translation_failed := tt.')
        return '\n'.join(L) + '\n'
    items = []
    for d in f['decos']:
        pairs = lambda l: '[' + '; '.join(f'({_s(a)}, {_s(b)})' for a, b in l) + ']'
        strs = lambda l: '[' + '; '.join(_s(a) for a in l) + ']'
        items.append(f'  mkdeco {_s(d["name"])}\n    {strs(d["accepted"])}\n    {pairs(d["rebound"])}\n'
                     f'    {pairs(d["applied"])}\n    {strs(d["ctor"])}')
    L.append('Definition decorators : list deco := [\n' + ';\n'.join(items) + '\n].')
    return '\n'.join(L) + '\n'


def translate():
    f = facts()
    C.write_if_changed(OUT, render(f))
    return f


if __name__ == '__main__':
    print(render(facts()))
