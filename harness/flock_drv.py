"""Drivers that run the REAL aiuti.filelock.FileLock under the gated shims
(harness/flock_shims.py) and record canonical observations.

  run_seq(case)   C12: an operation sequence, each call run to completion by its (gated) thread,
                  probes after every call
  run_sched(case) C02: thread programs under an explicit schedule of gate decisions
  explore(case)   C02: DFS over the implementation's schedule tree (used by the generators)

Cases / observations are plain JSON values; `*_to_coq` helpers render the shared parts.
Call format (both drivers):
    ['acq', o, mode, blk, tm, poll, skip]   mode in plain|ctx|with; tm None | -1 | ticks>=0
    ['rel', o, force]
    ['del', o]                              C02 only: the calling thread drops the object (-> __del__ ->
                                            release(force=True)); a fresh object with the same configuration
                                            takes its place.  Model: CRel o true.
"""
from __future__ import annotations

import gc
import sys as _sys
import weakref

from . import gate
from . import common as C
from .flock_shims import Env, TICK, DEFAULT_POLL_TICKS, opcode

RES = {True: 'T', False: 'F', None: 'N'}
RES_COQ = {'T': 'RTrue', 'F': 'RFalse', 'TO': 'RTimeout', 'OS': 'ROSErr', 'N': 'RNone',
           'RT': 'RRuntime', 'WB': 'RWouldBlock', 'EX': 'ROutOfFuel'}
KIND_COQ = {'open': 'KOpen', 'lock': 'KLock', 'unlock': 'KUnlock', 'close': 'KClose'}
MODE_COQ = {'plain': 'MPlain', 'ctx': 'MCtx', 'with': 'MWith'}


# ------------------------------------------------------------------------------
# issuing one API call on the real object
# ------------------------------------------------------------------------------

class HBase(BaseException):
    """A harness exception that is NOT an Exception (like CancelledError / GeneratorExit / KeyboardInterrupt)."""


def _block_exceptions():
    import asyncio
    return [ValueError, HBase, asyncio.CancelledError]


class Caller:
    """Per-run bookkeeping of context managers, so that a release of a lock entered through
    acquire_ctx()/with is issued as that context manager's __exit__ (which is release())."""

    def __init__(self, locks):
        self.locks = locks
        self.cms = {}            # (t, o) -> stack of ('ctx', cm) | ('with', lock)
        self.keep = []           # keeps generator context managers alive until teardown
        self.nexit = 0           # every second context-manager exit leaves the block through an exception

    def forget(self, o):
        """Drop every context-manager record of object o (the object is being deleted)."""
        for key in list(self.cms):
            if key[1] == o:
                self.cms[key].clear()

    def do(self, t, call):
        """Execute the call; returns the canonical result code."""
        lk = self.locks[call[1]]
        try:
            if call[0] == 'acq':
                _, o, mode, blk, tm, poll, _skip = call
                tmf = None if tm is None else (-1 if tm < 0 else tm * TICK)
                if mode == 'plain':
                    return RES.get(lk.acquire(blk, tmf, poll * TICK), 'EX')
                if mode == 'ctx':
                    cm = lk.acquire_ctx(blk, tmf, poll * TICK)
                    self.keep.append(cm)
                    cm.__enter__()
                    self.cms.setdefault((t, o), []).append(('ctx', cm))
                    return 'T'
                r = lk.__enter__()
                self.cms.setdefault((t, o), []).append(('with', lk))
                return 'T' if r is lk else 'EX'
            _, o, force = call
            st = self.cms.get((t, o), [])
            if force:
                st.clear()
                return RES.get(lk.release(force=True), 'EX')
            if st:
                _kind, cm = st.pop()
                self.nexit += 1
                if self.nexit % 2:
                    r = cm.__exit__(None, None, None)       # contextmanager: False, FileLock: None
                else:
                    # the protected block raised: __exit__ / the generator's finally must do the same release() —
                    # whatever the class of the exception: an ordinary Exception, or a BaseException that is not one
                    # (a harness class, asyncio.CancelledError); the harness "catches" it right here, i.e. inside
                    # the enclosing block when the context managers are nested
                    cls = _block_exceptions()[(self.nexit // 2) % 3]
                    e = cls('harness: the with-block is left through an exception')
                    r = cm.__exit__(cls, e, None)
                return 'N' if (r is None or r is False) else 'EX'
            return RES.get(lk.release(), 'EX')
        except TimeoutError:
            return 'TO'
        except (OSError, KeyboardInterrupt):   # a re-raised injected fault (OSError or the BaseException flavour)
            return 'OS'
        except RuntimeError:
            return 'RT'
        except gate._Abort:
            raise
        except Exception:
            return 'EX'


def make_locks(F, env, objs):
    out = []
    for reent, dflt in objs:
        out.append(F.FileLock(env.path, timeout=(-1 if dflt < 0 else dflt * TICK), reentrant=bool(reent)))
    return out


# ------------------------------------------------------------------------------
# C12: sequences
# ------------------------------------------------------------------------------

def run_seq(case):
    """obs = list per op of [res, locked[], elapsed, fds, fired, probes[], pfired];
    a WouldBlock op ends the list.  Plus 'km' (kernel/table mismatches)."""
    nT = case.get('nthreads', 2)
    ctl = gate.Ctl(lambda step, en, c: en[0], max_steps=20000)
    env = Env(ctl, case.get('faults', ()))
    F = env.install()
    locks = []
    try:
        locks = make_locks(F, env, case['objs'])
        nO = len(locks)
        caller = Caller(locks)
        cmd = [None] * nT
        out = []
        state = dict(i=0, cur=None)
        ops = case['ops']

        def locked():
            return [bool(l.is_locked) for l in locks]

        def main_cmd(i):
            t, call = ops[i][0], ops[i][1:]

            def go():
                t0, f0 = env.ticks(), env.fired
                rec = ['?', [], 0, 0, 0, [], 0]
                state['cur'] = rec
                out.append(rec)
                rec[0] = caller.do(t, call)
                rec[1], rec[2], rec[3], rec[4] = locked(), env.ticks() - t0, env.fd_count(), env.fired - f0
                next_probe(i, 0, env.fired)
            cmd[t] = go

        def next_probe(i, k, f1):
            if k == nT * nO:
                out[-1][6] = env.fired - f1
                if i + 1 < len(ops):
                    main_cmd(i + 1)
                else:
                    for u in range(nT):
                        cmd[u] = 'stop'
                return
            pt, po = divmod(k, nO)

            def go():
                try:
                    r = locks[po].acquire(False) is True
                except gate._Abort:
                    raise
                except (Exception, KeyboardInterrupt):   # e.g. an injected fault leaving acquire
                    r = False
                out[-1][5].append(r)
                if r:
                    def undo():
                        try:
                            locks[po].release()
                        except gate._Abort:
                            raise
                        except (Exception, KeyboardInterrupt):
                            env.kernel_mismatch.append(('probe-release-raised',))
                        next_probe(i, k + 1, f1)
                    cmd[pt] = undo
                else:
                    next_probe(i, k + 1, f1)
            cmd[pt] = go

        def worker(t):
            def body():
                while True:
                    ctl.gate('call', enabled=lambda: cmd[t] is not None)
                    c, cmd[t] = cmd[t], None
                    if c == 'stop':
                        return
                    c()
            return body

        for t in range(nT):
            ctl.spawn(f't{t}', worker(t))
        if ops:
            main_cmd(0)
        else:
            for u in range(nT):
                cmd[u] = 'stop'
        res = ctl.run()
        if res != 'ok':
            rec = state['cur']
            stuck = [n for n, op in ctl.stuck() if opcode(op) != 1]
            if rec is not None and rec[0] == '?' and res == 'deadlock' and len(stuck) == 1:
                rec[0] = 'WB'
                rec[1], rec[3] = locked(), env.fd_count()
            elif rec is not None:
                rec[0] = 'EX'
            ctl.abort()
        bad_threads = [n for n in ctl.order if ctl.th[n]['exc'] is not None]
        return dict(obs=out, km=len(env.kernel_mismatch) + len(bad_threads), end=res, nsys=dict(env.nsys))
    finally:
        env.close(locks)


def tmo_coq(tm):
    if tm is None:
        return 'TNone'
    if tm < 0:
        return 'TNeg'
    return f'(TVal {C.coq_N(tm)})'


def call_coq(call):
    if call[0] == 'acq':
        _, o, mode, blk, tm, poll, skip = call
        return (f'(CAcq {o} {MODE_COQ[mode]} {C.coq_bool(blk)} {tmo_coq(tm)} {C.coq_N(poll)} {skip})')
    if call[0] == 'del':
        return f'(CRel {call[1]} true)'
    _, o, force = call
    return f'(CRel {o} {C.coq_bool(force)})'


def objs_coq(objs):
    return C.coq_list([f'({C.coq_bool(r)}, {tmo_coq(-1 if d < 0 else d)})' for r, d in objs])


def faults_coq(faults):
    return C.coq_list([f"({KIND_COQ[f[0]]}, {f[1]}, {C.coq_bool(len(f) > 2 and f[2] == 'ki')})" for f in faults])


def bools_coq(bs):
    return C.coq_list([C.coq_bool(b) for b in bs])


def seq_obs_coq(obs):
    items = []
    for r, lk, el, fds, fired, probes, pfired in obs:
        items.append(f'({RES_COQ.get(r, "ROutOfFuel")}, {bools_coq(lk)}, {C.coq_N(max(0, el))}, '
                     f'{min(fds, 999)}, {fired}, {bools_coq(probes)}, {pfired})')
    return C.coq_list(items)


# ------------------------------------------------------------------------------
# C02: thread programs under a schedule
# ------------------------------------------------------------------------------

def sched_chooser(schedule):
    """Decisions on 'start' ops are forced (they touch nothing shared) and do not consume the
    schedule; otherwise follow the schedule (thread indices); afterwards / when the named thread
    is not enabled: stay on the last thread if enabled, else the first enabled."""
    st = dict(k=0, last=None)

    def choose(step, en, ctl):
        for n in en:
            if ctl.th[n]['op'] == 'start':
                return n
        want = None
        if st['k'] < len(schedule):
            want = f"t{schedule[st['k']]}"
        st['k'] += 1
        if want not in en:
            want = st['last'] if st['last'] in en else en[0]
        st['last'] = want
        return want
    return choose


def plan_chooser(plan):
    """Line-level runs.  plan = list of segments ['call', t] (thread t runs one whole API call: from its 'call'
    gate up to its next 'call' gate / its end) or ['steps', t, k] (thread t runs k decisions); a segment is
    abandoned when its thread is done or not enabled.  'start' decisions are forced and consume nothing.
    After the plan: stay on the last thread while it is enabled, else the first enabled one."""
    st = dict(i=0, used=0, last=None)

    def choose(step, en, ctl):
        for n in en:
            if ctl.th[n]['op'] == 'start':
                return n
        while st['i'] < len(plan):
            seg = plan[st['i']]
            n = f't{seg[1]}'
            rec = ctl.th.get(n)
            over = rec is None or rec['state'] == 'done' or n not in en
            if not over:
                if seg[0] == 'steps':
                    over = st['used'] >= seg[2]
                else:
                    over = st['used'] > 0 and rec['op'] == 'call'
            if over:
                st['i'] += 1
                st['used'] = 0
                continue
            st['used'] += 1
            st['last'] = n
            return n
        n = st['last'] if st['last'] in en else en[0]
        st['last'] = n
        return n
    return choose


def run_line(case):
    """The gated threads of run_sched with a gate at EVERY source line of aiuti/filelock.py and at the
    construction of a thread lock; schedule = case['plan'] (see plan_chooser).  obs: per-thread results, occupancy
    log, end state, and the end-of-run observation: is_locked of every object and a fresh non-blocking acquire by
    a probe (the harness' main thread) once all threads have finished; 'vsteps' = decisions taken per thread."""
    return run_sched(dict(case, max_steps=case.get('max_steps', 6000)), chooser=plan_chooser(case.get('plan', [])), line=True)


def run_sched(case, chooser=None, want_choices=False, line=False):
    """obs: trace [[t, opcode] | ['adv', ticks]], per-thread results, occupancy log
    [[t, entering, inside_after, is_locked]], end state, final pending op per thread."""
    progs = case['progs']
    nT = len(progs)
    ctl = gate.Ctl(chooser or sched_chooser(case.get('schedule', [])), max_steps=case.get('max_steps', 600))
    env = Env(ctl, case.get('faults', ()))
    env.gate_mklock = bool(line)
    F = env.install()
    fname = F.__file__

    def tracer(frame, event, arg):
        if frame.f_code.co_filename != fname:
            return None
        if event == 'line':
            ctl.gate('line')
        return tracer

    locks = []
    try:
        locks = make_locks(F, env, case['objs'])
        caller = Caller(locks)
        results = [[] for _ in range(nT)]
        holds = [dict() for _ in range(nT)]       # per thread: object -> successful unreleased acquires
        occ = []

        def ninside():
            return sum(1 for h in holds if sum(h.values()) > 0)

        def worker(t):
            prog = progs[t]

            def body():
                i = 0
                while i < len(prog):
                    call = prog[i]
                    ctl.gate('call')
                    o = call[1]
                    if call[0] == 'acq':
                        r = caller.do(t, call)
                        results[t].append(r)
                        if r == 'T':
                            was = sum(holds[t].values()) > 0
                            holds[t][o] = holds[t].get(o, 0) + 1
                            if not was:
                                occ.append([t, 1, ninside(), bool(locks[o].is_locked)])
                            i += 1
                        else:
                            i += 1 + call[6]
                    else:
                        lk = bool(locks[o].is_locked)
                        force = True if call[0] == 'del' else call[2]
                        if lk:
                            was = sum(holds[t].values()) > 0
                            if force:
                                holds[t][o] = 0
                            elif holds[t].get(o, 0) > 0:
                                holds[t][o] -= 1
                            if was and sum(holds[t].values()) == 0:
                                occ.append([t, 0, ninside(), lk])
                        if call[0] == 'del':
                            # the calling thread drops the last reference: __del__ -> release(force=True)
                            # runs here, in this thread, through the same gates as a forced release
                            caller.forget(o)
                            ref = weakref.ref(locks[o])
                            locks[o] = None
                            if ref() is not None:
                                gc.collect()
                            if ref() is not None:
                                env.kernel_mismatch.append(('del-not-collected', o))
                            reent, dflt = case['objs'][o]
                            locks[o] = F.FileLock(env.path, timeout=(-1 if dflt < 0 else dflt * TICK), reentrant=bool(reent))
                            results[t].append('N')
                        else:
                            results[t].append(caller.do(t, call))
                        i += 1
            if not line:
                return body

            def traced():
                _sys.settrace(tracer)
                try:
                    body()
                finally:
                    _sys.settrace(None)
            return traced

        for t in range(nT):
            ctl.spawn(f't{t}', worker(t))
        res = ctl.run()
        trace = []
        for n, op in ctl.trace:
            if n == 'adv':
                trace.append(['adv', op])
            elif op != 'start':
                trace.append([int(n[1:]), opcode(op)])
        final = [0] * nT
        for n, op in ctl.stuck():
            final[int(n[1:])] = opcode(op)
        if res != 'ok':
            ctl.abort()
        bad_threads = [n for n in ctl.order if ctl.th[n]['exc'] is not None]
        obs = dict(trace=trace, results=results, occ=occ, end=res, final=final,
                   km=len(env.kernel_mismatch) + len(bad_threads))
        if line:
            # end-of-run observation by the (unmanaged) main thread: the gates are no-ops for it
            obs['trace'] = []
            obs['vsteps'] = [sum(1 for n, op in ctl.trace if n == f't{t}' and op != 'start') for t in range(nT)]
            locked_end, probe = [False] * len(locks), False
            if res == 'ok':
                try:
                    locked_end = [bool(lk.is_locked) for lk in locks]
                    fresh = F.FileLock(env.path)
                    probe = fresh.acquire(False) is True
                    if probe:
                        fresh.release()
                except Exception:
                    probe = False
                obs['km'] = len(env.kernel_mismatch) + len(bad_threads)
            obs['locked_end'], obs['probe'] = locked_end, probe
        if want_choices:
            obs['_choices'] = [(en, ch) for en, ch in ctl.choices]
            obs['_ops'] = [op for n, op in ctl.trace if n != 'adv']
        return obs
    finally:
        env.close(locks)


def explore(case, pbound=2, max_runs=4000):
    """All schedules of the implementation's decision tree with at most ``pbound`` preemptions
    (switching away from a thread that is still enabled), by stateless DFS: each run follows a
    prefix and then the non-preemptive default; every alternative at every later decision
    becomes a new prefix.  Returns the list of schedules (thread indices per non-start decision)."""
    out, stack, seen = [], [[]], set()
    while stack and len(out) < max_runs:
        prefix = stack.pop()
        obs = run_sched(dict(case, schedule=prefix), want_choices=True)
        dec = [(en, ch) for (en, ch), op in zip(obs['_choices'], obs['_ops']) if op != 'start']
        sched = [int(ch[1:]) for en, ch in dec]
        key = tuple(sched)
        if key in seen:
            continue
        seen.add(key)
        out.append(sched)
        # preemptions used along the realised schedule
        pre = [0] * (len(dec) + 1)
        for i, (en, ch) in enumerate(dec):
            last = dec[i - 1][1] if i else None
            pre[i + 1] = pre[i] + (1 if (last is not None and ch != last and last in en) else 0)
        for i in range(len(prefix), len(dec)):
            en, ch = dec[i]
            last = dec[i - 1][1] if i else None
            for alt in en:
                if alt == ch:
                    continue
                cost = pre[i] + (1 if (last is not None and alt != last and last in en) else 0)
                if cost <= pbound:
                    stack.append(sched[:i] + [int(alt[1:])])
    return out


def sched_trace_coq(trace):
    items = []
    for a, b in trace:
        items.append(f'(EAdv {C.coq_N(b)}, 0)' if a == 'adv' else f'(EStep {a}, {b})')
    return C.coq_list(items)


# ------------------------------------------------------------------------------
# C13: crash-point enumeration on the real OS (no shims, no gates, real processes)
# ------------------------------------------------------------------------------

import os as _os
import shutil as _shutil
import signal as _signal
import subprocess as _subprocess
import tempfile as _tempfile
import time as _time

PROC_SCRIPT = _os.path.join(_os.path.dirname(_os.path.abspath(__file__)), 'flock_proc.py')
VOPS = {'call': 1, 'tlacq': 2, 'tlfail': 2, 'open': 3, 'lock': 4, 'lockfail': 4, 'close': 5,
        'sleep': 6, 'tlrel': 7, 'unlock': 8}


def _spawn(args):
    env = dict(_os.environ, PYTHONPATH=C.REPO)
    return _subprocess.Popen([C.PY, PROC_SCRIPT] + [str(a) for a in args], env=env,
                             stdout=_subprocess.DEVNULL, stderr=_subprocess.DEVNULL)


def _wait_file(path, timeout):
    t0 = _time.time()
    while _time.time() - t0 < timeout:
        if _os.path.exists(path):
            return True
        _time.sleep(0.001)
    return False


def _in_flock(pid):
    """Is the process sleeping inside the flock(2) system call (x86-64: 73)?  Read from /proc, so that
    "blocked behind the holder" is observed, not guessed from elapsed wall-clock time."""
    try:
        return open(f'/proc/{pid}/syscall').read().split()[0] == '73'
    except (OSError, IndexError):
        return False


def _wait_blocked(proc, timeout):
    """Wait until the process sits in flock() on two consecutive looks (or has exited / timeout)."""
    t0 = _time.time()
    seen = 0
    while _time.time() - t0 < timeout and proc.poll() is None:
        seen = seen + 1 if _in_flock(proc.pid) else 0
        if seen >= 2:
            return True
        _time.sleep(0.003)
    return False


def _exited(proc):
    """Has the child terminated?  Looks WITHOUT reaping it (it stays a zombie until proc.wait())."""
    try:
        return _os.waitid(_os.P_PID, proc.pid, _os.WEXITED | _os.WNOHANG | _os.WNOWAIT) is not None
    except ChildProcessError:
        return True


def _probe(lock):
    """A fresh FileLock object in THIS process: can it take the lock without waiting?"""
    import aiuti.filelock as F
    import logging
    logging.disable(logging.CRITICAL)
    lk = F.FileLock(lock)
    try:
        r = lk.acquire(False) is True
        if r:
            lk.release()
        return r
    except Exception:
        return False
    finally:
        logging.disable(logging.NOTSET)


def run_crash(case):
    """case: program, n (kill at the n-th line event in filelock.py; 0 = the parent kills the victim
    once it is blocked / has finished its log), scen in alone|holder|waiter.
    obs: vops (opcodes of the primitives the victim completed), vres, died, w_held, probe1, probe2,
    kill (function, line) for the record."""
    d = _tempfile.mkdtemp(prefix='flock-K-')
    procs = []
    try:
        lock, log = _os.path.join(d, 'x.lock'), _os.path.join(d, 'log')
        scen, n = case['scen'], case['n']
        surv, w_started_before = None, False
        if scen == 'holder':
            surv = _spawn(['hold', lock, _os.path.join(d, 's_ready'), _os.path.join(d, 's_go')])
            procs.append(surv)
            _wait_file(_os.path.join(d, 's_ready'), 10)
        resume = _os.path.join(d, 'resume')
        v = _spawn(['crash', lock, case['program'], n if n else 10 ** 9, log] + ([resume] if scen == 'waiter' else []))
        procs.append(v)

        def logtxt():
            try:
                return open(log).read()
            except FileNotFoundError:
                return ''
        t0 = _time.time()
        ext_kill = False
        while not _exited(v):
            txt = logtxt()
            if scen == 'waiter' and surv is None and 'ret T' in txt:
                surv = _spawn(['hold', lock, _os.path.join(d, 's_ready'), _os.path.join(d, 's_go')])
                procs.append(surv)
                w_started_before = True
                _wait_blocked(surv, 5)               # the waiter has reached its blocking flock
                open(resume, 'w').close()
            if (scen == 'holder' and _in_flock(v.pid) and _wait_blocked(v, 1)) or _time.time() - t0 > 8:
                # blocked for good behind the survivor (or runaway): the crash is an external SIGKILL
                ext_kill = True
                v.send_signal(_signal.SIGKILL)
                break
            _time.sleep(0.002)
        # the victim is dead but NOT yet reaped (a zombie, the usual state right after a kill): the kernel has
        # already closed its descriptors, so a fresh non-blocking acquire must already see the truth
        probe0 = None
        if scen in ('alone', 'holder'):
            try:
                _os.waitid(_os.P_PID, v.pid, _os.WEXITED | _os.WNOWAIT)
                probe0 = _probe(lock)
            except (ChildProcessError, OSError):
                probe0 = None
        v.wait()
        died = v.returncode == -_signal.SIGKILL
        if scen == 'waiter' and surv is None:
            surv = _spawn(['hold', lock, _os.path.join(d, 's_ready'), _os.path.join(d, 's_go')])
            procs.append(surv)
        w_held = False
        if scen == 'waiter':
            if _wait_file(_os.path.join(d, 's_ready'), 5):
                w_held = open(_os.path.join(d, 's_ready')).read() == 'HELD'
        probe1 = _probe(lock)
        if probe0 is not None:
            probe1 = probe1 and probe0           # both attempts (before and after reaping) must succeed
        if surv is not None:
            open(_os.path.join(d, 's_go'), 'w').close()
            try:
                surv.wait(10)
            except Exception:
                surv.kill()
        probe2 = _probe(lock)
        vops, vres, kill = [], [], None
        for line in logtxt().splitlines():
            w = line.split()
            if not w:
                continue
            if w[0] in VOPS:
                vops.append(VOPS[w[0]])
            elif w[0] == 'ret':
                vres.append(w[1])
            elif w[0] == 'KILL':
                kill = [w[2], int(w[3])]
        return dict(vops=vops, vres=vres, died=died, ext_kill=ext_kill, w_before=w_started_before,
                    w_held=w_held, probe1=probe1, probe2=probe2, kill=kill)
    finally:
        for p in procs:
            if p.poll() is None:
                p.kill()
                p.wait()
        try:
            _os.kill(int(open(log + '.helper').read()), _signal.SIGKILL)
        except (OSError, ValueError):
            pass
        _shutil.rmtree(d, ignore_errors=True)


def crash_dry_run(program, scen):
    """Number of line events the victim executes in this scenario (until it ends or blocks)."""
    d = _tempfile.mkdtemp(prefix='flock-K0-')
    procs = []
    try:
        lock, log = _os.path.join(d, 'x.lock'), _os.path.join(d, 'log')
        if scen == 'holder':
            procs.append(_spawn(['hold', lock, _os.path.join(d, 's_ready'), _os.path.join(d, 's_go')]))
            _wait_file(_os.path.join(d, 's_ready'), 10)
        v = _spawn(['crash', lock, program, -1, log])
        procs.append(v)
        t0 = _time.time()
        while v.poll() is None and _time.time() - t0 < 10:
            if scen == 'holder' and _in_flock(v.pid) and _wait_blocked(v, 1):
                break
            _time.sleep(0.002)
        if v.poll() is None:
            v.kill()
            v.wait()
        last = 0
        for line in open(log).read().splitlines():
            w = line.split()
            if w and w[0] == 'L':
                last = int(w[1])
        return last
    finally:
        for p in procs:
            if p.poll() is None:
                p.kill()
                p.wait()
        try:
            _os.kill(int(open(log + '.helper').read()), _signal.SIGKILL)
        except (OSError, ValueError):
            pass
        _shutil.rmtree(d, ignore_errors=True)
