"""Shared driver for the AsyncBackgroundBatcher properties C04, C09, C10, C11.

Runs the REAL ``aiuti.asyncio.AsyncBackgroundBatcher`` (or the decorator form
``async_background_batcher``) under the virtual-time loop of ``vloop.py`` on an
explicit event list and records the canonical trace that ``coq/theories/Batcher.v``
predicts.

case = dict(cfg=dict(mbs=<max_batch_size>, conc=<max_concurrent_batches>,
                     bt=<batch_timeout ticks>, rt=<retention_timeout ticks>,
                     deco=<bool: use the decorator form>),
            evs=[event ...])
event = ['call', arg, key|None]            one caller task (caller id = running count of calls)
      | ['chain', arg, key|None, m]        one task making m+1 sequential calls, each in the continuation of the
                                           previous answer (every call gets the next caller id when it is made)
      | ['burst', [[arg, key|None] ...]]   several caller tasks created in the same loop iteration
      | ['burstc', [[arg, key|None] ...], j]  the same, and the j-th of these tasks is cancelled in the loop iteration
                                           right after the tasks issued their requests, BEFORE the batcher's own tasks
                                           run (a timeout that fires while the request is still being enqueued).  For
                                           the model this is  Burst l ; Cancel (first caller id + j) : `expand` splits
                                           the event and its observations accordingly before they are handed to Coq
      | ['adv', dt]                        advance virtual time by dt ticks (1 tick = 2**-10 s)
      | ['yield', bid, key, 'v'|'e', x]    the batch function of batch bid yields (str(key), x) / (str(key), HExc(x))
      | ['raise', bid, e]                  the batch function raises HExc(e) (for odd e an HExc that is also a KeyError)
      | ['raise', bid, e, 'sync']          the same event (model: BRaise bid e), and IF it directly follows the event
                                           whose step started batch bid, and it is safe to do so (one slot, the
                                           starting event is a call / chain / burst or an advance that ends at the
                                           start instant with no other timer due), the batch function raises
                                           SYNCHRONOUSLY WHEN CALLED (a plain callable that validates its input)
                                           instead of from inside the async generator; what the batch's end causes
                                           in that loop run is then reported under the raise's own step
      | ['fin', bid]                       the batch function returns
      | ['cancel', cid]                    caller task cid is cancelled
      | ['setmax', n]                      batcher.max_batch_size = n
obs  = dict(steps=[[o ...] per event], waiting=[cid ...])
o    = ['start', bid, [[key, arg] ...], now] | ['done', cid, outcome, now] | ['died']
outcome = ['ret', v] | ['yexc', e] | ['rexc', e] | ['missing'] | ['proto'] | ['cancelled'] | ['lib', cls]

Within one macro step the observation is canonical: batch starts in order, then
caller completions sorted by caller id, then task deaths (DESIGN §3.1).
Batch ids are given by the harness-owned batch function in invocation order;
the key strings handed to the library are ``str(key id)`` so that the default
key ``str(arg)`` of argument ``a`` is key id ``a``.  One key id, ``EMPTY_KEY``,
denotes the EMPTY string ``''`` (an explicit but falsy key): for the model it is
just another key; it must never be used as an argument (its default key would
be ``str(EMPTY_KEY)``, a different string) — ``new_task`` refuses that.
"""
from __future__ import annotations

import asyncio
import logging
import signal
import threading

from . import common as C
from .vloop import Sim, TICK

logging.disable(logging.CRITICAL)

# LibExc classes (small enum)
LIB_INVALID_STATE = 1
LIB_RETURNED_EXC = 2        # an Exception instance came back as a *return value*
LIB_RETURNED_OTHER = 3      # a non-int came back as a return value
LIB_TIMEOUT = 4
LIB_FOREIGN = 5             # a harness exception that is NOT the instance the batch function raised / yielded (a copy)
LIB_OTHER = 9


class HExc(Exception):
    """Harness exception with an origin: 'y' = yielded as a value, 'r' = raised."""

    def __init__(self, kind, e):
        super().__init__(kind, e)
        self.kind, self.e = kind, e


class HKeyExc(HExc, KeyError):
    """The same, but also a KeyError (a failed lookup inside the user's batch function): the
    library must not confuse it with the KeyError of its own ``futs.pop(key)``."""


class HArgExc(HExc):
    """The same, with a constructor whose signature differs from ``.args`` (as many real exception
    classes have): ``type(e)(*e.args)`` fails, so the library must hand on the instance itself."""

    def __init__(self, kind, e, origin):
        super().__init__(kind, e)
        self.origin = origin


_CUR = [None]          # the running _Run (one per process at a time)
_PATCHED = [False]


class Watchdog(BaseException):
    """Raised by SIGALRM inside a case that does not come back (e.g. a mutant whose
    collector spins inside one callback, where the loop-iteration guard of vloop
    cannot see it).  Only non-terminating runs ever hit it, so it does not make
    the check timing dependent."""


WATCHDOG_S = [20.0]    # first hit in a process: 20 s; afterwards 0.15 s per case (never reached on the unchanged tree)


_IN_CASE = [False]     # the repeating alarm only raises while a case is being executed


def _on_alarm(signum, frame):
    WATCHDOG_S[0] = 0.15
    if _IN_CASE[0]:
        raise Watchdog()


def _patch_daemon_task():
    """Substitute aiuti.asyncio.DaemonTask by a subclass that reports the death of
    a background task (ended with an exception) to the running case."""
    if _PATCHED[0]:
        return
    import aiuti.asyncio as A
    orig = A.DaemonTask

    class WatchedDaemonTask(orig):          # type: ignore
        def __init__(self, coro, *, loop=None, name=None):
            super().__init__(coro, loop=loop, name=name)
            self.add_done_callback(_task_done)

    A.DaemonTask = WatchedDaemonTask
    _PATCHED[0] = True


def _task_done(t):
    run = _CUR[0]
    if run is None or not run.sim.active:
        return
    if t.cancelled():
        return
    if t.exception() is not None:
        run.sim.obs('died')


EMPTY_KEY = 77     # the key id that stands for the explicit key '' (falsy)


def key_str(k):
    return '' if k == EMPTY_KEY else str(k)


def key_id(s):
    return EMPTY_KEY if s == '' else int(s)


def classify_exc(e, issued=None):
    if isinstance(e, HExc):
        # by identity first: the caller must receive THE object the batch function raised / yielded
        if issued is not None and not any(e is x for x in issued):
            return ['lib', LIB_FOREIGN]
        return ['yexc', e.e] if e.kind == 'y' else ['rexc', e.e]
    if isinstance(e, KeyError):
        return ['proto']
    if isinstance(e, ValueError) and 'Missing result' in str(e):
        return ['missing']
    if isinstance(e, asyncio.InvalidStateError):
        return ['lib', LIB_INVALID_STATE]
    if isinstance(e, (asyncio.TimeoutError, TimeoutError)):
        return ['lib', LIB_TIMEOUT]
    return ['lib', LIB_OTHER]


class _Run:
    def __init__(self, case):
        self.case = case
        self.cfg = case['cfg']
        self.sim = Sim()
        self.nbid = 0
        self.parked = {}       # bid -> harness future the batch function is parked on
        self.ncid = 0          # caller ids handed out (one per call made)
        self.inflight = {}     # cid -> task currently awaiting that call
        self.first_cids = {}   # index of a 'burstc' event -> caller id of its first task
        self.issued = []       # every exception instance the batch function raised / yielded (kept alive)
        self.sync_split = {}   # step -> index into sim.log from which the records belong to the next step
        self.cur_kind = None   # kind of the last non-advance event handed to the handler
        self.batcher = None
        self.call = None

    # -- harness-owned batch function ------------------------------------
    def make_exc(self, n, bid):
        exc = (HArgExc('r', n, bid) if n % 4 == 2 else HKeyExc('r', n) if n % 2 else HExc('r', n))
        self.issued.append(exc)
        return exc

    def sync_raise_now(self, bid):
        """The id to raise at call time, or None: the next scripted event is ['raise', bid, e, 'sync'] and
        everything that happens from now on in this loop run is a consequence of this batch's end."""
        sim = self.sim
        nxt = sim.events[0] if sim.events else None
        if not (isinstance(nxt, list) and len(nxt) == 4 and nxt[0] == 'raise' and nxt[1] == bid and nxt[3] == 'sync'):
            return None
        if self.cfg['conc'] != 1 or sim.step in self.sync_split:
            return None
        tgt = sim._adv_target
        if tgt is not None:                      # inside an Advance: only at its very end, nothing else due
            if sim.loop._vt < tgt - 1e-12:
                return None
            if any((not h._cancelled) and h._when <= tgt + 1e-12 for h in sim.loop._scheduled):
                return None
        elif self.cur_kind not in ('call', 'chain', 'burst'):
            return None
        return nxt[2]

    def func(self, args):
        """A plain callable: reports the start, then raises at once (scripted) or returns the async generator."""
        sim = self.sim
        bid = self.nbid
        self.nbid += 1
        items = []
        for k, a in args:
            try:
                items.append([key_id(k), int(a)])
            except Exception:
                items.append([4999, 4999])
        sim.obs('start', bid, items, sim.ticks())
        n = self.sync_raise_now(bid)
        if n is not None:
            self.sync_split[sim.step] = len(sim.log)      # later records of this loop run belong to the raise's step
            raise self.make_exc(n, bid)
        return self.gen(bid)

    async def gen(self, bid):
        sim = self.sim
        while True:
            fut = sim.loop.create_future()
            self.parked[bid] = fut
            cmd = await fut
            if cmd[0] == 'yield':
                x = cmd[3]
                if cmd[2] != 'v':
                    x = HExc('y', x)
                    self.issued.append(x)
                yield (key_str(cmd[1]), x)
            elif cmd[0] == 'raise':
                raise self.make_exc(cmd[1], bid)
            else:
                return

    async def one_call(self, arg, key):
        try:
            if key is None:
                r = await self.call(arg)
            else:
                r = await self.call(arg, key=key_str(key))
            if isinstance(r, BaseException):
                return ['lib', LIB_RETURNED_EXC]
            if isinstance(r, int) and not isinstance(r, bool):
                return ['ret', r]
            return ['lib', LIB_RETURNED_OTHER]
        except asyncio.CancelledError:
            return ['cancelled']
        except BaseException as e:     # noqa
            return classify_exc(e, self.issued)

    async def caller(self, cid, arg, key, more=0):
        """One task: more+1 sequential calls; a cancelled task stops calling."""
        sim = self.sim
        task = asyncio.current_task()
        while True:
            self.inflight[cid] = task
            out = await self.one_call(arg, key)
            self.inflight.pop(cid, None)
            if sim.active:
                sim.obs('done', cid, out, sim.ticks())
            if out == ['cancelled'] or more <= 0 or not sim.active:
                return
            more -= 1
            cid = self.ncid          # the next call is made right here, in the continuation
            self.ncid += 1

    def new_task(self, arg, key, more=0):
        if arg == EMPTY_KEY:
            raise ValueError('EMPTY_KEY must not be used as an argument')
        cid = self.ncid
        self.ncid += 1
        return self.sim.loop.create_task(self.caller(cid, arg, key, more))

    def setup(self):
        import aiuti.asyncio as A
        cfg = self.cfg
        kw = dict(max_batch_size=cfg['mbs'], max_concurrent_batches=cfg['conc'],
                  batch_timeout=cfg['bt'] * TICK, retention_timeout=cfg['rt'] * TICK)
        if cfg.get('deco'):
            self.call = A.async_background_batcher(**kw)(self.func)
        else:
            self.batcher = A.AsyncBackgroundBatcher(self.func, **kw)
            self.call = self.batcher

    def handler(self, ev):
        loop = self.sim.loop
        kind = ev[0]
        self.cur_kind = kind
        if self.call is None:
            self.setup()
        if kind == 'burstc':
            self.first_cids[self.sim.step] = self.ncid
            ts = [self.new_task(a, k) for a, k in ev[1]]
            if 0 <= ev[2] < len(ts):
                loop.call_soon(ts[ev[2]].cancel)      # runs after the tasks' first steps, before the collector
        elif kind == 'call':
            self.new_task(ev[1], ev[2])
        elif kind == 'chain':
            self.new_task(ev[1], ev[2], ev[3])
        elif kind == 'burst':
            for a, k in ev[1]:
                self.new_task(a, k)
        elif kind in ('yield', 'raise', 'fin'):
            fut = self.parked.get(ev[1])
            if fut is not None and not fut.done():
                if kind == 'yield':
                    fut.set_result(('yield', ev[2], ev[3], ev[4]))
                elif kind == 'raise':
                    fut.set_result(('raise', ev[2]))
                else:
                    fut.set_result(('fin',))
        elif kind == 'cancel':
            t = self.inflight.get(ev[1])
            if t is not None:
                t.cancel()
        elif kind == 'setmax':
            if self.batcher is not None:
                self.batcher.max_batch_size = ev[1]
        else:
            raise ValueError(ev)

    def go(self):
        _patch_daemon_task()
        sim = self.sim
        _CUR[0] = self
        try:
            evs = [tuple(e) if e[0] == 'adv' else e for e in self.case['evs']]
            sim.run(evs, self.handler)
            nsteps = len(evs)
            steps = [[] for _ in range(nsteps)]
            for idx, rec in enumerate(sim.log):
                st = rec[0]
                if st in self.sync_split and idx >= self.sync_split[st]:
                    st += 1                        # caused by the synchronous raise: the step of ['raise', b, e, 'sync']
                if 0 <= st < nsteps:
                    steps[st].append(list(rec[1:]))
                else:
                    steps[0].append(['died'])      # cannot happen: nothing runs before step 0
            canon = []
            for s in steps:
                starts = [o for o in s if o[0] == 'start']
                dones = sorted((o for o in s if o[0] == 'done'), key=lambda o: o[1])
                died = [o for o in s if o[0] == 'died']
                canon.append(starts + dones + died)
            done = {o[1] for s in canon for o in s if o[0] == 'done'}
            waiting = [c for c in range(self.ncid) if c not in done]
            res = dict(steps=canon, waiting=waiting)
            if self.first_cids:
                res['first_cids'] = {str(k): v for k, v in self.first_cids.items()}
            if sim.spun:
                res['spun'] = True
            return res
        finally:
            _IN_CASE[0] = False
            _CUR[0] = None
            sim.close()


def run_impl(case):
    use_alarm = threading.current_thread() is threading.main_thread()
    if use_alarm:
        old = signal.signal(signal.SIGALRM, _on_alarm)
        # repeating: a Watchdog raised inside a callback whose exceptions are swallowed (weakref
        # callbacks, __del__) must fire again until it lands in ordinary code
        signal.setitimer(signal.ITIMER_REAL, WATCHDOG_S[0], 0.25)
    try:
        _IN_CASE[0] = True
        return _Run(case).go()
    except Watchdog:
        WATCHDOG_S[0] = 0.15
        o = error_obs(case, None)
        o['spun'] = True
        return o
    finally:
        _IN_CASE[0] = False
        if use_alarm:
            signal.setitimer(signal.ITIMER_REAL, 0)
            signal.signal(signal.SIGALRM, old)


def error_obs(case, o):
    """Observation used when the harness itself failed on a case: one TaskDied in
    the first step (every monitor rejects it)."""
    n = len(case['evs'])
    steps = [[] for _ in range(n)]
    if n:
        steps[0] = [['died']]
    return dict(steps=steps, waiting=[])


# --------------------------------------------------------------------------
# Gallina literals
# --------------------------------------------------------------------------

def _n(x):
    return C.coq_nat(int(x))


def coq_outcome(o):
    k = o[0]
    if k == 'ret':
        return f'(Ret {_n(o[1])})'
    if k == 'yexc':
        return f'(YieldedExc {_n(o[1])})'
    if k == 'rexc':
        return f'(RaisedExc {_n(o[1])})'
    if k == 'missing':
        return 'Missing'
    if k == 'proto':
        return 'ProtocolErr'
    if k == 'cancelled':
        return 'Cancelled'
    return f'(LibExc {_n(o[1])})'


def coq_event(e):
    k = e[0]
    if k == 'call':
        return f'(Call {_n(e[1])} {C.coq_opt(e[2], _n)})'
    if k == 'chain':
        return f'(Chain {_n(e[1])} {C.coq_opt(e[2], _n)} {_n(e[3])})'
    if k == 'burst':
        return '(Burst ' + C.coq_list([f'({_n(a)}, {C.coq_opt(kk, _n)})' for a, kk in e[1]]) + ')'
    if k == 'adv':
        return f'(Advance {C.coq_N(e[1])})'
    if k == 'yield':
        r = f'(Val {_n(e[4])})' if e[3] == 'v' else f'(ExcVal {_n(e[4])})'
        return f'(BYield {_n(e[1])} {_n(e[2])} {r})'
    if k == 'raise':
        return f'(BRaise {_n(e[1])} {_n(e[2])})'
    if k == 'fin':
        return f'(BFinish {_n(e[1])})'
    if k == 'cancel':
        return f'(Cancel {_n(e[1])})'
    if k == 'setmax':
        return f'(SetMax {_n(e[1])})'
    raise ValueError(e)


def coq_obs(o):
    if o[0] == 'start':
        items = C.coq_list([f'({_n(k)}, {_n(a)})' for k, a in o[2]])
        return f'(BatchStart {_n(o[1])} {items} {C.coq_N(o[3])})'
    if o[0] == 'done':
        return f'(CallerDone {_n(o[1])} {coq_outcome(o[2])} {C.coq_N(o[3])})'
    return 'TaskDied'


def coq_cfg(cfg):
    return f'(mkcfg {_n(cfg["mbs"])} {_n(cfg["conc"])} {C.coq_N(cfg["bt"])} {C.coq_N(cfg["rt"])})'


def coq_events(evs):
    return C.coq_list([coq_event(e) for e in evs])


def expand(case, obs):
    """(events, observed steps) as the model sees them: a 'burstc' event becomes Burst l ; Cancel cid and the
    Cancelled completion of that caller (if any) moves to the Cancel step."""
    evs, steps = [], []
    fc = (obs or {}).get('first_cids') or {}
    osteps = (obs or {}).get('steps') or [[] for _ in case['evs']]
    ncalls = 0
    for i, e in enumerate(case['evs']):
        st = osteps[i] if i < len(osteps) else []
        if e[0] == 'burstc':
            cid = fc.get(str(i), ncalls) + e[2]
            hit = [o for o in st if o[0] == 'done' and o[1] == cid and o[2] == ['cancelled']]
            evs += [['burst', e[1]], ['cancel', cid]]
            steps += [[o for o in st if o not in hit], hit]
        else:
            evs.append(e)
            steps.append(st)
        ncalls += n_calls([e])
    return evs, steps


def to_coq(case, obs):
    evs, osteps = expand(case, obs)
    steps = C.coq_list([C.coq_list([coq_obs(o) for o in s]) for s in osteps])
    waiting = C.coq_list([_n(c) for c in obs['waiting']])
    return f'BCase {coq_cfg(case["cfg"])} {coq_events(evs)} {steps} {waiting}'


def explain_exprs(case, obs):
    evs, _ = expand(case, obs)
    return [f'Batcher.run_trace {coq_cfg(case["cfg"])} {coq_events(evs)}']


# --------------------------------------------------------------------------
# helpers shared by the generators of the four properties
# --------------------------------------------------------------------------

def n_calls(evs):
    n = 0
    for e in evs:
        if e[0] == 'call':
            n += 1
        elif e[0] == 'chain':
            n += 1 + e[3]
        elif e[0] in ('burst', 'burstc'):
            n += len(e[1])
    return n


def drain(evs, bt, extra=0):
    """Blind drain suffix: let the open batch time out, then finish every batch
    that can exist (bids are < number of calls); finishing in bid order also
    finishes the batches that only start when a slot frees."""
    n = n_calls(evs) + extra
    return [['adv', bt + 1]] + [['fin', b] for b in range(n)]


def shrink_candidates(case):
    evs = case['evs']
    out = []
    # drop one event (caller / batch ids shift: still a valid script)
    for i in range(len(evs)):
        out.append(dict(case, evs=evs[:i] + evs[i + 1:]))
    # split bursts, shorten
    for i, e in enumerate(evs):
        if e[0] == 'burst' and len(e[1]) > 1:
            out.append(dict(case, evs=evs[:i] + [['burst', e[1][:-1]]] + evs[i + 1:]))
        if e[0] == 'burstc':
            out.append(dict(case, evs=evs[:i] + [['burst', e[1]]] + evs[i + 1:]))
            for j in range(len(e[1])):
                if len(e[1]) > 1 and j != e[2]:
                    l2 = e[1][:j] + e[1][j + 1:]
                    out.append(dict(case, evs=evs[:i] + [['burstc', l2, e[2] - (1 if j < e[2] else 0)]] + evs[i + 1:]))
        if e[0] == 'adv' and e[1] > 1:
            out.append(dict(case, evs=evs[:i] + [['adv', e[1] // 2]] + evs[i + 1:]))
        if e[0] == 'chain':
            if e[3] > 0:
                out.append(dict(case, evs=evs[:i] + [['chain', e[1], e[2], e[3] - 1]] + evs[i + 1:]))
            else:
                out.append(dict(case, evs=evs[:i] + [['call', e[1], e[2]]] + evs[i + 1:]))
    cfg = case['cfg']
    if cfg.get('deco'):
        out.append(dict(case, cfg=dict(cfg, deco=False)))
    return out


def distribution(cases, obs):
    d = dict(cases=len(cases), events=0, calls=0, chains=0, bursts=0, adv=0, yields=0, raises=0, fins=0,
             cancels=0, setmax=0, deco=0, rt0=0, rt_pos=0,
             batch_starts=0, done_ret=0, done_yexc=0, done_rexc=0, done_missing=0, done_proto=0,
             done_cancelled=0, done_lib=0, died=0, waiting_at_end=0, immediate_shares=0)
    for c, o in zip(cases, obs):
        d['events'] += len(c['evs'])
        d['deco'] += bool(c['cfg'].get('deco'))
        d['rt0' if c['cfg']['rt'] == 0 else 'rt_pos'] += 1
        for e in c['evs']:
            k = e[0]
            if k == 'call':
                d['calls'] += 1
            elif k == 'chain':
                d['chains'] += 1
                d['calls'] += 1
            elif k in ('burst', 'burstc'):
                d['bursts'] += 1
                d['calls'] += len(e[1])
                d['cancels'] += (k == 'burstc')
            else:
                d[{'adv': 'adv', 'yield': 'yields', 'raise': 'raises', 'fin': 'fins',
                   'cancel': 'cancels', 'setmax': 'setmax'}[k]] += 1
        if not isinstance(o, dict) or 'steps' not in o:
            continue
        d['waiting_at_end'] += len(o['waiting'])
        for e, s in zip(c['evs'], o['steps']):
            for x in s:
                if x[0] == 'start':
                    d['batch_starts'] += 1
                elif x[0] == 'died':
                    d['died'] += 1
                else:
                    d['done_' + x[2][0]] += 1
                    if e[0] in ('call', 'burst', 'burstc', 'chain') and x[2][0] != 'cancelled':
                        d['immediate_shares'] += 1
    return d


# --------------------------------------------------------------------------
# texts shared by the four property modules
# --------------------------------------------------------------------------

ASSUMPTIONS = ['asyncio primitives (Queue, wait_for, Semaphore FIFO, shield, Future callbacks, call_later) are modelled, '
               'not verified; their behaviour on the exercised patterns is what the correspondence runs check',
               'the batch function raises / yields Exception subclasses only; what it does after its last yield is not observed',
               'batch_timeout >= 1 tick, max_batch_size >= 1 (also after mutation), max_concurrent_batches >= 1, '
               'retention_timeout and batch_timeout are not mutated while running',
               'macro-step granularity: of the user code that reacts inside the same loop iteration only the pattern "a task '
               'calls the batcher again in the continuation of its answer" (Chain events) is modelled (DESIGN §4)',
               'keys handed to the library are the strings str(key id), plus the empty string for one reserved key id '
               '(EMPTY_KEY: an explicit but falsy key); arguments are small integers, never EMPTY_KEY',
               'Python 3.12 asyncio semantics']
TRUSTED = ['harness/vloop.py (virtual-time loop), harness/batcher_drv.py (driver, canonicalisation: per macro step batch '
           'starts in order, completions sorted by caller id; watchdog for non-terminating runs), '
           'coq/theories/Case_Batcher.v (agree + monitors)',
           'modelled, not verified: asyncio.Queue, wait_for/timeouts, Semaphore, shield, Future done-callbacks, call_later']
LEVEL_NOTE = ('trusted: Coq kernel + vm_compute; asyncio primitives (Queue, wait_for, FIFO Semaphore, shield, Future '
    'done-callbacks, call_later, task wake-up order) are modelled in Batcher.v and validated only by the '
    'correspondence runs; harness/vloop.py, harness/batcher_drv.py, coq/theories/Case_Batcher.v (agree + monitors).  '
    'The state-free conjuncts of the monitors (ok_basic) are proved complete and sound; full-monitor soundness is proved only for simple conjuncts (monitor_sound_partial); the other conjuncts are tied '
    'to the theorems through agree (model trace = observed trace) on every case')
TECHNIQUE = 'Coq proof (inductive invariant over a macro-step model) + differential correspondence evaluated by vm_compute'
