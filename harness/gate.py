"""Gated threads: deterministic scheduling of the real multi-threaded code.

A controller owns a baton.  Every *visible operation* (shared-state primitive)
is a gate at which the calling thread publishes ``(op, enabled?)`` and parks
until the controller picks it (DESIGN.md §3.1).  Exactly one managed thread
runs at any time, so a run is a pure function of the **schedule** = the list of
thread choices.  When no thread is enabled the controller advances the global
virtual time to the earliest registered deadline, or reports ``deadlock``.

Primitives to substitute into the code under test (from outside, by module
attribute or public parameter):
    GLock / GRLock        threading.Lock / RLock (virtual-time timeouts)
    GDict                 dict whose __getitem__/__setitem__ are gates (cache=)
    GVLoop                SelectorEventLoop on the global virtual clock whose
                          idle point is a gate
    GExecutor / GFuture   ThreadPoolExecutor whose workers are managed threads
    gsleep                time.sleep in virtual time
"""
from __future__ import annotations

import asyncio
import concurrent.futures as cf
import selectors
import threading

TICK = 1.0 / 1024
EPS = 1e-9

_tls = threading.local()


class Deadlock(Exception):
    pass


class _Abort(BaseException):
    """Raised inside managed threads to unwind them when a run is torn down."""


class Ctl:
    def __init__(self, chooser, max_steps=20000):
        self.cv = threading.Condition()
        self.turn = None              # thread currently holding the baton (None = controller)
        self.th = {}                  # name -> record
        self.order = []               # names in spawn order
        self.vt = 0.0
        self.trace = []               # [(name, op)] one entry per decision, ('adv', ticks) for time jumps
        self.choices = []             # per decision: (enabled names, chosen)
        self.chooser = chooser        # f(step_index, enabled_names(list, spawn order), ctl) -> name
        self.max_steps = max_steps
        self.aborting = False
        self.result = None

    # ---- called by the harness --------------------------------------------
    def spawn(self, name, fn, daemon=True):
        assert name not in self.th, name
        rec = dict(name=name, state='ready', op='start', enabled=(lambda: True), when=None, exc=None)
        t = threading.Thread(target=self._body, args=(rec, fn), daemon=daemon, name='g-' + name)
        rec['thread'] = t
        self.th[name] = rec
        self.order.append(name)
        t.start()
        return rec

    def _body(self, rec, fn):
        _tls.rec = rec
        _tls.ctl = self
        try:
            # initial wait: never hand the baton back here — a thread that is slow to start may
            # find that the controller has ALREADY granted it its first turn (resetting `turn` as
            # _park does would make the controller record a second, spurious 'start' decision)
            with self.cv:
                while self.turn != rec['name']:
                    if self.aborting:
                        raise _Abort()
                    self.cv.wait(1.0)
                if self.aborting:
                    raise _Abort()
            fn()
        except _Abort:
            pass
        except BaseException as e:       # recorded; the driver decides what it means
            rec['exc'] = e
        finally:
            with self.cv:
                rec['state'] = 'done'
                if self.turn == rec['name']:
                    self.turn = None
                self.cv.notify_all()

    def _park(self, rec):
        with self.cv:
            if self.turn == rec['name']:
                self.turn = None
            self.cv.notify_all()
            while self.turn != rec['name']:
                if self.aborting:
                    raise _Abort()
                self.cv.wait(1.0)
            if self.aborting:
                raise _Abort()

    # ---- called by managed threads ------------------------------------------
    def gate(self, op, enabled=None, when=None):
        """Publish the next visible operation and wait to be scheduled."""
        rec = getattr(_tls, 'rec', None)
        if rec is None or getattr(_tls, 'ctl', None) is not self:
            return                        # unmanaged thread (e.g. harness main): no-op
        rec['op'] = op
        rec['enabled'] = enabled or (lambda: True)
        rec['when'] = when
        self._park(rec)
        rec['enabled'] = (lambda: True)
        rec['when'] = None

    def me(self):
        rec = getattr(_tls, 'rec', None)
        return rec['name'] if rec else None

    def ticks(self):
        return round(self.vt / TICK)

    # ---- the scheduling loop ----------------------------------------------
    def run(self):
        step = 0
        while True:
            with self.cv:
                while self.turn is not None:
                    self.cv.wait(1.0)
                live = [n for n in self.order if self.th[n]['state'] != 'done']
                if not live:
                    self.result = 'ok'
                    return self.result
                en = [n for n in live if self.th[n]['enabled']()]
                if not en:
                    whens = [w for w in (self.th[n]['when']() for n in live if self.th[n]['when']) if w is not None]
                    if not whens:
                        self.result = 'deadlock'
                        return self.result
                    self.vt = max(self.vt, min(whens))
                    self.trace.append(('adv', self.ticks()))
                    continue
                if step >= self.max_steps:
                    self.result = 'steps'
                    return self.result
                n = self.chooser(step, en, self)
                if n not in en:
                    n = en[0]
                self.choices.append((list(en), n))
                self.trace.append((n, self.th[n]['op']))
                step += 1
                self.turn = n
                self.cv.notify_all()

    def abort(self):
        """Unwind every parked managed thread (after deadlock / step bound)."""
        with self.cv:
            self.aborting = True
            self.cv.notify_all()
        for n in self.order:
            self.th[n]['thread'].join(2.0)

    def stuck(self):
        return [(n, self.th[n]['op']) for n in self.order if self.th[n]['state'] != 'done']


def current_ctl() -> Ctl:
    return getattr(_tls, 'ctl', None)


# --------------------------------------------------------------------------
# choosers
# --------------------------------------------------------------------------

def schedule_chooser(schedule, fallback='first'):
    """Follow an explicit list of thread names; afterwards (or when the named
    thread is not enabled) stay on the last running thread if possible, else
    take the first enabled one (non-preemptive completion)."""
    state = {'last': None}

    def choose(step, en, ctl):
        n = schedule[step] if step < len(schedule) else None
        if n not in en:
            n = state['last'] if state['last'] in en else en[0]
        state['last'] = n
        return n
    return choose


def random_chooser(rng, stay=0.0):
    state = {'last': None}

    def choose(step, en, ctl):
        if state['last'] in en and rng.random() < stay:
            n = state['last']
        else:
            n = rng.choice(en)
        state['last'] = n
        return n
    return choose


# --------------------------------------------------------------------------
# gated primitives
# --------------------------------------------------------------------------

class GLock:
    """threading.Lock with gates on acquire and release."""
    _count = 0

    def __init__(self, ctl=None, name=None):
        self.ctl = ctl
        self.owner = None
        GLock._count += 1
        self.name = name or f'lock{GLock._count}'

    def _ctl(self):
        return self.ctl or current_ctl()

    def acquire(self, blocking=True, timeout=-1):
        ctl = self._ctl()
        if ctl is None or ctl.me() is None:          # unmanaged use
            if self.owner is not None:
                return False
            self.owner = 'unmanaged'
            return True
        if not blocking:
            ctl.gate(f'{self.name}.try')
            if self.owner is not None:
                return False
            self.owner = ctl.me()
            return True
        if timeout is not None and timeout >= 0:
            deadline = ctl.vt + timeout
            ctl.gate(f'{self.name}.acq', enabled=lambda: self.owner is None or ctl.vt >= deadline - EPS,
                     when=lambda: deadline)
            if self.owner is not None:
                return False
            self.owner = ctl.me()
            return True
        ctl.gate(f'{self.name}.acq', enabled=lambda: self.owner is None)
        self.owner = ctl.me()
        return True

    def release(self):
        ctl = self._ctl()
        if self.owner is None:
            raise RuntimeError('release unlocked lock')
        if ctl is not None:
            ctl.gate(f'{self.name}.rel')
        self.owner = None

    def locked(self):
        return self.owner is not None

    def __enter__(self):
        self.acquire()
        return self

    def __exit__(self, *a):
        self.release()


class GRLock(GLock):
    def __init__(self, ctl=None, name=None):
        super().__init__(ctl, name)
        self.depth = 0

    def acquire(self, blocking=True, timeout=-1):
        ctl = self._ctl()
        me = ctl.me() if ctl else 'unmanaged'
        if self.owner == me and me is not None:
            if ctl is not None:
                ctl.gate(f'{self.name}.reacq')
            self.depth += 1
            return True
        ok = super().acquire(blocking, timeout)
        if ok:
            self.depth = 1
        return ok

    def release(self):
        ctl = self._ctl()
        me = ctl.me() if ctl else 'unmanaged'
        if self.owner != me or self.owner is None:
            raise RuntimeError('cannot release un-acquired lock')
        if ctl is not None:
            ctl.gate(f'{self.name}.rel')
        self.depth -= 1
        if self.depth == 0:
            self.owner = None


class GDict(dict):
    """dict whose item reads/writes are gates (pass as cache=)."""
    ctl = None

    def __getitem__(self, k):
        c = self.ctl or current_ctl()
        if c is not None:
            c.gate('cache.get')
        return dict.__getitem__(self, k)

    def __setitem__(self, k, v):
        c = self.ctl or current_ctl()
        if c is not None:
            c.gate('cache.set')
        dict.__setitem__(self, k, v)


def gsleep(dt):
    ctl = current_ctl()
    if ctl is None or ctl.me() is None:
        return
    deadline = ctl.vt + max(0.0, dt)
    ctl.gate('sleep', enabled=lambda: ctl.vt >= deadline - EPS, when=lambda: deadline)


class _GSel(selectors.DefaultSelector):
    loop = None

    def _peek(self):
        return selectors.DefaultSelector.select(self, 0)

    def select(self, timeout=None):
        ev = selectors.DefaultSelector.select(self, 0)
        if ev or timeout == 0:
            return ev
        L = self.loop
        ctl = L.ctl

        def due():
            w = L._next_when()
            return w is not None and w <= ctl.vt + EPS
        if due():
            return []
        ctl.gate('idle', enabled=lambda: bool(self._peek()) or due(), when=L._next_when)
        return selectors.DefaultSelector.select(self, 0)


class GVLoop(asyncio.SelectorEventLoop):
    """Event loop on the controller's virtual clock; its idle point is a gate
    enabled by 'self-pipe readable or a timer due'."""

    def __init__(self, ctl):
        sel = _GSel()
        super().__init__(sel)
        sel.loop = self
        self.ctl = ctl
        self._clock_resolution = TICK / 4

    def time(self):
        return self.ctl.vt

    def _next_when(self):
        import heapq
        sched = self._scheduled
        while sched and sched[0]._cancelled:
            h = heapq.heappop(sched)
            h._scheduled = False
            self._timer_cancelled_count = max(0, self._timer_cancelled_count - 1)
        return sched[0]._when if sched else None


class GFuture(cf.Future):
    ctl = None

    def result(self, timeout=None):
        c = self.ctl
        if c is not None and c.me() is not None:
            c.gate('fut.result', enabled=self.done)
        return super().result(timeout)


class GExecutor:
    """ThreadPoolExecutor whose workers are managed threads (one per submit)."""
    _n = 0

    def __init__(self, max_workers=None, ctl=None, prefix='w', **kw):
        self.ctl = ctl or current_ctl()
        self.prefix = prefix
        self.futs = []

    def submit(self, fn, *a, **kw):
        ctl = self.ctl or current_ctl()
        fut = GFuture()
        fut.ctl = ctl
        GExecutor._n += 1
        name = f'{self.prefix}{len(ctl.order)}'

        def body():
            if not fut.set_running_or_notify_cancel():
                return
            try:
                r = fn(*a, **kw)
            except BaseException as e:
                fut.set_exception(e)
            else:
                fut.set_result(r)
        rec = ctl.spawn(name, body)
        fut.worker = name
        self.futs.append((fut, rec))
        return fut

    def shutdown(self, wait=True, **kw):
        ctl = self.ctl or current_ctl()
        if wait and ctl is not None and ctl.me() is not None:
            ctl.gate('pool.shutdown', enabled=lambda: all(r['state'] == 'done' for _, r in self.futs))

    def __enter__(self):
        return self

    def __exit__(self, *a):
        self.shutdown(wait=True)
        return False
