"""C11 — AsyncBackgroundBatcher: same-key requests are computed once per
retention window, then afresh.  Thin module over harness/batcher_drv.py."""
from __future__ import annotations

import random

from .. import batcher_drv as D
from .. import batcher_gen as G

PROP = 'C11'
READY = True
PROPS_MODULE = 'C11'
MODEL_TARGETS = ['theories/Case_C11.vo']
HEADER = ('From Coq Require Import List NArith. Import ListNotations.\n'
          'Require Import Aiuti.Batcher Aiuti.Case_Batcher Aiuti.Case_C11.')
CASE_TYPE = 'Case_Batcher.case'
VERDICT = 'Case_C11.verdict'
PARALLEL = 16
CHUNK = 300
RULE = ('case = (configuration in ticks; event list) run against the real AsyncBackgroundBatcher under the virtual-time '
        'loop, no caller cancelled.  Exhaustive layer: every event list up to depth D with <= 4 calls over {call key0 by '
        'default str(arg), call key0 by explicit key= with another arg, call key1, advance to 1 tick before / exactly to / '
        '1 tick past the next armed deadline (batch timeout or retention timer), and for the oldest live batch: yield a '
        'value / an Exception for an unanswered key, raise, return} for retention_timeout 0, 5 (< batch_timeout) and 9 '
        '(> batch_timeout; there the explicit key is the empty string, used with two different args); random layer: up to 10 calls over 1..3 keys plus the explicit empty key, retention in {0, 7, 40, 4000} ticks, gaps on a grid '
        'around retention_timeout, batch_timeout and every armed deadline.  non-trivial = some key is requested at least '
        'twice and somebody is answered (Case_C11.nontrivial, inside Coq); distinct = distinct (case, trace) pairs'
        ' Chain events (one task making m+1 sequential calls, each in the continuation of the previous answer — the only way to call in the very loop iteration in which the key is released) are part of the corpus, of the exhaustive alphabet (retention 0 / one slot) and of the random layer.')
EXHAUSTIVE_NOTE = ('all event lists of length <= D (D=5 quick, 6 thorough; one less for concurrency 2) with <= 4 calls over the alphabet in the rule, for '
                   'retention_timeout in {0, 5, 9} ticks, batch_timeout 6, max_batch_size 2, concurrency 1..2')
ASSUMPTIONS = D.ASSUMPTIONS
TRUSTED = D.TRUSTED
ALLOWED_AXIOMS = []
LEVEL_NOTE = ('trusted: Coq kernel + vm_compute; asyncio primitives (Queue, wait_for, FIFO Semaphore, shield, Future '
    'done-callbacks, call_later, task wake-up order) are modelled in Batcher.v and validated only by the '
    'correspondence runs; harness/vloop.py, harness/batcher_drv.py, coq/theories/Case_Batcher.v (agree + monitors).  '
    'The state-free conjuncts of the monitors (ok_basic) are proved complete and sound; the full monitors ok_C04 / '
    'ok_C10 / ok_C11 are proved complete on ALL event lists, Chain events included (monitor_complete; ok_C04 / '
    'ok_C10 for batch_timeout > 0), and partially sound model-free (monitor_sound_*)')
TECHNIQUE = D.TECHNIQUE

run_impl = D.run_impl
error_obs = D.error_obs
to_coq = D.to_coq
explain_exprs = D.explain_exprs
shrink_candidates = D.shrink_candidates
distribution = D.distribution

W = dict(call=34, chain=8, burst=6, adv=26, fin=8, **{'yield': 20}, **{'raise': 4}, junk=2)


def corpus():
    out = []
    c = dict(mbs=2, conc=2, bt=10, rt=20, deco=False)
    # shared while pending, shared inside the window (R-1), fresh after it (R, R+1)
    out.append(G.mk(c, [['call', 1, None], ['call', 1, None], ['adv', 10], ['call', 1, None], ['yield', 0, 1, 'v', 5],
                        ['adv', 19], ['call', 1, None], ['adv', 1], ['call', 1, None], ['adv', 10],
                        ['yield', 1, 1, 'v', 6], ['call', 1, None], ['fin', 0], ['fin', 1]]))
    # retention 0: nothing is remembered once answered
    out.append(G.mk(dict(c, rt=0), [['call', 1, None], ['adv', 10], ['yield', 0, 1, 'v', 5], ['call', 1, None],
                                    ['adv', 10], ['yield', 1, 1, 'e', 2], ['call', 1, None], ['adv', 10], ['fin', 2]]))
    # exceptions and Missing are retained as well; explicit key equal to another arg's default key
    out.append(G.mk(c, [['call', 1, None], ['call', 7, 1], ['adv', 10], ['raise', 0, 3], ['adv', 5], ['call', 9, 1],
                        ['adv', 15], ['call', 1, None], ['adv', 10], ['fin', 1], ['adv', 19], ['call', 1, None]]))
    # same arg, different keys: two items
    out.append(G.mk(c, [['call', 1, None], ['call', 1, 2], ['call', 1, 3], ['adv', 10], ['fin', 0], ['fin', 1]]))
    # retention deadline equal to a batch deadline (tie; commutes)
    out.append(G.mk(dict(c, rt=10, mbs=3), [['call', 1, None], ['adv', 10], ['yield', 0, 1, 'v', 1], ['call', 2, None],
                                            ['adv', 10], ['call', 1, None], ['adv', 10], ['fin', 1], ['fin', 2]]))
    # a task that calls again in the continuation of its answer: retention 0 -> nothing is remembered, the
    # second call creates a new item; retention > 0 -> answered at once from the window, the chain runs on
    out.append(G.mk(dict(c, rt=0), [['chain', 1, None, 2], ['adv', 10], ['yield', 0, 1, 'v', 5], ['adv', 10],
                                    ['yield', 1, 1, 'e', 6], ['adv', 10], ['fin', 2]]))
    out.append(G.mk(c, [['chain', 1, None, 2], ['call', 1, None], ['adv', 10], ['yield', 0, 1, 'v', 5], ['adv', 20],
                        ['call', 1, None], ['adv', 10], ['fin', 1]]))
    out.append(G.mk(dict(c, rt=0, mbs=3), [['chain', 1, None, 1], ['chain', 2, None, 1], ['chain', 1, None, 1],
                                           ['adv', 10], ['fin', 0], ['adv', 10], ['raise', 1, 4]]))
    # every key has its own window: key 1 completes at 0, key 2 at 5; at 26 key 2's window (5 + 20) is over
    # although less than retention_timeout passed since key 1's timer fired at 20
    out.append(G.mk(c, [['call', 1, None], ['call', 2, None], ['yield', 0, 1, 'v', 3], ['adv', 5], ['yield', 0, 2, 'v', 4],
                        ['adv', 16], ['call', 2, None], ['adv', 5], ['call', 2, None], ['call', 1, None], ['adv', 10],
                        ['fin', 0], ['fin', 1]]))
    # the decorator form forwards retention_timeout
    out.append(G.mk(dict(c, deco=True), [['call', 1, None], ['adv', 10], ['yield', 0, 1, 'v', 5], ['adv', 19],
                                         ['call', 1, None], ['adv', 1], ['call', 1, None], ['adv', 10], ['fin', 1]]))
    # the explicit EMPTY key '' (falsy): calls with different args share ONE request under it, and it is not the
    # default key str(arg) of any of them (b(2, key='') does not share with b(2))
    E = D.EMPTY_KEY
    out.append(G.mk(dict(c, mbs=3), [['call', 1, E], ['call', 2, E], ['call', 3, E], ['call', 2, None], ['adv', 10],
                                     ['yield', 0, E, 'v', 5], ['yield', 0, 2, 'v', 6], ['fin', 0], ['adv', 5],
                                     ['call', 4, E], ['adv', 20], ['call', 2, E], ['adv', 10], ['fin', 1]]))
    out.append(G.mk(dict(c, deco=True), [['burst', [[1, E], [1, None], [2, E]]], ['yield', 0, 1, 'v', 3],
                                         ['yield', 0, E, 'e', 1], ['fin', 0]]))
    return out


def _alphabet():
    def alpha(m, evs):
        # retention 9: the explicit key is the EMPTY string '' (falsy), shared by two different args
        out = ([['call', 0, None], ['call', 5, 0], ['call', 1, None]] if m.cfg['rt'] != 9 else
               [['call', 0, None], ['call', 5, D.EMPTY_KEY], ['call', 1, D.EMPTY_KEY]])
        if (m.cfg['rt'] == 0 or m.cfg['conc'] == 1) and not any(e[0] == 'chain' for e in evs):
            out.append(['chain', 0, None, 1])
        ds = [d for d in m.deadlines() if d > m.now]
        if ds and (not evs or evs[-1][0] != 'adv'):
            gap = ds[0] - m.now
            out += [['adv', g] for g in sorted({gap - 1, gap, gap + 1}) if g >= 1]
        elif not evs or evs[-1][0] != 'adv':
            out.append(['adv', 1])
        live = m.live()
        if live:
            b = live[0]
            un = list(m.running[b]['futs'])
            if un:
                out.append(['yield', b, un[0], 'v', 1 + len(evs)])
                out.append(['yield', b, un[-1], 'e', 1])
            out.append(['raise', b, 2])
            out.append(['fin', b])
        return out
    return alpha


def gen_exhaustive(tier, seed):
    depth = 5 if tier == 'quick' else 6
    out = []
    for rt in (0, 5, 9):
        for conc in (1, 2):
            cfg = dict(mbs=2, conc=conc, bt=6, rt=rt, deco=False)
            out += G.enum_programs(cfg, _alphabet(), depth - (1 if conc == 2 else 0), 4)
    return out


def gen_random(tier, seed):
    rnd = random.Random(seed * 7919 + 11)
    N = 2500 if tier == 'quick' else 60000
    out = []
    for _ in range(N):
        cfg = G.rand_cfg(rnd, rts=(0, 7, 7, 40, 40, 4000))
        nk = rnd.randint(1, 3)
        m, evs = G.rand_program(rnd, cfg, rnd.randint(6, 32), W, keys=nk, args=nk, max_calls=10)
        style = rnd.random()
        if style < 0.6:
            evs = G.finish_all(m, evs, rnd, 'mixed')
        elif style < 0.8:
            evs = evs + D.drain(evs, cfg['bt'])
        out.append(G.mk(cfg, evs))
    return out


def gen_search(tier, seed):
    rnd = random.Random(seed * 104729 + 1111)
    out = []
    for _ in range(4000):
        cfg = G.rand_cfg(rnd, rts=(0, 7, 40), deco_p=0.0)
        m, evs = G.rand_program(rnd, cfg, rnd.randint(8, 40), W, keys=2, args=2, max_calls=12)
        out.append(G.mk(cfg, G.finish_all(m, evs, rnd, 'mixed')))
    return out


LEVEL_TEXT = ('On the macro-step model of AsyncBackgroundBatcher (coq/theories/Batcher.v) props/C11.v proves for ALL event '
    'lists and configurations (any retention_timeout incl. 0): no_dup_key_in_batch; pending_key_unique — at most one '
    'pending request per key, it is the one the retention cache maps the key to; retention_window — the cache maps k '
    'to f exactly while f is pending or was completed at t with t <= now < t + retention_timeout, every pending or '
    'recently completed request is in the cache; shared_in_window — a call that finds its key adds no request and is '
    "answered with that future's outcome (at once if it is done); fresh_after_window + fresh_call_creates_request + "
    'batch_starts_after_arrival — once all requests for k completed at least retention_timeout ago the key is '
    'forgotten, the call creates a new request whose batch starts at or after the call; ret_timer_sound — every armed '
    'timer was armed for the future currently cached under its key, retention_timeout after its completion (no stale '
    'timer evicts a younger entry, the pop finds the key).  Tied to /repo by differential correspondence under the '
    'virtual-time loop, incl. tasks that call again in the continuation of their answer; the monitor ok_C11 judges '
    'the observed trace independently of the model (monitor_basic_complete / monitor_basic_sound: the state-free '
    'conjuncts — no TaskDied, completion clock, no double completion, non-empty duplicate-free batches not in the '
    'future — accept every model trace for all event lists and imply these facts; monitor_complete: the FULL '
    'monitor ok_C11 — incl. FIFO of the observed batches against the queue of expected requests and the window '
    'specification — accepts every model trace for all configurations and ALL event lists, Chain events included, by a '
    "simulation between model state and monitor state (Case_Batcher_Full.v; spec_ret: the monitor's window decides "
    'exactly like the retention cache; recalls_match: resumed tasks call again in the same order in model and '
    'monitor; monitor_complete_nochain is the earlier Chain-free version, Case_Batcher_C11.v); '
    'monitor_sound_partial for soundness of the full monitor).')
