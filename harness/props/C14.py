"""C14 — cache keys of threadsafe_async_cache (aiuti/asyncio.py).  Driver + generators.

A case is a list of sequential events against ONE decorated function:
  ['call', [vid, ...], [[name_id, vid], ...]]   call with these positional objects and
                                                  keyword arguments (in this insertion order)
  ['evict', t]                                    the harness deletes from the user mapping
                                                  the entry whose value was produced by event t
Objects are taken from VALUES (vid -> constructor, Python-equality class); a fresh
object is built for every use, so equal-but-distinct objects occur all the time.
The wrapped function returns ``Res(i)`` where i is the index of the event during
which it was invoked: every returned value is tagged with the call (hence the
arguments) that produced it, and the content of the user mapping is observed as
the list of tags of its values — independent of the shape of the keys.
"""
from __future__ import annotations

import asyncio
import itertools
import logging
import random
from collections.abc import MutableMapping

from .. import common as C
from .. import c14_translate

PROP = 'C14'
READY = True
PROPS_MODULE = 'C14'
MODEL_TARGETS = ['theories/Case_C14.vo']
HEADER = ('From Coq Require Import List. Import ListNotations.\n'
          'Require Import Aiuti.Keys Aiuti.Case_C14 AiutiGen.T_KeyExpr.')
CASE_TYPE = 'Case_C14.case'
VERDICT = 'Case_C14.verdict'
CLEAN_FOR_THOROUGH = ['theories/KeysInv.vo', 'theories/KeysMon.vo', 'theories/KeysMonN.vo', 'theories/KeysSound.vo']     # proofs only; Keys.vo/Case_C14.vo are shared with C15's evaluation
PARALLEL = 16
CHUNK = 500

# vid -> (constructor of a fresh object, Python-equality class id)
VALUES = [
    (lambda: 1, 0),                       # 0
    (lambda: 1.0, 0),                     # 1
    (lambda: True, 0),                    # 2
    (lambda: 'a', 1),                     # 3
    (lambda: ''.join(['a']), 1),          # 4  equal str, built at run time
    (lambda: tuple([1, 2]), 2),           # 5
    (lambda: tuple([1.0, 2]), 2),         # 6  equal tuple, other object, other element types
    (lambda: None, 3),                    # 7
    (lambda: 0, 4),                       # 8
    (lambda: False, 4),                   # 9
    (lambda: '1', 5),                     # 10 (a repr/str-based key confuses it with 1)
    (lambda: 2, 6),                       # 11
    (lambda: frozenset([1, 2]), 7),       # 12
    (lambda: frozenset([2, 1.0]), 7),     # 13
    (lambda: (), 8),                      # 14
    (lambda: 'True', 9),                  # 15
    (lambda: '(1, 2)', 10),               # 16
    (lambda: -1, 11),                     # 17 (hash(-1) == hash(-2))
    (lambda: -2, 12),                     # 18
    # positional values shaped like keyword ITEMS (a flattened key args + kwargs.items() confuses
    # f(1, ('x', 1)) with f(1, x=1)); NAMES[0] == 'x', NAMES[1] == 'y'
    (lambda: ('x', 1), 13),               # 19
    (lambda: tuple(['x', 1.0]), 13),      # 20 equal, other object
    (lambda: ('y', 'a'), 14),             # 21
    (lambda: (('x', 1),), 15),            # 22 a tuple of items
]
NAMES = ['x', 'y', 'z', 'w']
# case['ret']: the wrapped function returns an identity-less value instead of a tagged object
# (a `.get(key) is not None` / truthiness test on the cached value mistakes it for a miss)
PLAIN_RET = {'none': None, 'zero': 0, 'empty': '', 'false': False}
PREFILL_TAG = 99
ERR_TAG = 97          # the call raised
FOREIGN_TAG = 98      # a value in the mapping / returned that is not one of ours


class Res:
    __slots__ = ('i',)

    def __init__(self, i):
        self.i = i


class HMap(MutableMapping):
    """A MutableMapping that is not a dict (initially empty, hence falsy)."""

    def __init__(self):
        self._keys, self._vals = [], []

    def _idx(self, k):
        for i, kk in enumerate(self._keys):
            if kk == k and hash(kk) == hash(k):
                return i
        raise KeyError(k)

    def __getitem__(self, k):
        return self._vals[self._idx(k)]

    def __setitem__(self, k, v):
        try:
            self._vals[self._idx(k)] = v
        except KeyError:
            self._keys.append(k)
            self._vals.append(v)

    def __delitem__(self, k):
        i = self._idx(k)
        del self._keys[i], self._vals[i]

    def __iter__(self):
        return iter(list(self._keys))

    def __len__(self):
        return len(self._keys)


def _mapping(kind):
    if kind == 'default':
        return None
    if kind == 'dict':
        return {}
    if kind == 'hmap':
        return HMap()
    if kind.startswith('lru'):
        from lru import LRU
        return LRU(int(kind[3:]))
    raise ValueError(kind)


def _tag(v):
    if isinstance(v, Res) and isinstance(v.i, int) and (0 <= v.i < ERR_TAG or v.i == PREFILL_TAG):
        return v.i
    return FOREIGN_TAG


def _content(m):
    if m is None:
        return []
    try:
        return sorted(_tag(v) for v in list(m.values()))
    except Exception:
        return [FOREIGN_TAG]


def run_impl(case):
    logging.disable(logging.CRITICAL)
    from aiuti.asyncio import threadsafe_async_cache
    m = _mapping(case['kind'])
    if case.get('prefill') and m is not None:
        m['sentinel'] = Res(PREFILL_TAG)
    cur = [0]
    ninv = [0]

    plain = PLAIN_RET.get(case.get('ret'), Res)

    async def f(*args, **kwargs):
        ninv[0] += 1
        await asyncio.sleep(0)
        return Res(cur[0]) if plain is Res else plain

    if case.get('form', 'direct') == 'direct':
        wrapped = threadsafe_async_cache(f, cache=m) if m is not None or case.get('explicit_none') \
            else threadsafe_async_cache(f)
    else:
        if m is not None or case.get('explicit_none'):
            wrapped = threadsafe_async_cache(cache=m)(f)
        else:
            wrapped = threadsafe_async_cache()(f)
    fresh = case.get('loop', 'one') == 'fresh'
    loop = None if fresh else asyncio.new_event_loop()
    obs = []
    try:
        for i, ev in enumerate(case['events']):
            cur[0] = i
            ninv[0] = 0
            if ev[0] == 'call':
                args = [VALUES[v][0]() for v in ev[1]]
                kwargs = {}
                for n, v in ev[2]:
                    kwargs[NAMES[n]] = VALUES[v][0]()
                lp = asyncio.new_event_loop() if fresh else loop
                try:
                    r = lp.run_until_complete(wrapped(*args, **kwargs))
                    tag = _tag(r)
                except Exception:
                    tag = ERR_TAG
                finally:
                    if fresh:
                        lp.close()
                obs.append([ninv[0], tag, _content(m)])
            else:
                if m is not None:
                    for k, v in list(m.items()):
                        if isinstance(v, Res) and v.i == ev[1]:
                            del m[k]
                obs.append([0, 0, _content(m)])
    finally:
        if loop is not None:
            loop.close()
    return obs


def error_obs(case, o):
    return [[9, ERR_TAG, [FOREIGN_TAG]] for _ in case['events']]


def plain_case(ret, kind, events, **kw):
    """calls only, retaining store, function returning None / 0 / '' / False"""
    assert kind in ('default', 'dict', 'hmap') and all(e[0] == 'call' for e in events)
    return mk(kind, events, ret=ret, **kw)


# ---- Coq literals ---------------------------------------------------------

def _nats(l):
    return C.coq_list([C.coq_nat(x) for x in l])


def _sig(ev):
    pos = _nats([VALUES[v][1] for v in ev[1]])
    kw = C.coq_list([f'({n}, {VALUES[v][1]})' for n, v in ev[2]])
    return f'(mksig {pos} {kw})'


def _kind(case):
    k = case['kind']
    if k == 'default':
        return 'KDefault'
    if k.startswith('lru'):
        return f'(KUser (Some {int(k[3:])}))'
    return '(KUser None)'


def _evs(case):
    return C.coq_list([f'Call {_sig(e)}' if e[0] == 'call' else f'Evict {C.coq_nat(e[1])}'
                       for e in case['events']])


def to_coq(case, obs):
    if case.get('ret'):
        return f"C14N {_kind(case)} {_evs(case)} {_nats([min(a, 9) for a, r, c in obs])}"
    o = C.coq_list([f'({a}, {r}, {_nats(c)})' for a, r, c in obs])
    return f"C14 {_kind(case)} {C.coq_bool(case.get('prefill', False))} {_evs(case)} {o}"


def explain_exprs(case, obs):
    return [f"match T_KeyExpr.key_expr_opt, T_KeyExpr.cache_init_opt with Some e, Some m => "
            f"Some (run e m {_kind(case)} {C.coq_bool(case.get('prefill', False))} {_evs(case)}) | _, _ => None end"]


HEADER_EXPLAIN = HEADER


# ---- generators -----------------------------------------------------------

def mk(kind, events, prefill=False, form='direct', loop='one', **kw):
    assert len(events) < 90
    return dict(kind=kind, prefill=bool(prefill and kind != 'default'), form=form, loop=loop,
                events=[list(e) for e in events], **kw)


def call(pos=(), kw=()):
    return ['call', list(pos), [list(p) for p in kw]]


KINDS = ['default', 'dict', 'hmap', 'lru1', 'lru2', 'lru3']


def corpus():
    c = call
    out = [
        # the doctest: LRU(3), 1 2 3 4 then 1 is recomputed
        mk('lru3', [c([0]), c([0]), c([11]), c([11]), c([8]), c([8]), c([17]), c([17]), c([0])], form='deco'),
        # f(1) / f(1.0) / f(True) share; f(x=1) does not share with f(1)
        mk('dict', [c([0]), c([1]), c([2]), c([], [[0, 0]]), c([], [[0, 1]]), c([0], [[0, 0]])]),
        mk('default', [c([0]), c([1]), c([2]), c([], [[0, 0]]), c([], [[0, 1]]), c([0], [[0, 0]])]),
        # keyword order is irrelevant
        mk('dict', [c([], [[0, 0], [1, 3]]), c([], [[1, 4], [0, 2]]), c([], [[1, 0], [0, 3]])]),
        mk('default', [c([3], [[0, 0], [1, 3], [2, 7]]), c([4], [[2, 7], [0, 1], [1, 3]]),
                       c([3], [[2, 7], [1, 0], [0, 3]])], form='deco'),
        # positional order matters; length matters
        mk('hmap', [c([0, 3]), c([3, 0]), c([0]), c([0, 3, 7]), c([0, 3]), c([])]),
        # equal-but-distinct tuples / frozensets
        mk('dict', [c([5]), c([6]), c([12]), c([13]), c([], [[0, 5]]), c([], [[0, 6]])]),
        # '1' vs 1, 'True' vs True, '(1, 2)' vs (1, 2): never shared
        mk('dict', [c([0]), c([10]), c([2]), c([15]), c([5]), c([16]), c([17]), c([18])]),
        # evict -> exactly one recomputation
        mk('dict', [c([0]), c([0]), ['evict', 0], c([0]), c([0]), c([1])]),
        mk('hmap', [c([0], [[0, 3]]), c([3]), ['evict', 0], c([3]), c([0], [[0, 4]]), c([0], [[0, 3]]),
                    ['evict', 4], ['evict', 1], c([3]), c([0], [[0, 3]])], form='deco'),
        # an initially empty user mapping is falsy: it must still be THE store
        mk('lru3', [c([0]), c([0])]),
        mk('hmap', [c([0]), c([0])], form='deco'),
        mk('dict', [c([0]), c([0])], form='deco', loop='fresh'),
        # pre-populated user mapping
        mk('dict', [c([0]), c([3]), c([0]), ['evict', 99], c([3])], prefill=True),
        mk('lru2', [c([0]), c([3]), c([0]), c([7]), c([3])], prefill=True),
        # LRU(1)
        mk('lru1', [c([0]), c([0]), c([3]), c([0]), c([0])], loop='fresh'),
        mk('default', [c([0]), c([0])], explicit_none=True),
        # the wrapped function returns None / falsy values: still cached, still shared
        plain_case('none', 'default', [c([0]), c([1]), c([3]), c([0]), c([], [[0, 0]]), c([], [[0, 1]])]),
        plain_case('none', 'dict', [c([0]), c([0]), c([0])], form='deco'),
        plain_case('zero', 'hmap', [c([3]), c([4]), c([0])]),
        plain_case('false', 'default', [c([5]), c([6]), c([5], [[0, 0]])], loop='fresh'),
        plain_case('empty', 'dict', [c([]), c([]), c([7])]),
        # positional (name, value) tuples vs. keyword arguments: never shared
        mk('dict', [c([0], [[0, 0]]), c([0, 19]), c([0, 20]), c([], [[0, 0]]), c([19]), c([22])]),
        mk('default', [c([0, 19]), c([0], [[0, 0]]), c([21], [[0, 0]]), c([19], [[1, 3]]), c([19, 21])], form='deco'),
    ]
    return out


def _universe(tier):
    if tier == 'quick':
        pos_vals = [0, 1, 3, 5]
        poss = [[]] + [[a] for a in pos_vals] + [[0, 3], [3, 0], [6, 4]]
        kvals = [0, 1, 3]
        names = [0, 1]
    else:
        pos_vals = [0, 1, 3, 5, 6, 7]
        poss = [[]] + [[a] for a in pos_vals] + [[a, b] for a in pos_vals[:4] for b in pos_vals[:4]] + \
            [[0, 3, 5], [1, 4, 6], [0, 5, 3]]
        kvals = [0, 1, 3]
        names = [0, 1]
    kws = [[]]
    for n in names:
        kws += [[[n, v]] for v in kvals]
    for v in kvals:
        for w in kvals:
            kws.append([[names[0], v], [names[1], w]])
            kws.append([[names[1], w], [names[0], v]])
    return [(p, k) for p in poss for k in kws]


def gen_exhaustive(tier, seed):
    """All unordered pairs (with repetition) of signatures of the universe: is the
    second call served from the first one's entry?  Kinds / forms / loop modes rotate."""
    U = _universe(tier)
    out = []
    n = 0
    for i in range(len(U)):
        for j in range(i, len(U)):
            a, b = U[i], U[j]
            kind = KINDS[n % len(KINDS)]
            evs = [call(*a), call(*b), call(*a)] if n % 2 else [call(*b), call(*a)]
            out.append(mk(kind, evs, form='deco' if (n // 3) % 2 else 'direct',
                          loop='fresh' if n % 7 == 0 else 'one'))
            n += 1
    # positional values shaped like keyword items against the calls passing them as keywords
    item_pos = [[19], [0, 19], [21], [19, 21], [0, 20], [22], [0, 22]]
    kw_sigs = [([], [[0, 0]]), ([0], [[0, 0]]), ([], [[1, 3]]), ([], [[0, 0], [1, 3]]), ([0], [[0, 1]]),
               ([19], []), ([0, 19], [[1, 3]])]
    for a in item_pos:
        for (bp, bk) in kw_sigs:
            for kind in ('default', 'dict', 'lru2'):
                out.append(mk(kind, [call(bp, bk), call(a), call(bp, bk), call(a)],
                              form='deco' if n % 2 else 'direct'))
                n += 1
    # identity-less results (None, 0, '', False): every pair of a small universe, retaining stores
    small = [([], []), ([0], []), ([1], []), ([3], []), ([0, 3], []), ([], [[0, 0]]), ([0], [[0, 0]]),
             ([], [[0, 0], [1, 3]]), ([], [[1, 3], [0, 1]]), ([7], [])]
    for i, a in enumerate(small):
        for b in small[i:]:
            ret = list(PLAIN_RET)[n % 4]
            out.append(plain_case(ret, ('default', 'dict', 'hmap')[n % 3], [call(*a), call(*b), call(*a), call(*b)],
                                  form='deco' if n % 2 else 'direct', loop='fresh' if n % 5 == 0 else 'one'))
            n += 1
    # every insertion order of 3 keyword names, against each other
    base = [[0, 0], [1, 3], [2, 5]]
    perms = [list(p) for p in itertools.permutations(base)]
    for p in perms:
        for q in perms:
            out.append(mk(KINDS[n % len(KINDS)], [call([7], p), call([7], q), call([7], q[:2])]))
            n += 1
    # keyword-only calls with all 4 names: every insertion order against every other (thorough: 24 x 24;
    # quick: each of the 24 against the first), then the same dict with one value changed (never shared)
    base4 = [[0, 0], [1, 3], [2, 5], [3, 7]]
    perms4 = [list(p) for p in itertools.permutations(base4)]
    for p in (perms4 if tier != 'quick' else perms4[:1]):
        for q in perms4:
            other = [list(x) for x in q]
            other[n % 4][1] = 11
            out.append(mk(KINDS[n % len(KINDS)], [call([], p), call([], q), call([], other), call([], p)],
                          form='deco' if n % 2 else 'direct'))
            n += 1
    return out


def _rand_sig(rnd, pool):
    style = rnd.random()
    if pool and style < 0.45:
        pos, kw = rnd.choice(pool)
        pos, kw = list(pos), [list(p) for p in kw]
        m = rnd.random()
        if m < 0.3:
            rnd.shuffle(kw)                                   # another insertion order
        elif m < 0.6:                                         # equal-but-distinct objects
            same = lambda v: rnd.choice([w for w in range(len(VALUES)) if VALUES[w][1] == VALUES[v][1]])
            pos = [same(v) for v in pos]
            kw = [[n, same(v)] for n, v in kw]
        elif m < 0.7 and pos:                                 # move a positional to a keyword
            free = [n for n in range(4) if n not in [k for k, _ in kw]]
            if free:
                kw = kw + [[rnd.choice(free), pos[-1]]]
                pos = pos[:-1]
        elif m < 0.8 and len(pos) >= 2:
            rnd.shuffle(pos)
        elif m < 0.9 and kw:
            kw[rnd.randrange(len(kw))][1] = rnd.randrange(len(VALUES))
        return pos, kw
    npos = rnd.choice([0, 1, 1, 2, 2, 3])
    nkw = rnd.choice([0, 0, 1, 2, 3])
    vals = rnd.choice([[0, 1, 2, 3], [0, 3, 5, 6, 7], list(range(len(VALUES)))])
    pos = [rnd.choice(vals) for _ in range(npos)]
    names = rnd.sample(range(4), nkw)
    kw = [[n, rnd.choice(vals)] for n in names]
    return pos, kw


def _rand_case(rnd, maxlen):
    kind = rnd.choice(KINDS)
    n = rnd.randint(3, maxlen)
    pool, evs, invoked = [], [], []
    for i in range(n):
        if kind != 'default' and invoked and rnd.random() < 0.2:
            evs.append(['evict', rnd.choice(invoked) if rnd.random() < 0.85 else rnd.randrange(i)])
        else:
            s = _rand_sig(rnd, pool)
            pool.append(s)
            invoked.append(i)
            evs.append(call(*s))
    c = mk(kind, evs, prefill=rnd.random() < 0.2, form=rnd.choice(['direct', 'deco']),
           loop='fresh' if rnd.random() < 0.15 else 'one')
    if kind in ('default', 'dict', 'hmap') and not c['prefill'] and all(e[0] == 'call' for e in evs) \
            and rnd.random() < 0.3:
        c['ret'] = rnd.choice(list(PLAIN_RET))       # identity-less results
    return c


def gen_random(tier, seed):
    rnd = random.Random(seed * 7919 + 14)
    N = 1500 if tier == 'quick' else 30000
    return [_rand_case(rnd, 14) for _ in range(N)]


def gen_search(tier, seed):
    rnd = random.Random(seed * 7919 + 1414)
    return corpus() + gen_exhaustive('quick', seed)[:3000] + [_rand_case(rnd, 20) for _ in range(3000)]


def shrink_candidates(case):
    evs = case['events']
    out = []
    for p in range(len(evs)):
        new = []
        for i, e in enumerate(evs):
            if i == p:
                continue
            if e[0] == 'evict' and e[1] != PREFILL_TAG:
                if e[1] == p:
                    continue
                e = ['evict', e[1] - 1] if e[1] > p else e
            new.append(e)
        out.append(dict(case, events=new))
    for i, e in enumerate(evs):
        if e[0] == 'call':
            if e[1]:
                out.append(dict(case, events=evs[:i] + [['call', e[1][:-1], e[2]]] + evs[i + 1:]))
            if e[2]:
                out.append(dict(case, events=evs[:i] + [['call', e[1], e[2][:-1]]] + evs[i + 1:]))
    if case.get('prefill'):
        out.append(dict(case, prefill=False))
    if case.get('loop') == 'fresh':
        out.append(dict(case, loop='one'))
    return out


def distribution(cases, obs):
    d = dict(calls=0, evictions=0, hits=0, invocations=0, prefill=0, deco_form=0, fresh_loop=0,
             kw_calls=0, mixed_calls=0, identityless_results=0)
    for k in KINDS:
        d['kind_' + k] = 0
    for c, o in zip(cases, obs):
        d['kind_' + c['kind']] += 1
        d['prefill'] += bool(c.get('prefill'))
        d['identityless_results'] += bool(c.get('ret'))
        d['deco_form'] += c.get('form') == 'deco'
        d['fresh_loop'] += c.get('loop') == 'fresh'
        for e in c['events']:
            if e[0] == 'call':
                d['calls'] += 1
                d['kw_calls'] += bool(e[2])
                d['mixed_calls'] += bool(e[1] and e[2])
            else:
                d['evictions'] += 1
        if isinstance(o, list):
            for e, x in zip(c['events'], o):
                if e[0] == 'call':
                    d['hits'] += x[0] == 0
                    d['invocations'] += x[0]
    return d


def translate():
    return c14_translate.translate()


RULE = ('cases = sequences of sequential calls (explicit positional objects and keyword dicts in explicit insertion '
        'order, objects drawn from a table with their Python-equality classes, a fresh object per use) and harness '
        'evictions, run against threadsafe_async_cache (direct and decorator-with-options form; one loop or a fresh '
        'loop per call) with the default dict, a user dict, a non-dict MutableMapping and lru.LRU(1..3), optionally '
        'pre-populated; observed per event: invocations of the wrapped function, tag of the returned value (= the call '
        'that produced it), tags held by the user mapping.  exhaustive layer: all unordered pairs of signatures of a '
        'universe (positional 0..2(3), keyword dicts of 0..2 names in both insertion orders) + all pairs of insertion '
        'orders of 3 names; random layer: 3..14 events, up to 3 positional / 3 keyword arguments, mutated repeats '
        '(permuted keywords, equal-but-distinct objects, positional moved to keyword), evictions.  Round 2 additions: '
        'positional values shaped like keyword items (("x", 1) vs x=1) against the keyword calls; wrapped functions '
        'returning identity-less results (None, 0, "", False) on retaining stores, judged on invocation counts '
        '(Case_C14.C14N / mon_n).  non-trivial = at '
        'least two calls and at least one invocation (Case_C14.nontrivial)')
EXHAUSTIVE_NOTE = ('all unordered pairs of a signature universe (quick: 8 positional tuples x 25 keyword dicts = 200 '
                   'signatures; thorough: 26 x 25 = 650), all 36 pairs of insertion orders of three keyword names, and '
                   'keyword-only calls with four names in every insertion order against each other (thorough: all 24 x 24 '
                   'pairs; quick: the 24 orders against the first), each followed by the same dict with one value changed')
ASSUMPTIONS = ['tuple/frozenset/dict equality and hashing of the argument objects are modelled by equality classes '
               'sent by the harness (hash consistent with ==)',
               'lru.LRU(n) is a modelled primitive (move-to-front on hit, drop the least recently used beyond n)',
               'one caller at a time (the concurrent behaviour of the same cache is C01/C05/C06)']
TRUSTED = ['harness/props/C14.py (driver, value table with equality classes), coq/theories/Case_C14.v (agree/ok)',
           'harness/c14_translate.py (key expression and store selection from the AST, fail-closed; accepts only '
           'spellings that are structurally the whitelisted trees after normalising parentheses, an annotation on the '
           'assignment, is/is-not against None in either operand order or under not, dict() for {}; rejects any '
           're-binding of the cache parameter or of the store variable)',
           'modelled, not verified: tuple/frozenset ==/hash, dict, lru.LRU']
ALLOWED_AXIOMS = []
LEVEL_TEXT = ('The key expression and the store-selection statement are translated from the AST of the current source '
              '(gen/T_KeyExpr.v); props/C14.v proves for that expression: two keys are equal iff positional classes are '
              'equal pointwise and keyword pairs are equal as sets (key_eq_iff, kw_perm_invariant, '
              'positional_vs_keyword_distinct), and for the sequential cache over any mapping kind and any history of '
              'calls and evictions: a call invokes iff its key is absent, stores and returns the stored value '
              '(seq_call_spec), a returned value was always computed for an equal signature (distinct_never_share), '
              'with a retaining mapping equal signatures always share (same_args_share), an eviction causes exactly one '
              'recomputation (evict_one_recompute), and a caller-supplied mapping is the only store '
              '(only_store_is_user_mapping).  Tied to /repo by running the real decorator on every generated history and '
              'comparing every observation with the model inside Coq; the monitor decides the property on the observed '
              'trace from the property text alone, and what its verdict means is itself proved: it accepts every trace '
              'of the model (monitor_accepts_model, monitor_n_accepts_model), and for ARBITRARY event and observation '
              'lists it accepts if and only if a model-free statement holds (monitor_sound + monitor_sound_converse; '
              'monitor_n_sound + monitor_n_sound_converse): every call invoked the function once and got its own value, '
              'or invoked nothing and got a value computed by an earlier call with the same arguments (positional equal in '
              'order, keyword pairs equal as sets) and never one computed for other arguments; it is served from the cache '
              'iff the caller-supplied mapping held such a value (own dict: iff an earlier call had the same arguments); a '
              'served call leaves the mapping unchanged, a computing call adds exactly its own value (LRU(n): min(n, old+1) '
              'values, the new one among them), nothing foreign appears, an eviction removes exactly the evicted value; '
              'and from that statement alone: after the eviction of a held value the next call with those arguments '
              'computes exactly once and an immediately repeated call is served that value (monitor_sound_evict).  '
              '16 theorems, all closed under the global context.')
LEVEL_NOTE = ('trusted: Coq kernel + vm_compute; no axioms; equality classes supplied by the harness; tuple/frozenset/'
              'dict/lru.LRU are modelled primitives validated only by the correspondence runs; translator (fail-closed '
              'whitelist with a built-in self-test of 48 accepted/rejected spellings); driver.  Out of scope: argument '
              'objects whose __eq__ is asymmetric/non-transitive or whose hash is inconsistent with == (no equality '
              'classes exist for them); monitor_sound_evict and monitor_accepts_model exclude histories of more than 99 '
              'events against a pre-populated mapping (tag 99 is the foreign entry; the driver caps histories at 89)')
TECHNIQUE = ('Coq proof over the translated key expression + induction over call/eviction histories; trace monitor proved '
             'complete for the model and equivalent to a model-free statement (induction over the trace with the '
             "monitor's accumulators characterised from the observations); differential correspondence evaluated by "
             'vm_compute')
