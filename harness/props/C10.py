"""C10 — AsyncBackgroundBatcher: size and concurrency limits, FIFO order, batch
timeout.  Thin module over harness/batcher_drv.py + batcher_gen.py."""
from __future__ import annotations

import random

from .. import batcher_drv as D
from .. import batcher_gen as G

PROP = 'C10'
READY = True
PROPS_MODULE = 'C10'
MODEL_TARGETS = ['theories/Case_C10.vo']
HEADER = ('From Coq Require Import List NArith. Import ListNotations.\n'
          'Require Import Aiuti.Batcher Aiuti.Case_Batcher Aiuti.Case_C10.')
CASE_TYPE = 'Case_Batcher.case'
VERDICT = 'Case_C10.verdict'
PARALLEL = 16
CHUNK = 300
RULE = ('case = (configuration in ticks; event list Call/Burst/Advance/BFinish/BRaise/BYield/SetMax) run against the real '
        'AsyncBackgroundBatcher under the virtual-time loop; batch durations are scripted (the harness-owned batch function '
        'parks until BFinish).  Exhaustive layer: every event list up to depth D with <= 5 calls over {call with a fresh key, '
        'burst of 2, advance batch_timeout-1, advance batch_timeout+1, finish the oldest / the newest live batch, one SetMax} '
        'for max_batch_size 1..3 x max_concurrent_batches 1..2; random layer: up to 12 calls (mostly distinct keys, some '
        'repeated), gaps on a grid around batch_timeout and every armed deadline, sizes 1..5 with SetMax 1..5, concurrency '
        '1..3, durations from 0 to several batch_timeouts.  non-trivial = at least two batches or a batch of >= 2 items '
        '(Case_C10.nontrivial, inside Coq); distinct = distinct (case, trace) pairs'
        ' The random layer also contains Chain events (a task calling again in the continuation of its answer).')
EXHAUSTIVE_NOTE = ('all event lists of length <= D (D=5 quick, 6 thorough) with <= 5 calls over the alphabet in the rule, '
                   'for max_batch_size 1..3 x max_concurrent_batches 1..2')
ASSUMPTIONS = D.ASSUMPTIONS
TRUSTED = D.TRUSTED
ALLOWED_AXIOMS = []
LEVEL_NOTE = ('trusted: Coq kernel + vm_compute; asyncio primitives (Queue, wait_for, FIFO Semaphore, shield, Future '
    'done-callbacks, call_later, task wake-up order) are modelled in Batcher.v and validated only by the '
    'correspondence runs; harness/vloop.py, harness/batcher_drv.py, coq/theories/Case_Batcher.v (agree + monitors).  '
    'The state-free conjuncts of the monitors (ok_basic) are proved complete and sound; the full monitors ok_C04 / '
    'ok_C10 / ok_C11 are proved complete on ALL event lists, Chain events included (monitor_complete; ok_C04 / '
    'ok_C10 for batch_timeout > 0), and partially sound model-free (monitor_sound_*)')
TECHNIQUE = D.TECHNIQUE

run_impl = D.run_impl
error_obs = D.error_obs
to_coq = D.to_coq
explain_exprs = D.explain_exprs
shrink_candidates = D.shrink_candidates
distribution = D.distribution

W = dict(call=34, chain=4, burst=10, adv=24, fin=14, setmax=6, **{'yield': 6}, **{'raise': 3}, junk=3)


def corpus():
    out = []
    base = dict(mbs=2, conc=5, bt=51, rt=0, deco=False)
    # DESIGN appendix: calls at 0 and 10 -> batch [1,2] starts at 10; [3] at 20 + 51
    out.append(G.mk(base, [['call', 1, None], ['adv', 10], ['call', 2, None], ['adv', 10], ['call', 3, None],
                           ['adv', 50], ['adv', 1], ['fin', 0], ['fin', 1]]))
    c = dict(mbs=3, conc=1, bt=10, rt=0, deco=False)
    # deadline re-armed per arrival: 0, 9, 18 share a batch; 29 does not
    out.append(G.mk(c, [['call', 1, None], ['adv', 9], ['call', 2, None], ['adv', 9], ['call', 3, None],
                        ['adv', 11], ['call', 4, None], ['adv', 9], ['fin', 0], ['adv', 1], ['fin', 1]]))
    # concurrency 1: three full batches queue on the semaphore and start in order
    out.append(G.mk(dict(c, mbs=1), [['burst', [[1, None], [2, None], [3, None]]], ['adv', 30], ['fin', 0],
                                     ['adv', 5], ['fin', 1], ['fin', 2]]))
    # max_batch_size lowered while a batch is being collected: the open batch exceeds the new limit
    out.append(G.mk(c, [['call', 1, None], ['call', 2, None], ['setmax', 1], ['call', 3, None], ['call', 4, None],
                        ['adv', 3], ['fin', 0], ['fin', 1]]))
    # raised while collecting
    out.append(G.mk(dict(c, mbs=2, conc=2), [['call', 1, None], ['setmax', 4], ['call', 2, None], ['call', 3, None],
                                             ['adv', 10], ['fin', 0]]))
    # burst larger than two batches, with a slot hand-over
    out.append(G.mk(dict(c, mbs=2, conc=2), [['burst', [[i, None] for i in range(7)]], ['adv', 9], ['fin', 1],
                                             ['adv', 1], ['fin', 0], ['fin', 2], ['fin', 3]]))
    return out


def _alphabet(bt):
    def alpha(m, evs):
        n = D.n_calls(evs)
        out = [['call', 10 + n, None]]
        out.append(['burst', [[10 + n, None], [11 + n, None]]])
        nadv = 0
        for e in reversed(evs):
            if e[0] != 'adv':
                break
            nadv += 1
        if nadv < 2:
            out += [['adv', bt - 1], ['adv', bt + 1]]
        live = m.live()
        if live:
            out.append(['fin', live[0]])
            if len(live) > 1:
                out.append(['fin', live[-1]])
        if not any(e[0] == 'setmax' for e in evs) and evs:
            out.append(['setmax', 1 if m.maxb > 1 else 3])
        return out
    return alpha


def gen_exhaustive(tier, seed):
    depth = 5 if tier == 'quick' else 6
    out = []
    bt = 6
    for mbs in (1, 2, 3):
        for conc in (1, 2):
            cfg = dict(mbs=mbs, conc=conc, bt=bt, rt=0, deco=False)
            out += G.enum_programs(cfg, _alphabet(bt), depth, 5)
    return out


def gen_random(tier, seed):
    rnd = random.Random(seed * 7919 + 10)
    N = 2500 if tier == 'quick' else 60000
    out = []
    for _ in range(N):
        cfg = G.rand_cfg(rnd, rts=(0, 0, 0, 7), setmax=rnd.random() < 0.6)
        w = dict(W)
        if cfg['deco']:
            w['setmax'] = 0
        m, evs = G.rand_program(rnd, cfg, rnd.randint(6, 34), w, max_calls=12,
                                distinct_keys=rnd.random() < 0.75)
        style = rnd.random()
        if style < 0.5:
            evs = G.finish_all(m, evs, rnd, 'fin')
        elif style < 0.8:
            evs = evs + D.drain(evs, cfg['bt'])
        out.append(G.mk(cfg, evs))
    return out


def gen_search(tier, seed):
    rnd = random.Random(seed * 104729 + 1010)
    out = []
    for _ in range(4000):
        cfg = G.rand_cfg(rnd, rts=(0,), deco_p=0.0, setmax=True)
        m, evs = G.rand_program(rnd, cfg, rnd.randint(8, 40), W, max_calls=14, distinct_keys=True)
        out.append(G.mk(cfg, G.finish_all(m, evs, rnd, 'fin')))
    return out


LEVEL_TEXT = ('On the macro-step model of AsyncBackgroundBatcher (coq/theories/Batcher.v) props/C10.v proves for ALL event '
    'lists (incl. SetMax, Cancel, chained calls) and configurations with max_batch_size, max_concurrent_batches >= 1: '
    'size_bound / size_bound_const — every batch handed to the batch function is non-empty and no larger than the '
    'largest max_batch_size in force while it was collected (<= max_batch_size without SetMax); conc_bound — at most '
    'max_concurrent_batches batches run, and a spawned batch waits only while all slots are taken; fifo — the '
    'concatenated BatchStarts, queued batches and open batch are exactly the item-creating calls in arrival order; '
    'share_until_full — a call joins the open batch, which is handed over the moment it reaches the limit; '
    "dispatch_deadline — the open batch's deadline is last arrival + batch_timeout and never passes, every batch is "
    'spawned at its last arrival if that filled it and exactly batch_timeout later otherwise, spawn order = start '
    'order = batch ids, no start before the spawn; split_only_when_full_or_timed_out — every item of a later batch '
    '(and of the open batch) arrived at or after the spawn instant of each earlier batch, so calls less than '
    'batch_timeout apart share a batch until it is full; start_at_spawn_or_release — a batch starts in the step it '
    'was spawned or in the step that ends another batch; clock_exact — advance never runs out of fuel and the model '
    'clock is the sum of the Advance events.  Tied to /repo by differential correspondence under the virtual-time '
    'loop; the monitor ok_C10 judges the observed trace independently of the model (monitor_basic_complete / '
    'monitor_basic_sound: the state-free conjuncts — no TaskDied, completion clock, no double completion, non-empty '
    'duplicate-free batches not in the future — accept every model trace for all event lists and imply these facts; '
    'monitor_sound_partial for the full monitor). monitor_complete: the FULL monitor ok_C10 (FIFO, size, '
    'split, within, deadline / start instant, concurrency, clock, end rule) accepts every model trace for all '
    'configurations with batch_timeout > 0 and ALL event lists, Chain events included (Case_Batcher_Full.v, on the '
    'two-phase simulation plus the invariant WB of BatcherWithin.v; monitor_complete_nochain is the earlier '
    'Chain-free version, Case_Batcher_C10.v); monitor_sound_starts_partial: '
    'model-free soundness — every observed BatchStart of an accepted trace is exactly the first n requests of the '
    'expected queue with the size / split / within / deadline / concurrency / clock facts as Props.')
