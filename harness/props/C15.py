"""C15 — decorator-with-options forms configure exactly like the direct forms;
per-loop batchers of async_background_batcher.  Driver + generators.

Case kinds (field 'k'):
  cache    C14-style event list, one user mapping, run under forms direct / deco
  buffer   {'timeout': ticks | None, 'script': [['sub', a] | ['adv', ticks]]}
  batcher  {'cfg': {option: value | absent}, 'script': [['call', key] | ['fin', b] | ['adv', ticks]]}
  loops    {'cfg', 'form', 'par', 'plan': [['seg', loop, script] | ['close', loop]]}
  formsbuf / formsbat   degenerate option values (0): the three forms are compared with each other only
  cache2 / buffer2 / batcher2   ONE options-form decorator object applied to TWO functions vs. two direct
           wrappings (buffer2: [['sub', j, a] | ['adv', t]]; batcher2: [['call', j, k] | ['fin', j, b] | ['adv', t]])
buffer / batcher cases are run under direct, deco and ctor (the class itself).
Option values are integer ticks / counts; None or absent = default."""
from __future__ import annotations

import itertools
import random

from .. import common as C
from .. import c15_drive as D
from .. import c15_translate
from . import C14 as K14

PROP = 'C15'
READY = True
PROPS_MODULE = 'C15'
MODEL_TARGETS = ['theories/Case_C15.vo']
HEADER = ('From Coq Require Import List NArith. Import ListNotations.\n'
          'Require Import Aiuti.Keys Aiuti.Case_C14 Aiuti.Options Aiuti.Case_C15 AiutiGen.T_KeyExpr.')
CASE_TYPE = 'Case_C15.case'
VERDICT = 'Case_C15.verdict'
CLEAN_FOR_THOROUGH = ['theories/OptionsInv.vo', 'theories/OptionsMon.vo', 'theories/OptionsRefInv.vo',
                      'theories/OptionsRefBat.vo', 'theories/OptionsRefRet.vo']  # proofs only
PARALLEL = 16
CHUNK = 300

OPTS = D.OPTS


def run_impl(case):
    k = case['k']
    if k == 'cache':
        return dict(direct=K14.run_impl(dict(case, form='direct')),
                    deco=K14.run_impl(dict(case, form='deco')))
    if k == 'cache2':
        return {f: run_cache2(case, f) for f in ('direct', 'deco')}
    if k == 'buffer2':
        return {f: D.run_buffer2(case['timeout'], case['script'], f) for f in ('direct', 'deco')}
    if k == 'batcher2':
        return {f: D.run_batcher2(case['cfg'], case['script'], f) for f in ('direct', 'deco')}
    if k in ('buffer', 'formsbuf'):
        return {f: D.run_buffer(case['timeout'], case['script'], f) for f in ('direct', 'deco', 'ctor')}
    if k in ('batcher', 'formsbat'):
        out, cross = {}, 0
        for f in ('direct', 'deco', 'ctor'):
            o = D.run_batcher(case['cfg'], case['script'], f)
            cross += o.pop('cross')
            out[f] = o
        out['cross'] = cross
        return out
    if k == 'loops':
        fn = D.run_loops_par if case.get('par') else D.run_loops
        o = fn(case['cfg'], case['plan'], case.get('form', 'deco'))
        # reference for "independent": each loop's own part of the plan, alone, against the class itself
        solo = []
        for l in sorted({st[1] for st in case['plan']}):
            so = D.run_loops(case['cfg'], [st for st in case['plan'] if st[1] == l], 'ctor')
            solo += [x for x in so['loops'] if x[0] == l]
        o['solo'] = solo
        return o
    raise ValueError(k)


def run_cache2(case, form):
    """ONE options-form decorator object (no explicit mapping) applied to two functions vs. two
    direct wrappings.  case['order'] interleaves the two functions' event lists (ev0 / ev1).
    Returns [obs of function 0, obs of function 1], each in the format of K14.run_impl."""
    import asyncio
    import logging
    logging.disable(logging.CRITICAL)
    from aiuti.asyncio import threadsafe_async_cache
    cur, ninv = [0, 0], [0, 0]

    def mkfn(j):
        async def f(*args, **kwargs):
            ninv[j] += 1
            await asyncio.sleep(0)
            return K14.Res(cur[j])
        return f
    fns = [mkfn(0), mkfn(1)]
    if form == 'direct':
        ws = [threadsafe_async_cache(fns[0]), threadsafe_async_cache(fns[1])]
    else:
        deco = threadsafe_async_cache()
        ws = [deco(fns[0]), deco(fns[1])]
    evs = [case['ev0'], case['ev1']]
    pos = [0, 0]
    obs = [[], []]
    loop = asyncio.new_event_loop()
    try:
        for j in case['order']:
            if pos[j] >= len(evs[j]):
                continue
            ev = evs[j][pos[j]]
            cur[j] = pos[j]
            pos[j] += 1
            ninv[j] = 0
            args = [K14.VALUES[v][0]() for v in ev[1]]
            kwargs = {K14.NAMES[n]: K14.VALUES[v][0]() for n, v in ev[2]}
            try:
                tag = K14._tag(loop.run_until_complete(ws[j](*args, **kwargs)))
            except Exception:
                tag = K14.ERR_TAG
            obs[j].append([ninv[j], tag, []])
    finally:
        loop.close()
    return obs


def error_obs(case, o):
    k = case['k']
    if k == 'cache2':
        e = [[[9, K14.ERR_TAG, [K14.FOREIGN_TAG]] for _ in case['ev0']],
             [[9, K14.ERR_TAG, [K14.FOREIGN_TAG]] for _ in case['ev1']]]
        return dict(direct=e, deco=e)
    if k == 'cache':
        e = K14.error_obs(case, o)
        return dict(direct=e, deco=e)
    if k in ('buffer', 'formsbuf'):
        return dict(direct=[[0, [D.EXC]]], deco=[], ctor=[])
    if k == 'buffer2':
        return dict(direct=[[[0, [D.EXC]]], []], deco=[[], []])
    bad = dict(starts=[], dones=[[0, D.EXC]])
    if k == 'batcher2':
        return dict(direct=[bad, bad], deco=[dict(starts=[], dones=[]), bad])
    if k in ('batcher', 'formsbat'):
        return dict(direct=bad, deco=dict(starts=[], dones=[]), ctor=bad, cross=1)
    return dict(loops=[[0, bad]], solo=[], cross=1)


# ---- Coq literals -----------------------------------------------------------

def _nats(l):
    return C.coq_list([C.coq_nat(x) for x in l])


def _N5(ticks):
    return C.coq_N(5 * ticks)


def _ocfg(cfg):
    def o(name, f):
        v = cfg.get(name)
        return 'None' if v is None else f'(Some {f(v)})'
    return (f"(mkocfg {o('max_batch_size', C.coq_nat)} {o('max_concurrent_batches', C.coq_nat)} "
            f"{o('batch_timeout', _N5)} {o('retention_timeout', _N5)})")


def _bscript(sc):
    out = []
    for e in sc:
        if e[0] == 'call':
            out.append(f'BCall {C.coq_nat(e[1])}')
        elif e[0] == 'fin':
            out.append(f'BFin {C.coq_nat(e[1])}')
        else:
            out.append(f'Adv {_N5(e[1])}')
    return C.coq_list(out)


def _btrace(o):
    st = C.coq_list([f'({C.coq_N(t)}, {_nats(ks)})' for t, ks in o['starts']])
    dn = C.coq_list(['None' if d is None else f'(Some ({C.coq_N(d[0])}, {C.coq_nat(d[1])}))' for d in o['dones']])
    return f'({st}, {dn})'


def _flushes(fl):
    return C.coq_list([f'({C.coq_N(t)}, {_nats(a)})' for t, a in fl])


def _timeout(case):
    return 'None' if case['timeout'] is None else f"(Some {_N5(case['timeout'])})"


def _bufscript2(sc):
    return C.coq_list([f'Sub2 {C.coq_nat(e[1])} {C.coq_nat(e[2])}' if e[0] == 'sub' else f'BAdv2 {_N5(e[1])}'
                       for e in sc])


def _bscript2(sc):
    out = []
    for e in sc:
        if e[0] == 'call':
            out.append(f'BCall2 {C.coq_nat(e[1])} {C.coq_nat(e[2])}')
        elif e[0] == 'fin':
            out.append(f'BFin2 {C.coq_nat(e[1])} {C.coq_nat(e[2])}')
        else:
            out.append(f'Adv2 {_N5(e[1])}')
    return C.coq_list(out)


def _plan(plan):
    return C.coq_list([f'LSeg {s[1]} {_bscript(s[2])}' if s[0] == 'seg' else f'LClose {s[1]}' for s in plan])


def to_coq(case, o):
    k = case['k']
    if k == 'cache':
        f = lambda ob: C.coq_list([f'({a}, {r}, {_nats(c)})' for a, r, c in ob])
        return (f"CCache {K14._kind(case)} {C.coq_bool(case.get('prefill', False))} {K14._evs(case)} "
                f"{f(o['direct'])} {f(o['deco'])}")
    if k == 'cache2':
        f = lambda ob: C.coq_list([f'({a}, {r}, {_nats(c)})' for a, r, c in ob])
        e0, e1 = K14._evs(dict(events=case['ev0'])), K14._evs(dict(events=case['ev1']))
        return (f"CCache2 {e0} {e1} {f(o['direct'][0])} {f(o['deco'][0])} "
                f"{f(o['direct'][1])} {f(o['deco'][1])}")
    if k == 'formsbuf':
        return f"CFormsBuf {_flushes(o['direct'])} {_flushes(o['deco'])} {_flushes(o['ctor'])}"
    if k == 'formsbat':
        return (f"CFormsBat {_btrace(o['direct'])} {_btrace(o['deco'])} {_btrace(o['ctor'])} "
                f"{C.coq_nat(min(o['cross'], 9))}")
    if k == 'buffer2':
        return (f"CBuffer2 {_timeout(case)} {_bufscript2(case['script'])} {_flushes(o['direct'][0])} "
                f"{_flushes(o['deco'][0])} {_flushes(o['direct'][1])} {_flushes(o['deco'][1])}")
    if k == 'batcher2':
        return (f"CBatcher2 {_ocfg(case['cfg'])} {_bscript2(case['script'])} {_btrace(o['direct'][0])} "
                f"{_btrace(o['deco'][0])} {_btrace(o['direct'][1])} {_btrace(o['deco'][1])}")
    if k == 'buffer':
        t = 'None' if case['timeout'] is None else f"(Some {_N5(case['timeout'])})"
        sc = C.coq_list([f'Sub {C.coq_nat(e[1])}' if e[0] == 'sub' else f'BAdv {_N5(e[1])}' for e in case['script']])
        return f"CBuffer {t} {sc} {_flushes(o['direct'])} {_flushes(o['deco'])} {_flushes(o['ctor'])}"
    if k == 'batcher':
        return (f"CBatcher {_ocfg(case['cfg'])} {_bscript(case['script'])} {_btrace(o['direct'])} "
                f"{_btrace(o['deco'])} {_btrace(o['ctor'])} {C.coq_nat(min(o['cross'], 9))}")
    obs = C.coq_list([f'({l}, {_btrace(t)})' for l, t in o['loops']])
    solo = C.coq_list([f'({l}, {_btrace(t)})' for l, t in o.get('solo', [])])
    return f"CLoops {_ocfg(case['cfg'])} {_plan(case['plan'])} {obs} {solo} {C.coq_nat(min(o['cross'], 9))}"


def explain_exprs(case, o):
    k = case['k']
    if k == 'cache2':
        return (K14.explain_exprs(dict(kind='default', events=case['ev0']), o['deco'][0]) +
                K14.explain_exprs(dict(kind='default', events=case['ev1']), o['deco'][1]))
    if k == 'cache':
        return K14.explain_exprs(case, o['deco'])
    if k in ('formsbuf', 'formsbat'):
        return []
    if k == 'buffer2':
        return [f"buf_trace {_timeout(case)} (bproj {j} {_bufscript2(case['script'])})" for j in (0, 1)]
    if k == 'batcher2':
        return [f"trace_of (brun (resolve {_ocfg(case['cfg'])}) (cproj {j} {_bscript2(case['script'])}))" for j in (0, 1)]
    if k == 'buffer':
        t = 'None' if case['timeout'] is None else f"(Some {_N5(case['timeout'])})"
        sc = C.coq_list([f'Sub {C.coq_nat(e[1])}' if e[0] == 'sub' else f'BAdv {_N5(e[1])}' for e in case['script']])
        return [f'buf_trace {t} {sc}']
    if k == 'batcher':
        return [f"trace_of (brun (resolve {_ocfg(case['cfg'])}) {_bscript(case['script'])})"]
    return [f"let r := loops_model {_ocfg(case['cfg'])} {_plan(case['plan'])} in "
            f"(map (fun p => (fst p, trace_of (snd p))) (live r), map (fun p => (fst p, trace_of (snd p))) (archive r))"]


# ---- generators ---------------------------------------------------------------

def cache_case(kind, events, **kw):
    c = K14.mk(kind, events, **kw)
    c['k'] = 'cache'
    return c


def cache2_case(ev0, ev1, order=None):
    """one options-form decorator object applied to two functions (see run_cache2)"""
    if order is None:
        order = [i % 2 for i in range(2 * max(len(ev0), len(ev1)))]
    return dict(k='cache2', ev0=[list(e) for e in ev0], ev1=[list(e) for e in ev1], order=list(order))


def buffer_case(timeout, script):
    return dict(k='buffer', timeout=timeout, script=[list(e) for e in script])


def batcher_case(cfg, script):
    return dict(k='batcher', cfg={o: cfg[o] for o in OPTS if cfg.get(o) is not None}, script=[list(e) for e in script])


def buffer2_case(timeout, script):
    """one buffer_until_timeout(timeout=...) decorator object applied to two functions"""
    return dict(k='buffer2', timeout=timeout, script=[list(e) for e in script])


def batcher2_case(cfg, script):
    """one async_background_batcher(**opts) decorator object applied to two batch functions"""
    return dict(k='batcher2', cfg={o: cfg[o] for o in OPTS if cfg.get(o) is not None}, script=[list(e) for e in script])


def formsbuf_case(timeout, script):
    """degenerate timeout (0): direct, decorator and class forms must coincide; no reference semantics"""
    return dict(k='formsbuf', timeout=timeout, script=[list(e) for e in script])


def formsbat_case(cfg, script):
    """degenerate option values (0): direct, decorator and class forms must coincide; no reference semantics"""
    return dict(k='formsbat', cfg={o: cfg[o] for o in OPTS if cfg.get(o) is not None}, script=[list(e) for e in script])


# option values that are falsy but not the default (retention_timeout = 0 IS the default), alone and with others
FORMS_CFGS = [dict(batch_timeout=0), dict(max_batch_size=0), dict(max_concurrent_batches=0),
              dict(batch_timeout=0, max_batch_size=2), dict(batch_timeout=0, retention_timeout=40),
              dict(batch_timeout=0, max_batch_size=0, max_concurrent_batches=1, retention_timeout=0),
              dict(max_concurrent_batches=0, batch_timeout=2), dict(max_batch_size=0, batch_timeout=10, retention_timeout=5)]


def loops_case(cfg, plan, form='deco', par=False):
    return dict(k='loops', cfg={o: cfg[o] for o in OPTS if cfg.get(o) is not None}, form=form, par=par,
                plan=[list(s) for s in plan])


c, f, a = (lambda k: ['call', k]), (lambda b: ['fin', b]), (lambda t: ['adv', t])

# probe scripts for the batcher; each is meant to separate at least one option from its default
BATCH_PROBES = [
    # four keys at once: batch sizes (max_batch_size), dispatch delay (batch_timeout)
    [c(1), c(2), c(3), c(4), a(100), f(0), f(1), f(2), f(3), a(100)],
    # arrivals 3 ticks apart then a pause: batch_timeout decides who travels together
    [c(1), a(3), c(2), a(3), c(3), a(100), f(0), f(1), f(2), a(10)],
    # arrivals far apart, nothing finished: max_concurrent_batches decides how many run
    [c(1), a(60), c(2), a(60), c(3), a(60), c(4), a(60), f(0), a(1), f(1), f(2), f(3), a(60)],
    # same key again 4 / 30 / 300 ticks after its batch finished: retention_timeout
    [c(1), a(60), f(0), a(4), c(1), a(26), c(1), a(60), f(1), a(300), c(1), a(60), f(1), f(2), a(60)],
    # same key while in flight (always shared), then two keys alternating
    [c(1), c(1), a(60), c(1), f(0), c(2), c(1), a(60), f(1), f(2), c(2), c(1), a(60), f(2), f(3)],
    # burst larger than small batch sizes, slow finishing: size, concurrency and order together
    [c(1), c(2), c(3), c(4), c(5), c(6), c(7), a(60), f(0), a(1), f(1), f(2), a(1), f(3), f(4), f(5), f(6), a(60)],
]
B_VALUES = dict(max_batch_size=[1, 2, 3], max_concurrent_batches=[1, 2], batch_timeout=[2, 10],
                retention_timeout=[5, 40])

BUF_PROBES = [
    [['sub', 0], a(2000)],
    [['sub', 0], ['sub', 1], a(2), ['sub', 2], a(2000)],
    [['sub', 0], a(2), ['sub', 1], a(5), ['sub', 2], a(20), ['sub', 3], a(100), ['sub', 4], a(2000)],
    [['sub', 0], a(9), ['sub', 1], a(10), ['sub', 2], a(11), ['sub', 3], a(2000), ['sub', 4], a(1024), ['sub', 5], a(1025)],
    [['sub', 3], ['sub', 1], a(1), ['sub', 2], a(1), ['sub', 0], a(1), a(1), a(1), a(3000)],
]
T_VALUES = [1, 3, 10, 50, 200]


s2, c2, f2 = (lambda j, x: ['sub', j, x]), (lambda j, k: ['call', j, k]), (lambda j, b: ['fin', j, b])
# two functions, one decorator object: arguments / keys of the two functions overlap on purpose
BUF2_PROBES = [
    [s2(0, 0), s2(1, 1), a(2), s2(1, 2), a(4), s2(0, 3), a(2000)],
    [s2(0, 0), a(1), s2(1, 0), a(1), s2(0, 1), a(1), s2(1, 1), a(1), s2(0, 2), a(3000), s2(1, 2), a(3000)],
    [s2(1, 5), s2(1, 6), a(60), s2(0, 5), a(2000), s2(0, 6), s2(1, 7), a(2000)],
]
BAT2_PROBES = [
    [c2(0, 1), c2(1, 1), c2(0, 2), c2(1, 3), a(60), f2(0, 0), a(2), c2(1, 1), f2(1, 0), c2(0, 1), a(60), f2(0, 1),
     f2(1, 1), a(60)],
    [c2(0, 1), c2(0, 2), c2(0, 3), a(60), c2(1, 1), c2(1, 2), c2(1, 3), c2(1, 4), a(60), f2(1, 0), f2(0, 0), a(1),
     f2(0, 1), f2(1, 1), a(60), f2(0, 2), f2(1, 2), f2(1, 3), a(60)],
    [c2(1, 7), a(3), c2(0, 7), a(3), c2(1, 8), a(100), f2(1, 0), f2(0, 0), a(4), c2(0, 7), c2(1, 7), a(100), f2(0, 1),
     f2(1, 1), f2(1, 2), a(60)],
]
BAT2_CFGS = [{}, dict(max_batch_size=2), dict(max_batch_size=2, retention_timeout=40),
             dict(max_batch_size=1, max_concurrent_batches=1, batch_timeout=5, retention_timeout=5),
             dict(max_concurrent_batches=1, batch_timeout=2), dict(batch_timeout=10, retention_timeout=5)]


def _succ_plan(n, close, sc):
    plan = []
    for l in range(n):
        plan.append(['seg', l, sc])
        if close:
            plan.append(['close', l])
    return plan


LOOP_SCRIPT = [c(1), c(2), c(3), a(60), f(0), f(1), a(5), c(1), a(60), f(1), f(2), a(60)]


def corpus():
    k = K14.call
    out = [
        # cache: which mapping received the entries
        cache_case('lru3', [k([0]), k([0]), k([11]), k([11]), k([8]), k([8]), k([17]), k([17]), k([0])]),
        cache_case('dict', [k([0]), k([1]), k([], [[0, 0]]), k([0])]),
        cache_case('hmap', [k([0]), k([0]), ['evict', 0], k([0])]),
        cache_case('dict', [k([0]), k([3]), k([0])], prefill=True),
        cache_case('default', [k([0]), k([0]), k([3])]),
        cache_case('lru1', [k([0]), k([3]), k([0])], loop='fresh'),
        # one options-form decorator object reused for two functions: equal arguments must not share
        cache2_case([k([0]), k([0]), k([3])], [k([0]), k([3]), k([0])]),
        cache2_case([k([0]), k([1], [[0, 3]])], [k([1], [[0, 3]]), k([0]), k([0])], order=[0, 0, 1, 1, 1]),
        # ... the same for the buffer and the batcher: own buffer / own batcher registry per function
        buffer2_case(3, BUF2_PROBES[0]),
        batcher2_case(dict(max_batch_size=2, retention_timeout=40), BAT2_PROBES[0]),
        # falsy non-default option values must reach the object in every form (forms-only comparison)
        formsbat_case(dict(batch_timeout=0), [c(1), c(2), a(100), f(0), f(1), a(10)]),
        formsbuf_case(0, [['sub', 0], ['sub', 1], a(2), ['sub', 2], a(2000)]),
        # the doctests of the batcher in all forms
        batcher_case(dict(max_batch_size=2), [c(1), c(2), c(3), c(4), a(1), f(0), f(1), a(60)]),
        # F7 (fixed): retention_timeout given through the decorator-with-options form
        batcher_case(dict(retention_timeout=5), [c(1), a(60), f(0), a(3), c(1), a(3), c(1), a(60), f(1), a(60)]),
        batcher_case(dict(batch_timeout=2, retention_timeout=40), BATCH_PROBES[3]),
        batcher_case({}, BATCH_PROBES[0]),
        buffer_case(10, BUF_PROBES[2]),
        buffer_case(None, BUF_PROBES[3]),
        # one decorated function, a second loop after the first one closed
        loops_case(dict(max_batch_size=2), _succ_plan(2, True, LOOP_SCRIPT)),
        loops_case(dict(max_batch_size=2, retention_timeout=40), _succ_plan(3, False, LOOP_SCRIPT), form='direct'),
        # two loops at once, batches in flight on both
        loops_case(dict(max_batch_size=2, batch_timeout=5),
                   [['seg', 0, [c(1), c(2), c(3)]], ['seg', 1, [c(1), a(10)]], ['seg', 0, [f(0), a(10), f(1)]],
                    ['close', 0], ['seg', 2, [c(1), a(10), f(0)]], ['seg', 1, [f(0), c(1), a(3)]]]),
        loops_case(dict(max_batch_size=2), [['seg', 0, LOOP_SCRIPT], ['seg', 1, LOOP_SCRIPT], ['seg', 2, LOOP_SCRIPT]],
                   par=True),
        # successively AND concurrently: loop 0 used, closed and kept referenced; then two fresh loops make their
        # first call at the same time in two threads (the harness lines them up inside is_closed() of loop 0)
        loops_case(dict(max_batch_size=2), [['seg', 0, LOOP_SCRIPT], ['close', 0], ['seg', 1, LOOP_SCRIPT],
                                            ['seg', 2, LOOP_SCRIPT]], par=True),
    ]
    return out


def _all_cfgs():
    """Every option alone at each probe value, then every joint assignment."""
    cfgs = [{}]
    for o in OPTS:
        for v in B_VALUES[o]:
            cfgs.append({o: v})
    names = OPTS
    for combo in itertools.product(*[[None] + B_VALUES[o] for o in names]):
        cfg = {o: v for o, v in zip(names, combo) if v is not None}
        if len(cfg) >= 2:
            cfgs.append(cfg)
    return cfgs


def _interleavings(segs_a, segs_b):
    """All merges of two segment lists (order within each list preserved)."""
    if not segs_a:
        return [list(segs_b)]
    if not segs_b:
        return [list(segs_a)]
    return [[segs_a[0]] + r for r in _interleavings(segs_a[1:], segs_b)] + \
           [[segs_b[0]] + r for r in _interleavings(segs_a, segs_b[1:])]


def gen_exhaustive(tier, seed):
    out = []
    # batcher: every configuration x every probe
    cfgs = _all_cfgs()
    for cfg in cfgs:
        for p in BATCH_PROBES:
            out.append(batcher_case(cfg, p))
    # buffer: every timeout x every probe
    for t in [None] + T_VALUES:
        for p in BUF_PROBES:
            out.append(buffer_case(t, p))
    # cache: every mapping kind, pre-populated or not, a script with hits, misses, eviction
    k = K14.call
    scripts = [[k([0]), k([0]), k([3]), k([0], [[0, 3]]), k([3]), k([7]), k([0])],
               [k([5], [[1, 0]]), k([6], [[1, 1]]), ['evict', 0], k([5], [[1, 2]]), k([5], [[1, 0]])]]
    for kind in K14.KINDS:
        for pf in (False, True):
            for lp in ('one', 'fresh'):
                for sc in scripts:
                    if kind == 'default' and (pf or any(e[0] == 'evict' for e in sc)):
                        continue
                    out.append(cache_case(kind, sc, prefill=pf, loop=lp))
    # cache: one options-form decorator object applied to two functions, every interleaving of
    # two short call lists (same and different signatures)
    la = [k([0]), k([0]), k([3])]
    lb = [k([0]), k([3], [[0, 0]]), k([0])]
    for order in sorted(set(itertools.permutations([0, 0, 0, 1, 1, 1]))):
        out.append(cache2_case(la, lb, order=order))
    # degenerate option values: forms-only comparison
    for cfg in FORMS_CFGS:
        for p in BATCH_PROBES:
            out.append(formsbat_case(cfg, p))
    for p in BUF_PROBES:
        out.append(formsbuf_case(0, p))
    # buffer / batcher: one options-form decorator object applied to two functions
    for t in (None, 3, 50, 200):
        for p in BUF2_PROBES:
            out.append(buffer2_case(t, p))
    for cfg in BAT2_CFGS:
        for p in BAT2_PROBES:
            out.append(batcher2_case(cfg, p))
    # loops: 1..3 loops one after another, each closed before the next / left open
    lcfgs = [{}, dict(max_batch_size=2), dict(max_batch_size=2, retention_timeout=40),
             dict(max_batch_size=1, max_concurrent_batches=1, batch_timeout=5, retention_timeout=5)]
    for cfg in lcfgs:
        for form in ('deco', 'direct'):
            for n in (1, 2, 3):
                for close in (True, False):
                    out.append(loops_case(cfg, _succ_plan(n, close, LOOP_SCRIPT), form=form))
    # 2 loops at once: every interleaving of their segments (batches in flight across the switches)
    sa = [['seg', 0, [c(1), c(2), c(3)]], ['seg', 0, [a(60), f(0)]], ['seg', 0, [c(1), a(60), f(1), f(2)]]]
    sb = [['seg', 1, [c(1), c(4)]], ['seg', 1, [a(60), f(0), c(4)]], ['seg', 1, [a(60), f(1)]]]
    for cfg in lcfgs[1:3]:
        for m in _interleavings(sa, sb):
            out.append(loops_case(cfg, m))
            out.append(loops_case(cfg, m + [['close', 0], ['seg', 2, LOOP_SCRIPT], ['seg', 1, [c(1), a(60), f(2)]]]))
    # 3 loops at once, round robin; and real threads
    sc3 = [['seg', l, s] for s in ([c(1), c(2), c(3)], [a(60), f(0)], [c(1), a(60), f(1), f(2)]) for l in range(3)]
    for cfg in lcfgs:
        out.append(loops_case(cfg, sc3))
        for n in (2, 3):
            out.append(loops_case(cfg, [['seg', l, LOOP_SCRIPT] for l in range(n)], par=True))
            # one / two loops used and closed first (kept referenced), then n fresh loops at once
            for form in ('deco', 'direct'):
                out.append(loops_case(cfg, [['seg', 0, LOOP_SCRIPT], ['close', 0]] +
                                      [['seg', l, LOOP_SCRIPT] for l in range(1, n + 1)], form=form, par=True))
            out.append(loops_case(cfg, [['seg', 0, LOOP_SCRIPT], ['seg', 1, [c(1), a(60), f(0)]], ['close', 0], ['close', 1]] +
                                  [['seg', l, LOOP_SCRIPT] for l in range(2, n + 2)], par=True))
    return out


def _rand_bscript(rnd, n, nkeys=5):
    s = []
    for _ in range(n):
        r = rnd.random()
        if r < 0.45:
            s.append(c(rnd.randrange(1, nkeys + 1)))
        elif r < 0.65:
            s.append(f(rnd.randrange(4)))
        else:
            s.append(a(rnd.choice([1, 2, 3, 5, 10, 20, 60, 100])))
    return s


def _rand_cfg(rnd):
    cfg = {}
    for o, vals in (('max_batch_size', [1, 2, 3, 4]), ('max_concurrent_batches', [1, 2, 3]),
                    ('batch_timeout', [1, 2, 5, 10, 30, 70]), ('retention_timeout', [1, 3, 10, 40, 150])):
        if rnd.random() < 0.5:
            cfg[o] = rnd.choice(vals)
    return cfg


def _rand_case2(rnd):
    """two functions under one decorator object: a random merge of two random scripts"""
    if rnd.random() < 0.4:
        sc, n = [], [0, 0]
        for _ in range(rnd.randint(3, 12)):
            if rnd.random() < 0.55:
                j = rnd.randrange(2)
                sc.append(['sub', j, n[j]])
                n[j] += 1
            else:
                sc.append(a(rnd.choice([1, 2, 3, 7, 10, 50, 200, 1024])))
        sc.append(a(1100))
        return buffer2_case(rnd.choice([None, 1, 2, 3, 10, 50, 200]), sc)
    sc = []
    for e in _rand_bscript(rnd, rnd.randint(4, 18), nkeys=4):
        sc.append(e if e[0] == 'adv' else [e[0], rnd.randrange(2), e[1]])
    sc.append(a(300))
    if rnd.random() < 0.5:
        sc += [['fin', j, b] for b in range(3) for j in (0, 1)] + [a(100)]
    return batcher2_case(_rand_cfg(rnd), sc)


def _rand_forms(rnd):
    """random configuration with at least one option forced to 0"""
    if rnd.random() < 0.3:
        sc, n = [], 0
        for _ in range(rnd.randint(2, 10)):
            if rnd.random() < 0.5:
                sc.append(['sub', n])
                n += 1
            else:
                sc.append(a(rnd.choice([1, 2, 3, 7, 10, 50])))
        return formsbuf_case(0, sc + [a(1100)])
    cfg = _rand_cfg(rnd)
    for o in rnd.sample(OPTS[:3], rnd.randint(1, 2)):
        cfg[o] = 0
    return formsbat_case(cfg, _rand_bscript(rnd, rnd.randint(3, 14)) + [a(300)] + [f(b) for b in range(4)] + [a(100)])


def _rand_case(rnd):
    r = rnd.random()
    if r < 0.05:
        return _rand_forms(rnd)
    if r < 0.15:
        return _rand_case2(rnd)
    r = rnd.random()
    if r < 0.55:
        sc = _rand_bscript(rnd, rnd.randint(3, 16)) + [a(300)]
        if rnd.random() < 0.5:
            sc += [f(b) for b in range(4)] + [a(100)]
        return batcher_case(_rand_cfg(rnd), sc)
    if r < 0.75:
        sc, n = [], 0
        for _ in range(rnd.randint(2, 12)):
            if rnd.random() < 0.5:
                sc.append(['sub', n])
                n += 1
            else:
                sc.append(a(rnd.choice([1, 2, 3, 7, 10, 50, 200, 1024])))
        sc.append(a(1100))
        return buffer_case(rnd.choice([None, 1, 2, 3, 10, 50, 200]), sc)
    # loops: random interleaving of random segments on 2..3 loops, random closes and new loops
    nl = rnd.randint(2, 3)
    live, nxt, plan = list(range(nl)), nl, []
    for _ in range(rnd.randint(3, 8)):
        if rnd.random() < 0.15 and len(live) > 1:
            l = rnd.choice(live)
            live.remove(l)
            plan.append(['close', l])
            if rnd.random() < 0.7:
                live.append(nxt)
                nxt += 1
        else:
            plan.append(['seg', rnd.choice(live), _rand_bscript(rnd, rnd.randint(1, 6), nkeys=3)])
    for l in live:
        plan.append(['seg', l, [a(300), f(0), f(1), f(2), a(10)]])
    return loops_case(_rand_cfg(rnd), plan, form=rnd.choice(['deco', 'direct']))


def gen_random(tier, seed):
    rnd = random.Random(seed * 7919 + 15)
    N = 600 if tier == 'quick' else 12000
    return [_rand_case(rnd) for _ in range(N)]


def gen_search(tier, seed):
    rnd = random.Random(seed * 7919 + 1515)
    return corpus() + gen_exhaustive('quick', seed) + [_rand_case(rnd) for _ in range(1500)]


def shrink_candidates(case):
    k = case['k']
    out = []
    if k == 'cache2':
        for name in ('ev0', 'ev1'):
            for i in range(len(case[name])):
                out.append(dict(case, **{name: case[name][:i] + case[name][i + 1:]}))
        return out
    if k == 'cache':
        return [dict(x, k='cache') for x in K14.shrink_candidates(case)]
    if k in ('buffer', 'batcher', 'buffer2', 'batcher2', 'formsbuf', 'formsbat'):
        sc = case['script']
        for i in range(len(sc)):
            out.append(dict(case, script=sc[:i] + sc[i + 1:]))
        if k in ('batcher', 'batcher2', 'formsbat'):
            for o in list(case['cfg']):
                out.append(dict(case, cfg={p: v for p, v in case['cfg'].items() if p != o}))
        return out
    plan = case['plan']
    for i in range(len(plan)):
        out.append(dict(case, plan=plan[:i] + plan[i + 1:]))
    for i, s in enumerate(plan):
        if s[0] == 'seg' and len(s[2]) > 1:        # never leave an empty segment (the harness would create a
            for j in range(len(s[2])):             # loop the script never uses)
                out.append(dict(case, plan=plan[:i] + [['seg', s[1], s[2][:j] + s[2][j + 1:]]] + plan[i + 1:]))
    for o in list(case['cfg']):
        out.append(dict(case, cfg={p: v for p, v in case['cfg'].items() if p != o}))
    return out


def distribution(cases, obs):
    d = dict(cache=0, cache2=0, buffer=0, buffer2=0, batcher=0, batcher2=0, formsbuf=0, formsbat=0, loops=0, loops_threaded=0, loops_with_close=0,
             batches_started=0, callers_answered=0, flushes=0, joint_configs=0, default_configs=0)
    for o in OPTS:
        d['alone_' + o] = 0
        d['set_' + o] = 0
    for cs, ob in zip(cases, obs):
        d[cs['k']] += 1
        if cs['k'] in ('batcher', 'batcher2', 'formsbat', 'loops'):
            cfg = cs['cfg']
            for o in cfg:
                d['set_' + o] += 1
            if len(cfg) == 1:
                d['alone_' + list(cfg)[0]] += 1
            d['joint_configs'] += len(cfg) >= 2
            d['default_configs'] += not cfg
        if cs['k'] == 'loops':
            d['loops_threaded'] += bool(cs.get('par'))
            d['loops_with_close'] += any(s[0] == 'close' for s in cs['plan'])
        if not isinstance(ob, dict) or 'harness_error' in ob:
            continue
        if cs['k'] in ('batcher', 'formsbat'):
            d['batches_started'] += len(ob['deco']['starts'])
            d['callers_answered'] += sum(1 for x in ob['deco']['dones'] if x is not None)
        elif cs['k'] == 'loops':
            for l, t in ob['loops']:
                d['batches_started'] += len(t['starts'])
                d['callers_answered'] += sum(1 for x in t['dones'] if x is not None)
        elif cs['k'] in ('buffer', 'formsbuf'):
            d['flushes'] += len(ob['deco'])
        elif cs['k'] == 'buffer2':
            d['flushes'] += len(ob['deco'][0]) + len(ob['deco'][1])
        elif cs['k'] == 'batcher2':
            for t in ob['deco']:
                d['batches_started'] += len(t['starts'])
                d['callers_answered'] += sum(1 for x in t['dones'] if x is not None)
    return d


def translate():
    K14.translate()           # Case_C15 evaluates cache cases through Case_C14 (needs gen/T_KeyExpr.v)
    return c15_translate.translate()


RULE = ('cases = one scripted event list (virtual time, harness-owned batch / buffered / cached functions) run against '
        'the SAME options in the forms deco(func, opt=...), deco(opt=...)(func) and the class itself; the three traces '
        'must be equal (monitor) and equal to the reference semantics of coq/theories/Options.v for that configuration '
        '(agree); agree also evaluates, on every buffer / batcher / loops case, that this small reference semantics equals '
        'the FULL component model (Buffer.v / Batcher.v run on the translated script, OptionsRef.v).  exhaustive layer: '
        'batcher — every option alone at 2-3 non-default values, every joint assignment '
        '(4x3x3x3 = 108 configurations) x 6 probe scripts; buffer — 6 timeouts x 5 probes; cache — every mapping kind x '
        'prefill x loop mode x 2 scripts (which mapping received the entries); ONE options-form decorator object applied '
        'to two functions vs. two direct wrappings — cache: all 20 interleavings of two 3-call lists (stores must stay '
        'private), buffer_until_timeout(timeout=...): 4 timeouts x 3 interleaved scripts, async_background_batcher(...): 6 '
        'configurations x 3 interleaved scripts with overlapping keys (own buffer / own batcher registry per function); '
        'degenerate option values (0 for timeout / batch_timeout / max_batch_size / max_concurrent_batches, alone and mixed): '
        'forms-only cases, 8 configurations x 6 probes + timeout=0 x 5 probes, the three forms compared with each other only; '
        'a cyclic-GC pass is forced before every call that finds the batcher idle (a weakly held batcher would be rebuilt); '
        'per-loop registry — 1..3 loops one after '
        'another (closed before the next / left open), every interleaving of two loops\' three segments, 3 loops round '
        'robin, 2..3 loops in real threads at once, and 1..2 loops used + closed (kept referenced) followed by 2..3 fresh loops '
        'whose first calls are lined up in real threads (harness-owned is_closed() of the closed loops parks a worker thread '
        'until all workers have inspected it).  random layer: random configurations, scripts, two-function merges and loop plans.  '
        'non-trivial (Case_C15.nontrivial) = something was dispatched/flushed/invoked and, when an option is set, the '
        'reference trace for the configuration differs from the reference trace of the default configuration (the '
        'script separates "option honoured" from "option dropped"); loops: at least two loops ran batches; two-function '
        'cases: both functions were called / flushed')
EXHAUSTIVE_NOTE = ('all 108 batcher configurations over the probe values x 6 probe scripts; all 6 buffer timeouts x 5 probes; '
                   'all 20 interleavings of two loops\' three segments; successive 1..3 loops closed / left open; all 20 '
                   'interleavings of two 3-call lists under one cache decorator object')
ASSUMPTIONS = ['asyncio primitives (Queue, wait_for, Semaphore FIFO, call_later, shield) are modelled by the small reference '
               'semantics Options.bstep / buf_run on cancellation-free, failure-free scripts (tied to the full models '
               'Buffer.v / Batcher.v by refinement theorems — flushes of the buffer, batch starts of the batcher, all '
               'configurations and scripts; the per-caller answers of the batcher are compared by evaluation on every case)',
               'virtual time: every instant is a multiple of 1/5 tick (clock resolution of the C15 sims: 1/64 tick); ties between a library timer and a scripted event are '
               'resolved as harness/vloop.py does (timer first); batch_timeout = 0 is outside the modelled class (the '
               'timed q.get() then expires within the same loop iteration as the call)',
               'a closed loop is never used again (loop ids are not reused by the harness) — plan_wf; buffer scripts hand '
               'each argument to the buffer once — buf_wf (both are hypotheses of the completeness theorems)']
TRUSTED = ['harness/c15_translate.py (option lists from the AST, fail-closed), harness/c15_drive.py, harness/vloop.py, '
           'harness/props/C15.py, coq/theories/Case_C15.v (agree/ok; ok is proved sound and complete, props/C15.v)',
           'modelled, not verified: asyncio.Queue / wait_for / Semaphore / call_later, weakref.WeakKeyDictionary, functools.partial']
ALLOWED_AXIOMS = []
LEVEL_TEXT = ('gen/T_Options.v lists, from the AST of the current source, the keyword-only options of the three decorators, the '
              'pairs re-bound by functools.partial in the `func is None` branch and the pairs applied by the direct branch; '
              'options_forwarded (vm_compute over these finite generated lists) proves every accepted option is re-bound and '
              'applied under its own name, documented_options_accepted that the options the property names exist; '
              'per_loop_independent proves for the product construction loop -> object, generically in the single-object step '
              'function, that an event addressed to one loop changes no other component and that each component equals the '
              'single-object run of the events addressed to it (any number of loops, successive or interleaved).  '
              'The trace monitor is proved complete — monitor_complete_buffer / _batcher / _loops / _reuse: it accepts every '
              'case whose traces are the reference semantics, for ALL configurations and all well-formed scripts / plans — '
              'and sound — monitor_sound_buffer / _batcher / _loops / _reuse: an accepted case means equal traces in all forms, '
              '(monitor_forms_only: forms-only cases are accepted iff the three traces coincide), flushes exactly `timeout` after their last submission, batches of 1..max_batch_size submitted keys, answers '
              'from a batch containing the key, every loop equal to its solo run.  The small reference semantics is tied to '
              'the full component models: buffer_reference_refines_full_model (all timeouts, all scripts: Buffer.v on the '
              'translated script calls the function at the instants and with the sets of buf_run) and '
              'batcher_reference_refines_full_model (all configurations, all scripts: the batch starts of Batcher.v on the '
              'translated script are those of Options.brun; by simulation relations covering collection, semaphore hand-over, '
              'shared keys, retained results and their expiry timers, and Batcher.advance\'s fuelled deadline loop).  Tied to '
              '/repo by running every option, alone and jointly, in all three forms on identical virtual-time scripts and '
              'comparing with the reference semantics inside Coq, by applying one options-form decorator object to two '
              'functions, and by running one decorated batcher on 1..3 loops successively / interleaved / in parallel threads.')
LEVEL_NOTE = ('trusted: Coq kernel + vm_compute; no axioms; translator; virtual-time harness.  The reference semantics of buffer '
              'and batcher in Options.v are validated by the correspondence and compared with Buffer.v / Batcher.v on every '
              'case; the refinement is PROVED for the buffer (function calls) and for the batcher (batch starts); the batcher\'s '
              'per-caller answers are compared by evaluation only.  The components\' own '
              'properties are C03/C04/C07-C11.  Monitor fix found by proving completeness: the batch-size bound is '
              'max(1, max_batch_size) (max_batch_size = 0 hands over singletons).')
TECHNIQUE = ('AST translation + Coq proof by computation over the generated finite option tables; generic product-construction '
             'theorem; monitor completeness (invariant of the reference semantics) and soundness; refinement of the small '
             'reference semantics to the full Buffer/Batcher models by simulation relations + executable comparison on every '
             'case; differential correspondence of three forms under virtual time evaluated by vm_compute')
