"""C03 — buffered calls are never lost (aiuti/asyncio.py BufferAsyncCalls / buffer_until_timeout).
Thin module: driver, Coq literals, shrinking and generator building blocks are
shared with the other two buffer properties in harness/buffer_drv.py."""
from __future__ import annotations
import random

from .. import buffer_drv as B

PROP = 'C03'
READY = True
PROPS_MODULE = 'C03'
MODEL_TARGETS = ['theories/Case_C03.vo']
HEADER = B.HEADER + '\nRequire Import Aiuti.Case_C03.'
CASE_TYPE = 'Case_C03.case'
VERDICT = 'Case_C03.verdict'
PARALLEL = 16
CHUNK = 400
ALLOWED_AXIOMS = []

run_impl = B.run_case
to_coq = B.to_coq
error_obs = B.error_obs
explain_exprs = B.explain_exprs
shrink_candidates = B.shrink_candidates
distribution = B.distribution

ALPHA = 'SJagyfempKFW'        # plain, failing sync iterator, awaitable, async iterable, yields/fail/end,
                              # Advance T-1 / T+1, FnOk, FnFail, wait(cancel=True)


def corpus():
    W = ['SpFSmpFWpK',            # retry after failure keeps the arguments, twice
         'JpK', 'ZpK',            # prefix of a failing sync iterator is delivered / empty prefix
         'gyypfpK', 'gySyfpK',    # prefix of a failing async producer is delivered
         'SpSWwKK',               # submission while the function runs
         'apfSpK', 'aapyfpK',     # failing awaitable does not take others down
         'SpkupK', 'ScpuK', 'cSupK', 'SpKcWupK',   # foreign halves of _put
         'npK', 'cnpK', 'SpKnpK', 'SpKcnpK', 'SnpK', 'SpknpK', 'nnpK',   # ... from a foreign thread that runs its own event loop
         'EpSpK', 'gepSpK',       # empty producers: no call, later ones still delivered
         'DpKDpK']                # same value again after it was delivered: delivered again
    return ([c for c in (B.letters_case(T, w) for T in (8, 100) for w in W) if c]
            + [B.burst_case(1100, 'D')])      # 1100 plain submissions in ONE loop pass: all of them delivered


def gen_exhaustive(tier, seed):
    out = B.word_cases(ALPHA, 4 if tier == 'quick' else 5)
    out += B.foreign_cases(maxlen=3 if tier == 'quick' else 4, puts='un')
    # unusual argument VALUES (None, 0, False, 0.0, '', (), b'', frozenset()) in every producer kind
    out += B.value_cases(8) + (B.value_cases(100) if tier != 'quick' else [])
    out += [B.burst_case(n, 'D', T) for T in (8, 100) for n in (2, 65, 257)]
    if tier != 'quick':
        out.insert(min(len(out), 3000), B.burst_case(1500, 'D'))
    return out


PROFILE = dict(p_fail=0.35, p_foreign=0.03, p_wait=0.10, p_settle=0.8, max_subs=8, waits='WWwwBb', p_vals=0.15)


def gen_random(tier, seed):
    rnd = random.Random(seed * 7919 + 3)
    n = 4000 if tier == 'quick' else 80000
    return [B.rand_case(rnd, PROFILE) for _ in range(n)]


def gen_search(tier, seed):
    rnd = random.Random(seed * 104729 + 303)
    prof = dict(PROFILE, max=30, p_fail=0.5, advs='zhmmpptP', p_foreign=0.05)
    return [B.rand_case(rnd, prof) for _ in range(6000)] + B.word_cases(ALPHA, 5)[:20000]

RULE = ('cases = (timeout T, list of external events) run against the real aiuti.asyncio.BufferAsyncCalls under the virtual-time '
        'loop: Submit of the five producer kinds (plain call, map of a list, map of an iterator incl. failing part-way, await_, amap; '
        'awaitables / async iterables take their yields, failure — ordinary Exception or CancelledError raised by the producer, by id '
        'parity — and end from the script), Advance dt, wait(cancel=True/False), submit+wait in one task step, FnOk / FnFail (the '
        'harness-owned function parks until told, its set is copied at the start and re-read at the end; it is a bound method / a callable object without __qualname__ / a functools.partial, and FnFail makes it raise an Exception or its own asyncio.CancelledError, chosen per case by a checksum of the event list), Shutdown, and the foreign-thread '
        'halves of _put (FClear, FPut, FnOkThenFClear) performed by a real second thread going through the public API.  corpus: named '
        'scenarios (retry after failure, prefix of failing producers, submission under a running call, foreign halves, duplicates) x 2 '
        'timeouts; exhaustive layer: every word of <=4 (quick) / <=5 (thorough) letters over {plain, failing iterator, awaitable, async '
        'iterable, yield, fail, end, Advance T-1 / T+1, FnOk, FnFail, wait(cancel=True)} and one foreign submission split at every pair '
        'of quiescent points of every program of <=3 / <=4 letters; random layer: programs of 6..22 events, up to 8 submissions, about a '
        'third of the first six calls failing, 3 in 100 events foreign, in 15 of 100 programs up to three argument ids stand for unusual Python values.  Value layer (150 cases, x 2 timeouts in thorough): None and the falsy values 0, False, 0.0, \'\', (), b\'\', frozenset() at the beginning / in the middle / at the end of a real iterator (drained by to_async_iter\'s helper thread), of a list, as a plain argument, as an awaitable\'s result, as an async yield, through a foreign submission, before an iterator failure, twice, with waits, with a failed call in between, and several of them in one iterator (argument ids are mapped to the values on the way in and back in every observed set; the model sees ids).  Bursts of n plain calls in ONE loop pass (n = 2..513 exhaustive layer, one of ~1100 in the corpus, 1500 in thorough); async producers are async generators or class-based async iterators without aclose (by checksum of the event list).  Programs without Shutdown end with closers for every open producer + '
        '[FnOk; Advance T+1; FnOk].  non-trivial = at least one successful call and at least two submissions (Case_C03.nontrivial, '
        'decided inside Coq); distinct = distinct (case, trace) pairs among those')
EXHAUSTIVE_NOTE = ('all event words up to length 4 (quick) / 5 (thorough) over the 12-letter C03 alphabet at T=8; all placements of the '
                   'two halves of one foreign submission in all programs up to length 3 / 4')
ASSUMPTIONS = ['single event loop, cooperative: between two quiescent points nothing external happens except the scripted event (macro-step model, DESIGN §4); the one same-iteration reaction that matters for the barrier — submit immediately followed by wait() in the same task step, from the loop thread or from a foreign thread — is a scripted event of its own', 'time is virtual: integer ticks of 2^-10 s, a timer fires when now >= deadline', 'the sync-iterator helper thread of map() (to_async_iter, property C16) is collapsed to "immediately available"', 'foreign threads are represented by the two shared-state operations of _put (event.clear, call_soon_threadsafe) as separate events FClear / FPut at quiescent points, plus FnOkThenFClear for a clear landing between event.set() and the loop test; OS-thread fairness is not modelled']
TRUSTED = ['harness/buffer_drv.py + harness/vloop.py (virtual-time driver of the real BufferAsyncCalls; gated stand-ins for the public attributes `event` and `loop` park a real foreign thread before each of the two operations of _put) and coq/theories/Case_Buffer.v (agree, input tracker)', 'modelled, not verified: asyncio.Queue (put_nowait/get/get_nowait/task_done/join), asyncio.Event, wait_for, gather, Task.cancel/cancelling, call_soon_threadsafe FIFO, run_coroutine_threadsafe, async generators'] + ['coq/theories/Case_C03.v (monitor ok: only submitted arguments, failed set offered again, set not mutated under the call, '
           'settled => everything delivered, own-thread distinct arguments => one successful call each)']
LEVEL_TEXT = ('BufferAsyncCalls is modelled step for step as an executable macro-step machine (coq/theories/Buffer.v).  props/C03.v '
              'proves for ALL event lists (any producers and failure positions, any function outcomes, waits, shutdown, foreign halves): '
              'only_submitted (every element of every set passed to the function was handed over by an event of the history), '
              'no_loss_inv (every argument handed over is delivered in a successful call, or held in the round input set = the running '
              'call set, or pending in a producer the buffer holds — incl. the prefix of a failing producer), loaded_stays_held (kept and '
              'offered again), handed_is_event_offers; exactly_once_own_thread / exactly_once_distinct (without a foreign clear inside the '
              'set/test window no value is delivered more often than submitted; dup_foreign_example shows the legal foreign duplicate); '
              'no_loss_progress + settles_idle (from any reachable live state with no slow producer in the way, FnOk; Advance>=timeout; '
              'FnOk delivers everything handed over and leaves the buffer idle); foreign_at_least_once.  Tied to /repo by running the '
              'real class under a virtual-time loop on the enumerated / random event lists and comparing every observation with the model '
              'inside Coq (vm_compute); the monitor Case_C03.ok = ok_csets && ok_offered && ok_once && ok_walk re-decides the property on '
              'the implementation trace.  tracker_agrees_on_offers (the monitors\' input tracker agrees with the model after every '
              'event list); monitor_complete (the WHOLE monitor — call-set, only-submitted, exactly-once and the walk part with "failed set '
              'offered again" and "settled => delivered" — accepts the model trace of every event list: no false alarm where '
              'implementation and model agree); '
              'callset_monitor_sound and walk_monitor_sound (model-free: acceptance implies the readable statements on the '
              'observed trace and script).')
LEVEL_NOTE = ('trusted: Coq kernel + vm_compute; no axioms (Print Assumptions: closed under the global context); asyncio primitives are '
              'modelled and validated only by the correspondence runs; harness/buffer_drv.py, harness/vloop.py; Case_Buffer.v, Case_C03.v.  '
              '"Eventually" is the progress theorem over event-list continuations (the environment must let the function succeed and '
              'the producers end), not a fairness proof.')
TECHNIQUE = ('Coq proof (one generic walk through the helpers of the macro step, instantiated with the conservation invariant, the '
             'per-producer invariant and the counting invariant; induction over event lists) + differential correspondence under a '
             'virtual-time event loop evaluated by vm_compute')
