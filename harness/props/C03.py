"""C03 — buffered calls are never lost (aiuti/asyncio.py BufferAsyncCalls / buffer_until_timeout).
Thin module: driver, Coq literals, shrinking and generator building blocks are
shared with the other two buffer properties in harness/buffer_drv.py."""
from __future__ import annotations
import random

from .. import buffer_drv as B

PROP = 'C03'
READY = False
PROPS_MODULE = 'C03'
MODEL_TARGETS = ['theories/Case_C03.vo']
HEADER = B.HEADER + '\nRequire Import Aiuti.Case_C03.'
CASE_TYPE = 'Case_C03.case'
VERDICT = 'Case_C03.verdict'
PARALLEL = 16
CHUNK = 400
ALLOWED_AXIOMS = []

run_impl = B.run_case
to_coq = B.to_coq
error_obs = B.error_obs
explain_exprs = B.explain_exprs
shrink_candidates = B.shrink_candidates
distribution = B.distribution

ALPHA = 'SJagyfempKFW'        # plain, failing sync iterator, awaitable, async iterable, yields/fail/end,
                              # Advance T-1 / T+1, FnOk, FnFail, wait(cancel=True)


def corpus():
    W = ['SpFSmpFWpK',            # retry after failure keeps the arguments, twice
         'JpK', 'ZpK',            # prefix of a failing sync iterator is delivered / empty prefix
         'gyypfpK', 'gySyfpK',    # prefix of a failing async producer is delivered
         'SpSWwKK',               # submission while the function runs
         'apfSpK', 'aapyfpK',     # failing awaitable does not take others down
         'SpkupK', 'ScpuK', 'cSupK', 'SpKcWupK',   # foreign halves of _put
         'EpSpK', 'gepSpK',       # empty producers: no call, later ones still delivered
         'DpKDpK']                # same value again after it was delivered: delivered again
    return [c for c in (B.letters_case(T, w) for T in (8, 100) for w in W) if c]


def gen_exhaustive(tier, seed):
    out = B.word_cases(ALPHA, 4 if tier == 'quick' else 5)
    out += B.foreign_cases(maxlen=3 if tier == 'quick' else 4)
    return out


PROFILE = dict(p_fail=0.35, p_foreign=0.03, p_wait=0.10, p_settle=0.8, max_subs=8, waits='WWwwBb')


def gen_random(tier, seed):
    rnd = random.Random(seed * 7919 + 3)
    n = 4000 if tier == 'quick' else 80000
    return [B.rand_case(rnd, PROFILE) for _ in range(n)]


def gen_search(tier, seed):
    rnd = random.Random(seed * 104729 + 303)
    prof = dict(PROFILE, max=30, p_fail=0.5, advs='zhmmpptP', p_foreign=0.05)
    return [B.rand_case(rnd, prof) for _ in range(6000)] + B.word_cases(ALPHA, 5)[:20000]

RULE = ''
EXHAUSTIVE_NOTE = ''
ASSUMPTIONS = []
TRUSTED = []
LEVEL_TEXT = ''
LEVEL_NOTE = ''
TECHNIQUE = ''
