"""C18 — split / exhaust (aiuti/itertools.py).  Driver + generators."""
from __future__ import annotations
import itertools
import random

from .. import common as C

PROP = 'C18'
READY = True
PROPS_MODULE = 'C18'
MODEL_TARGETS = ['theories/Case_C18.vo']
HEADER = ('From Coq Require Import List. Import ListNotations.\n'
          'Require Import Aiuti.Iter Aiuti.Case_C18.')
CASE_TYPE = 'Case_C18.case'
VERDICT = 'Case_C18.verdict'
PARALLEL = 16
CHUNK = 500
RULE = ('cases = (source list, source kind, condition kind+stream, list of next() calls on the two '
        'iterators returned by split) run against aiuti.itertools.split with logging sources/conditions; '
        'exhaustive layer: every source length 0..L, every condition stream (callable results / iterable of '
        'length len-1..len+1), every interleaving of len+3 next() calls (observed after each call, so all '
        'prefixes are covered; sources and iterable conditions rotate over one-shot iterator / re-iterable object / real list subclass, so empty (falsy) lists occur; one-shot iterators with an under- and an over-estimating __length_hint__ for exhaust and split; callable conditions given as plain functions, functools.partial objects and callable objects that are ALSO iterable — split must call them); random layer: longer sources, non-bool truthy/falsy condition values, '
        'abandoning one side.  non-trivial = both sides are advanced, something is yielded and len>=2 '
        '(decided by Case_C18.nontrivial inside Coq); distinct = distinct (case, trace) pairs among those')
EXHAUSTIVE_NOTE = 'exhaustive layer enumerates all op interleavings for sources of length <= L (L=3 quick, 4 thorough)'
ASSUMPTIONS = ['itertools.tee / compress / map and collections.deque are modelled primitives (CPython semantics)',
               'the condition callable returns the same truthiness whichever iterator triggers its evaluation']
TRUSTED = ['harness/props/C18.py driver (logging iterators) and coq/theories/Case_C18.v (agree/ok)',
           'modelled, not verified: itertools.tee, itertools.compress, map, operator.not_, collections.deque']

VALS = [1, 0, 2, 1, 0, 2, 2, 1]          # element values; 0 is falsy
TRUTHY = [2, 'a', [0], True, 1.5]
FALSY = [0, '', [], None, False]


class Elem:
    """Element with identity (index) and a possibly duplicated / falsy value."""
    __slots__ = ('i', 'v')

    def __init__(self, i, v):
        self.i, self.v = i, v

    def __eq__(self, o):
        return isinstance(o, Elem) and o.v == self.v

    def __hash__(self):
        return hash(self.v)

    def __bool__(self):
        return bool(self.v)


class LogIter:
    def __init__(self, items, log, stops):
        self.items, self.log, self.stops, self.pos = items, log, stops, 0

    def __iter__(self):
        return self

    def __next__(self):
        if self.pos < len(self.items):
            self.log.append(self.pos)
            x = self.items[self.pos]
            self.pos += 1
            return x
        self.stops[0] += 1
        raise StopIteration


class LogIterable:
    """Re-iterable container (like a list/range): every iter() starts over and
    logs into the same log, so consuming the source twice is visible."""

    def __init__(self, items, log, stops):
        self.items, self.log, self.stops = items, log, stops

    def __iter__(self):
        return LogIter(self.items, self.log, self.stops)


class LogList(list):
    """A real list (sized, falsy when empty, like the lists/tuples/ranges users pass) whose
    iteration is logged like LogIterable's."""

    def __init__(self, items, log, stops):
        super().__init__(items)
        self._log, self._stops = log, stops

    def __iter__(self):
        return LogIter(list.copy(self), self._log, self._stops)


class HintUnder(LogIter):
    """one-shot iterator whose __length_hint__ UNDER-estimates (legal: PEP 424 hints are estimates)"""

    def __length_hint__(self):
        return max(0, (len(self.items) - self.pos) // 2)


class HintOver(LogIter):
    """one-shot iterator whose __length_hint__ OVER-estimates"""

    def __length_hint__(self):
        return len(self.items) - self.pos + 2


KINDS = {'iterator': LogIter, 'iterable': LogIterable, 'list': LogList, 'hint_under': HintUnder, 'hint_over': HintOver}
KIND_NAMES = ['iterator', 'iterable', 'list']          # rotation of the exhaustive split layer
HINT_KINDS = ['hint_under', 'hint_over']


def truth_obj(b, k, fancy):
    if not fancy:
        return bool(b)
    return (TRUTHY if b else FALSY)[k % 5]


def run_impl(case):
    from aiuti.itertools import split, exhaust
    if case['kind'] == 'exhaust':
        plog, stops = [], [0]
        items = list(range(case['n']))
        src = KINDS[case['src']](items, plog, stops)
        r = exhaust(src)
        return dict(plog=plog, stops=stops[0], none=r is None)
    xs, cs = case['xs'], case['cs']
    plog, pstops, elog, cstops = [], [0], [], [0]
    elems = [Elem(i, v) for i, v in enumerate(xs)]
    src = KINDS[case['src']](elems, plog, pstops)
    fancy = case.get('fancy', False)
    if case['callable']:
        def _pred(e):
            k = len(elog)
            elog.append(e.i)
            # stateful: the k-th evaluation returns the k-th entry of cs
            b = cs[k] if k < len(cs) else False
            return truth_obj(b, k, fancy)
        if case.get('cform') == 'object':
            class _CallableIterable:           # callable AND iterable: split must CALL it
                def __call__(self, e):
                    return _pred(e)

                def __iter__(self):            # a decoy stream that says the opposite
                    return iter([not b for b in cs])

                def __getitem__(self, i):
                    return not cs[i]
            cond = _CallableIterable()
        elif case.get('cform') == 'partial':
            import functools
            cond = functools.partial(lambda tag, e: _pred(e), 'p')
        else:
            cond = _pred
    else:
        cvals = [truth_obj(b, k, fancy) for k, b in enumerate(cs)]
        cond = KINDS[case['csrc']](cvals, elog, cstops)
    a, b = split(src, cond)
    its = {'L': a, 'R': b}
    obs = []
    for op in case['ops']:
        try:
            e = next(its[op])
            r = e.v if isinstance(e, Elem) else 998
        except StopIteration:
            r = None
        except Exception:
            r = 999
        obs.append([r, len(plog), pstops[0], len(elog), cstops[0]])
    return dict(obs=obs, plog=list(plog), elog=list(elog))


def error_obs(case, o):
    if case['kind'] == 'exhaust':
        return dict(plog=[], stops=0, none=False)
    return dict(obs=[[999, 0, 0, 0, 0]] * len(case['ops']), plog=[], elog=[])


def _nats(l):
    return C.coq_list([C.coq_nat(x) for x in l])


def to_coq(case, o):
    if case['kind'] == 'exhaust':
        return (f"CExhaust {_nats(list(range(case['n'])))} {_nats(o['plog'])} "
                f"{C.coq_nat(o['stops'])} {C.coq_bool(o['none'])}")
    obs = C.coq_list([f"({C.coq_opt(r, C.coq_nat)}, ({p}, {s}, {e}, {c}))" for r, p, s, e, c in o['obs']])
    return (f"CSplit {C.coq_bool(case['callable'])} {_nats(case['xs'])} "
            f"{C.coq_list([C.coq_bool(b) for b in case['cs']])} "
            f"{C.coq_list(case['ops'])} {obs} {_nats(o['plog'])} {_nats(o['elog'])}")


def explain_exprs(case, o):
    if case['kind'] == 'exhaust':
        return [f"exhaust {_nats(list(range(case['n'])))}"]
    return [f"let '(os, s) := run {C.coq_bool(case['callable'])} {_nats(case['xs'])} "
            f"{C.coq_list([C.coq_bool(b) for b in case['cs']])} {C.coq_list(case['ops'])} init in (os, plog s, elog s)"]


def mk(xs, cs, ops, callable_, src='iterator', csrc='iterator', fancy=False, cform=None):
    c = dict(kind='split', xs=list(xs), cs=list(cs), ops=list(ops), callable=callable_,
             src=src, csrc=csrc, fancy=fancy)
    if cform and callable_:
        c['cform'] = cform          # 'object': a callable that is also iterable; 'partial': functools.partial
    return c


def corpus():
    return [
        mk([1, 0, 2, 1, 0], [True, False] * 3, 'LLLLRRRR', False, src='iterable'),   # doctest 1
        mk([1, 0, 2, 1, 0], [True, False, True, False, True], 'LLLLRRRR', True),      # doctest 2
        mk([1, 0, 2], [True], 'LRLRLR', False),                                       # condition shorter
        mk([1], [True, False, True], 'RLRL', False),                                  # condition longer
        mk([1, 0, 2, 1], [False, False, True, True], 'LRRL', True, fancy=True),
        mk([1, 0, 2], [], 'LRLR', False, src='list', csrc='list'),                    # empty (falsy) list as condition
        mk([], [True], 'LR', False, src='list', csrc='list'),                         # empty (falsy) list as source
        mk([1, 0, 2, 1], [True, False, False, True], 'LRLRLR', True, cform='object'),  # callable that is also iterable
        dict(kind='exhaust', n=5, src='hint_under'),                                  # under-estimating __length_hint__
        dict(kind='exhaust', n=3, src='iterator'),
        dict(kind='exhaust', n=0, src='iterable'),
    ]


def gen_exhaustive(tier, seed):
    Lmax = 3 if tier == 'quick' else 4
    out = []
    for n in range(0, Lmax + 1):
        xs = VALS[:n]
        opss = [''.join(p) for p in itertools.product('LR', repeat=n + 3)]
        conds = [(True, list(c)) for c in itertools.product([True, False], repeat=n)]
        for m in range(max(0, n - 1), n + 2):
            conds += [(False, list(c)) for c in itertools.product([True, False], repeat=m)]
        for k, (cal, cs) in enumerate(conds):
            for j, ops in enumerate(opss):
                out.append(mk(xs, cs, ops, cal,
                              src=KIND_NAMES[(k + j) % 3],
                              csrc=KIND_NAMES[(k + j // 3) % 3],
                              cform=[None, 'object', 'partial'][(k + 2 * j) % 3]))
    for n in range(0, 6):
        out.append(dict(kind='exhaust', n=n, src='iterator'))
        out.append(dict(kind='exhaust', n=n, src='iterable'))
        out.append(dict(kind='exhaust', n=n, src='list'))
        for hk in HINT_KINDS:                       # inexact length hints must not change what exhaust consumes
            out.append(dict(kind='exhaust', n=n, src=hk))
    for n in (0, 1, 2, 3):                          # ... nor what split yields
        for hk in HINT_KINDS:
            out.append(mk(VALS[:n], [True, False, True][:n], 'LR' * (n + 1), False, src=hk, csrc=hk))
            out.append(mk(VALS[:n], [False, True, True][:n], 'RLL' * (n + 1), True, src=hk))
    return out


def gen_random(tier, seed):
    rnd = random.Random(seed * 7919 + 18)
    N = 1500 if tier == 'quick' else 30000
    out = []
    for _ in range(N):
        n = rnd.randint(2, 7)
        xs = [rnd.choice([0, 1, 2]) for _ in range(n)]
        cal = rnd.random() < 0.5
        m = n if cal else max(0, n + rnd.choice([-2, -1, 0, 0, 1, 2]))
        p = rnd.choice([0.2, 0.5, 0.8])
        cs = [rnd.random() < p for _ in range(m)]
        style = rnd.random()
        k = rnd.randint(1, n + 4)
        if style < 0.15:       # abandon one side
            ops = rnd.choice('LR') * k
        elif style < 0.3:      # one side completely, then the other
            a = rnd.choice('LR')
            ops = a * (n + 1) + ('R' if a == 'L' else 'L') * k
        else:
            ops = ''.join(rnd.choice('LR') for _ in range(k + 2))
        out.append(mk(xs, cs, ops, cal, src=rnd.choice(KIND_NAMES + HINT_KINDS),
                      csrc=rnd.choice(KIND_NAMES + HINT_KINDS), fancy=rnd.random() < 0.5,
                      cform=rnd.choice([None, None, 'object', 'partial'])))
    return out


def gen_search(tier, seed):
    rnd_cases = gen_random('thorough' if tier == 'thorough' else 'quick', seed + 1)
    return rnd_cases[:4000]


def shrink_candidates(case):
    if case['kind'] != 'split':
        return [dict(case, n=case['n'] - 1)] if case['n'] else []
    out = []
    ops = case['ops']
    for i in range(len(ops)):
        out.append(dict(case, ops=ops[:i] + ops[i + 1:]))
    n = len(case['xs'])
    if n:
        out.append(dict(case, xs=case['xs'][:-1], cs=case['cs'][:max(0, len(case['cs']) - 1)]))
    if case.get('fancy'):
        out.append(dict(case, fancy=False))
    return out


def distribution(cases, obs):
    d = dict(split=0, exhaust=0, callable=0, iterable_cond=0, cond_shorter=0, cond_longer=0,
             fancy=0, src_iterator=0, ops_total=0, yields=0, stops=0)
    for c, o in zip(cases, obs):
        if c['kind'] == 'exhaust':
            d['exhaust'] += 1
            continue
        d['split'] += 1
        d['callable' if c['callable'] else 'iterable_cond'] += 1
        if not c['callable']:
            d['cond_shorter'] += len(c['cs']) < len(c['xs'])
            d['cond_longer'] += len(c['cs']) > len(c['xs'])
        d['fancy'] += bool(c.get('fancy'))
        d['src_iterator'] += c['src'] == 'iterator'
        d['ops_total'] += len(c['ops'])
        if isinstance(o, dict) and 'obs' in o:
            d['yields'] += sum(1 for r in o['obs'] if r[0] is not None)
            d['stops'] += sum(1 for r in o['obs'] if r[0] is None)
    return d

LEVEL_TEXT = ('split/exhaust are modelled as the composition of tee/map/compress exactly as written '
              '(coq/theories/Iter.v); props/C18.v proves for ALL sources, condition streams and consumption orders: '
              'each side yields a prefix of / finally exactly the truthy resp. falsy sub-list in source order, the two '
              'partition the first min(len) elements, each element is pulled once and the condition evaluated once, in '
              'order, the source is never advanced past the furthest consumer, exhaust drains exactly once. Tied to /repo '
              'by running aiuti.itertools.split on logging iterators for every interleaving of next() calls (exhaustive for '
              'short sources, random beyond) and comparing every observation with the model inside Coq.')
LEVEL_NOTE = ('trusted: Coq kernel + vm_compute; no axioms (Print Assumptions: closed under the global context); '
              'itertools.tee/compress/map, operator.not_ and deque are modelled primitives validated only by the '
              'correspondence runs; harness/props/C18.py; coq/theories/Case_C18.v')
TECHNIQUE = 'Coq proof (invariant over tee/compress cursors, induction over next() calls) + differential correspondence evaluated by vm_compute'
