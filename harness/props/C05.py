"""C05 — threadsafe_async_cache (aiuti/asyncio.py l.289-499); driver harness/cache_drv.py,
generators harness/cache_gen.py, model coq/theories/Cache.v, monitor coq/theories/CacheMon.v."""
from __future__ import annotations

from .. import cache_drv as D
from .. import cache_gen as G

PROP = 'C05'
READY = False
PROPS_MODULE = 'C05'
MODEL_TARGETS = ['theories/Case_C05.vo']
HEADER = G.HEADER.format(case_mod='Aiuti.Case_C05')
CASE_TYPE = 'Case_Cache.case'
VERDICT = 'Case_C05.verdict'
PARALLEL = 16
CHUNK = 150
TASKS_PER_CHILD = 200
RULE = G.RULE
EXHAUSTIVE_NOTE = G.EXHAUSTIVE_NOTE
ASSUMPTIONS = G.ASSUMPTIONS
TRUSTED = G.TRUSTED
ALLOWED_AXIOMS = []
LEVEL_TEXT = 'in progress'
LEVEL_NOTE = 'in progress'
TECHNIQUE = G.TECHNIQUE

corpus = G.corpus
gen_exhaustive = G.gen_exhaustive
gen_random = G.gen_random
gen_search = G.gen_search
run_impl = D.run_impl
error_obs = G.error_obs
to_coq = G.to_coq
explain_exprs = G.explain_exprs
shrink_candidates = G.shrink_candidates
distribution = G.distribution
