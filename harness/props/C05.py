"""C05 — threadsafe_async_cache (aiuti/asyncio.py l.289-499); driver harness/cache_drv.py,
generators harness/cache_gen.py, model coq/theories/Cache.v, monitor coq/theories/CacheMon.v."""
from __future__ import annotations

from .. import cache_drv as D
from .. import cache_gen as G

PROP = 'C05'
READY = True
PROPS_MODULE = 'C05'
MODEL_TARGETS = ['theories/Case_C05.vo']
HEADER = G.HEADER.format(case_mod='Aiuti.Case_C05')
CASE_TYPE = 'Case_Cache.case'
VERDICT = 'Case_C05.verdict'
PARALLEL = 16
CHUNK = 150
TASKS_PER_CHILD = 200
RULE = G.RULE
EXHAUSTIVE_NOTE = G.EXHAUSTIVE_NOTE
ASSUMPTIONS = G.ASSUMPTIONS
TRUSTED = G.TRUSTED + ['Coq standard-library axiom Classical_Prop.classic (excluded middle): used only by the theorem '
                       'fair_run_terminates; all other C05 theorems are closed under the global context']
# only in fair_run_terminates (CacheFair.weak_clock_diverges).
ALLOWED_AXIOMS = ['Classical_Prop.classic']   # standard-library axiom (excluded middle), used by fair_run_terminates only
LEVEL_TEXT = ('proof: termination and promptness under explicitly stated fairness / environment hypotheses — run_terminates, '
              'fair_run_terminates, fair_prompt over infinite accepted runs; finite_work_then_done, bounded_work, maximal_trace_*, '
              'retry_measure, no_deadlock, no_lost_wakeup, owner_can_finish, prompt, rescue_within_60 over all accepted event '
              'lists; ok_C05_sound and four converse theorems for the trace monitor; model tied to the code by differential '
              'correspondence, promptness / rescue / no-hang decided on every observed trace by ok_C05')
LEVEL_NOTE = ('18 theorems.  run_terminates (constructive): in every infinite accepted run whose environment ends or cancels every '
              'invocation on a running loop (E1), whose clock diverges (E2) and whose life-cycle activity is finite (E3), every '
              'started call on a loop that keeps running is eventually answered; fair_run_terminates: the same with E2 weakened '
              'to weak fairness of the clock and library weak fairness as an explicit hypothesis (uses Classical_Prop.classic, the '
              'only axiom; divergence of the clock is derived from bounded_work); fair_prompt: a waiter whose wait is over '
              'resumes in the same virtual tick.  In the model the clock is urgent, so library fairness is carried by "the run is '
              'infinite and its clock keeps moving"; finite stuck runs are covered by maximal_trace_done_or_timer.  What remains '
              'ASSUMED about the real system: E1, E3 and that the OS scheduler / clock are weakly fair; virtual time only.  '
              'The remaining theorems are as before (see props/C05.v header and notes/cache.md).')
TECHNIQUE = G.TECHNIQUE

corpus = G.corpus
gen_exhaustive = G.gen_exhaustive
gen_random = G.gen_random
gen_search = G.gen_search
run_impl = D.run_impl
error_obs = G.error_obs
to_coq = G.to_coq
explain_exprs = G.explain_exprs
shrink_candidates = G.shrink_candidates
distribution = G.distribution
