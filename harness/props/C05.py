"""C05 — threadsafe_async_cache (aiuti/asyncio.py l.289-499); driver harness/cache_drv.py,
generators harness/cache_gen.py, model coq/theories/Cache.v, monitor coq/theories/CacheMon.v."""
from __future__ import annotations

from .. import cache_drv as D
from .. import cache_gen as G

PROP = 'C05'
READY = True
PROPS_MODULE = 'C05'
MODEL_TARGETS = ['theories/Case_C05.vo']
HEADER = G.HEADER.format(case_mod='Aiuti.Case_C05')
CASE_TYPE = 'Case_Cache.case'
VERDICT = 'Case_C05.verdict'
PARALLEL = 16
CHUNK = 150
TASKS_PER_CHILD = 200
RULE = G.RULE
EXHAUSTIVE_NOTE = G.EXHAUSTIVE_NOTE
ASSUMPTIONS = G.ASSUMPTIONS
TRUSTED = G.TRUSTED
ALLOWED_AXIOMS = []
LEVEL_TEXT = ('proof (partial): no_lost_wakeup, owner_can_finish, prompt, rescue_within_60, no_deadlock, retry_measure, bounded_work, maximal_trace_done_or_timer / _all_done, finite_work_then_done, ok_C05_sound + 4 converse theorems proved for all event '
              'lists accepted by the model Cache.step (invariants CacheInv.Inv + CacheLive.LInv); termination under fair '
              'scheduling is reduced to these and the last inference is left on paper; model tied to the code by '
              'differential correspondence, promptness / rescue / no-hang decided on every observed trace by ok_C05')
LEVEL_NOTE = ('Proved (closed under the global context): a waiter never waits for an event nobody will set; the owner\'s path '
              'to its finally block waits only for the lock and the user computation and that block sets the event; once the '
              'event is set every waiter\'s resume step is enabled and the clock cannot move first (same virtual tick, not '
              '+60 s); a wait lasts at most 61440 ticks, the clock cannot jump over the deadline, the time-out step is enabled '
              'and a caller that then finds a dead computing loop takes the key over; while a call on a live loop is unfinished '
              'some non-life-cycle step is enabled.  NOT formalised: "a fair scheduler and a running clock produce a maximal trace" '
              '(so "enabled" becomes "eventually happens" and maximal_trace_* applies), the property\'s assumption that each invocation ends or '
              'is cancelled (IEnd is an environment event).  retry_measure (CacheRetry.v, ghost counters computed along the run): '
              'retries of a caller <= ended invocations + its proxy results + closed loops + its time-outs, time-outs * 61440 <= now.  Converse theorems ok_C05_implies_ends_with_End0 / '
              '_shutdown_answers / _prompt / _rescue (CacheMon5Spec.v) read the property off an accepted trace alone.  ok_C05_sound (CacheMon5.v): every '
              'trace the model accepts satisfies the trace monitor (End 0, shutdown answers every started call, at every clock '
              'move every pending call on a running loop is served by an invocation in progress on a running loop or is within '
              '61440 ticks of the death of a loop that hosted its key).')
TECHNIQUE = G.TECHNIQUE

corpus = G.corpus
gen_exhaustive = G.gen_exhaustive
gen_random = G.gen_random
gen_search = G.gen_search
run_impl = D.run_impl
error_obs = G.error_obs
to_coq = G.to_coq
explain_exprs = G.explain_exprs
shrink_candidates = G.shrink_candidates
distribution = G.distribution
