"""C09 — AsyncBackgroundBatcher: cancelling one caller never disturbs the others;
the batcher keeps serving.  Thin module over harness/batcher_drv.py."""
from __future__ import annotations

import random

from .. import batcher_drv as D
from .. import batcher_gen as G

PROP = 'C09'
READY = True
PROPS_MODULE = 'C09'
MODEL_TARGETS = ['theories/Case_C09.vo']
HEADER = ('From Coq Require Import List NArith. Import ListNotations.\n'
          'Require Import Aiuti.Batcher Aiuti.Case_Batcher Aiuti.Case_C09.')
CASE_TYPE = 'Case_Batcher.case'
VERDICT = 'Case_C09.verdict'
PARALLEL = 16
CHUNK = 300
RULE = ('case = (configuration in ticks; event list with Cancel events) run against the real AsyncBackgroundBatcher under '
        'the virtual-time loop; Cancel c cancels the caller task c (what asyncio.wait_for does on a timeout).  Exhaustive '
        'layer: every event list up to depth D with <= 3 calls over {call key0, call key1, call key0 by explicit key, '
        'advance batch_timeout+1, cancel any waiting caller, and for the oldest live batch: yield a value for its first '
        'unanswered key, raise, return}, so that every subset of callers is cancelled while queued / while the batch runs '
        'before its result / after its result (no-op), creators and sharers alike, then two fresh calls (a new key and key0) '
        'and a drain that answers everything; retention 0 and > 0.  Random layer: up to 8 calls, several cancels per batch, '
        'any result order.  non-trivial = some waiting caller was really cancelled and another caller was answered '
        '(Case_C09.nontrivial, inside Coq); distinct = distinct (case, trace) pairs'
        ' The random layer also contains Chain events (a task calling again in the continuation of its answer; cancelling it stops the chain).'
        " 'burstc' events (corpus, exhaustive on short programs, random): a burst larger than max_batch_size * max_concurrent_batches in which one member — typically a late one whose key another member shares — is cancelled in the loop iteration right after the requests were issued, before the batcher's own tasks run; for the model this is Burst followed by Cancel (batcher_drv.expand splits the event and its observations).")
EXHAUSTIVE_NOTE = ('all event lists of length <= D (D=5 quick, 6 thorough) with <= 3 calls over the alphabet in the rule, '
                   'for 4 configurations, each followed by fresh calls and a drain')
ASSUMPTIONS = D.ASSUMPTIONS + ['a caller is cancelled at a quiescent point, i.e. after its task has reached '
                               'await shield(fut) (a task cancelled before its first step never calls the batcher)']
TRUSTED = D.TRUSTED
ALLOWED_AXIOMS = []
LEVEL_NOTE = ('trusted: Coq kernel + vm_compute; asyncio primitives (Queue, wait_for, FIFO Semaphore, shield, Future '
    'done-callbacks, call_later, task wake-up order) are modelled in Batcher.v and validated only by the '
    'correspondence runs; harness/vloop.py, harness/batcher_drv.py, coq/theories/Case_Batcher.v (agree + monitors).  '
    'The state-free conjuncts of the monitors (ok_basic) are proved complete and sound; the full monitors ok_C04 / '
    'ok_C10 / ok_C11 are proved complete on ALL event lists, Chain events included (monitor_complete; ok_C04 / '
    'ok_C10 for batch_timeout > 0), and partially sound model-free (monitor_sound_*)')
TECHNIQUE = D.TECHNIQUE

run_impl = D.run_impl
error_obs = D.error_obs
to_coq = D.to_coq
explain_exprs = D.explain_exprs
shrink_candidates = D.shrink_candidates
distribution = D.distribution

W = dict(call=30, chain=5, burst=8, burstc=7, adv=16, cancel=20, fin=6, **{'yield': 18}, **{'raise': 4}, junk=2)


def _fresh_then_finish(cfg, evs):
    m = G.Mirror(cfg)
    for e in evs:
        m.apply(e)
    tail = [['call', 8, None], ['call', 0, None]]
    for e in tail:
        m.apply(e)
    return G.mk(cfg, G.finish_all(m, evs + tail, style='values'))


def corpus():
    out = []
    c = dict(mbs=3, conc=1, bt=10, rt=0, deco=False)
    # DESIGN §6/F4: caller 0 times out while queued, its batch then runs; a sharer of its key; two cancelled in one batch
    out.append(_fresh_then_finish(c, [['call', 0, None], ['call', 1, None], ['call', 5, 0], ['cancel', 0],
                                      ['yield', 0, 0, 'v', 4], ['yield', 0, 1, 'v', 5]]))
    out.append(_fresh_then_finish(c, [['burst', [[0, None], [1, None], [2, None]]], ['cancel', 0], ['cancel', 1],
                                      ['yield', 0, 1, 'v', 5], ['yield', 0, 0, 'v', 4], ['raise', 0, 1]]))
    out.append(_fresh_then_finish(dict(c, rt=15), [['call', 0, None], ['call', 0, None], ['cancel', 0], ['adv', 10],
                                                   ['cancel', 1], ['yield', 0, 0, 'v', 4], ['call', 0, None],
                                                   ['adv', 14], ['call', 0, None], ['adv', 1]]))
    # cancelled while its batch waits for the semaphore; cancel after the result is a no-op
    out.append(_fresh_then_finish(dict(c, mbs=1), [['call', 0, None], ['call', 1, None], ['cancel', 1], ['fin', 0],
                                                   ['yield', 1, 1, 'v', 3], ['cancel', 1], ['cancel', 0]]))
    out.append(_fresh_then_finish(dict(c, deco=True), [['call', 0, None], ['call', 1, None], ['cancel', 0], ['adv', 10],
                                                       ['fin', 0]]))
    # a burst larger than max_batch_size * max_concurrent_batches; a late member (the creator of key 3, which another
    # member shares) is cancelled in the very iteration in which it issued its request — before the collector ran
    out.append(_fresh_then_finish(dict(c, mbs=2), [['burstc', [[1, None], [2, None], [3, None], [3, None]], 2],
                                                   ['adv', 11], ['fin', 0], ['call', 3, None]]))
    out.append(_fresh_then_finish(dict(c, mbs=1), [['burstc', [[1, None], [2, None], [2, None]], 1], ['fin', 0],
                                                   ['call', 2, None]]))
    out.append(_fresh_then_finish(dict(c, mbs=2, conc=2, rt=15),
                                  [['call', 9, None], ['burstc', [[i, None] for i in range(6)] + [[5, None]], 5],
                                   ['adv', 11], ['fin', 0], ['fin', 1], ['call', 5, None]]))
    return out


def _alphabet(bt, big=False):
    def alpha(m, evs):
        out = [['call', 0, None], ['call', 1, None], ['call', 5, 0]]
        if big and not any(e[0] == 'burstc' for e in evs):
            n = m.cfg['mbs'] * m.cfg['conc']
            out.append(['burstc', [[10 + i, None] for i in range(n)] + [[0, None], [0, None]], n])
        if not evs or evs[-1][0] != 'adv':
            out.append(['adv', bt + 1])
        for c in m.waiting_callers():
            out.append(['cancel', c])
        live = m.live()
        if live:
            b = live[0]
            un = list(m.running[b]['futs'])
            if un:
                out.append(['yield', b, un[0], 'v', 1 + un[0]])
            out.append(['raise', b, 1])
            out.append(['fin', b])
        return out
    return alpha


def gen_exhaustive(tier, seed):
    depth = 5 if tier == 'quick' else 6
    out = []
    bt = 6
    for mbs, conc, rt in [(2, 1, 0), (2, 1, 9), (1, 1, 0), (3, 2, 9)]:
        cfg = dict(mbs=mbs, conc=conc, bt=bt, rt=rt, deco=False)
        progs = G.enum_programs(cfg, _alphabet(bt), depth, 3, finish='blind')
        # the over-capacity burst with an immediate cancellation, at every position of short programs
        progs += [p for p in G.enum_programs(cfg, _alphabet(bt, True), depth - 2, 1 + mbs * conc + 2, finish='blind')
                  if any(e[0] == 'burstc' for e in p['evs'])]
        for p in progs:
            n = len(p['evs']) - len(D.drain([], bt)) - D.n_calls(p['evs'])
            body = p['evs'][:n]
            if any(e[0] in ('cancel', 'burstc') for e in body):
                out.append(_fresh_then_finish(cfg, body))
    return out


def gen_random(tier, seed):
    rnd = random.Random(seed * 7919 + 9)
    N = 2500 if tier == 'quick' else 60000
    out = []
    for _ in range(N):
        cfg = G.rand_cfg(rnd, rts=(0, 0, 7, 40))
        m, evs = G.rand_program(rnd, cfg, rnd.randint(6, 30), W, max_calls=8)
        # fresh calls afterwards, then answer everything
        tail = [['call', rnd.randrange(3), None], ['call', 20 + rnd.randrange(3), None]]
        for e in tail:
            m.apply(e)
        evs = G.finish_all(m, evs + tail, rnd, rnd.choice(['values', 'mixed']))
        out.append(G.mk(cfg, evs))
    return out


def gen_search(tier, seed):
    rnd = random.Random(seed * 104729 + 909)
    out = []
    for _ in range(4000):
        cfg = G.rand_cfg(rnd, deco_p=0.0)
        m, evs = G.rand_program(rnd, cfg, rnd.randint(8, 40), W, keys=2, args=2, max_calls=10)
        out.append(G.mk(cfg, G.finish_all(m, evs, rnd, 'mixed')))
    return out


LEVEL_TEXT = ('On the macro-step model of the CURRENT AsyncBackgroundBatcher (callers await shield(fut), the key is released by '
    'a done-callback of the future) props/C09.v proves for ALL event lists with arbitrary Cancel events at any '
    'position: own_outcome_under_cancel — every CallerDone is either Cancelled for a caller a Cancel event names '
    "(cancelled_only_by_cancel) or exactly the outcome the batch function produced for that caller's key in the batch "
    'that carried its future, including batch mates and sharers of a cancelled caller; always_answered_under_cancel '
    'and batch_end_answers_under_cancel — waiting callers always have a pending item the batcher still holds and the '
    'end of a batch answers all its items; no_task_died_under_cancel; keeps_serving — after any history a call with a '
    'key that is not remembered, followed by batch_timeout ticks, is in an observed BatchStart unless all slots are '
    "busy (then it is queued for the next free slot).  The statement 'the run without the Cancel events gives the "
    "same answers' is NOT claimed (a cancelled task stops making its later calls).  Tied to /repo by differential "
    'correspondence under the virtual-time loop with scripted cancellations; the monitor (ok_C04 and ok_C11) judges '
    'the observed trace independently of the model. monitor_complete: the verdict of this check (ok_C04 && '
    'ok_C11) accepts every model trace, with arbitrary cancellations, for batch_timeout > 0 and ALL event lists, '
    'Chain events included (Case_Batcher_Full.v; monitor_complete_nochain is the earlier Chain-free version).')
