"""C17 — cross-loop awaiting: ensure_aw / run_aw_threadsafe / loop_in_thread / per-loop lock table
(aiuti/asyncio.py).  The real helpers run under gated threads (harness/c17_drive.py); the Coq model
(coq/theories/XLoop.v) validates the observed log event by event, the monitor (Case_C17.mon_tags)
decides the property on the log."""
from __future__ import annotations

import multiprocessing as mp
import random

from .. import common as C
from .. import c17_drive as D
from .. import c17_mon as M

PROP = 'C17'
READY = True
PROPS_MODULE = 'C17'
MODEL_TARGETS = ['theories/Case_C17.vo']
HEADER = ('From Coq Require Import List NArith. Import ListNotations.\n'
          'Require Import Aiuti.XLoop Aiuti.Case_C17.')
CASE_TYPE = 'Case_C17.case'
VERDICT = 'Case_C17.verdict'
PARALLEL = 16
CHUNK = 300
TASKS_PER_CHILD = 200

RULE = ('case = (mode of the target loop L: idle / running via loop_in_thread ("forever") / loop_in_thread racing with '
        'the callers ("race") / caller 0\'s own loop / closed; per caller an awaitable script return|raise (an Exception, a RuntimeError-subclass or a NotImplementedError instance) after no sleep or '
        'sleep d in {0,5,50} ticks and a form coroutine|task|future (closed mode also: a future/task of L already completed before the call); a schedule = the thread chosen at every gate).  The REAL '
        'ensure_aw / run_aw_threadsafe / loop_in_thread / _get_loop_lock run under gated threads; gates = L.is_running, '
        'L.call_soon_threadsafe from a foreign thread, every iteration of L, the lock-table read, Lock acquire/release, pool '
        'submit / future.result, sleep(0).  Observation = the totally ordered log of visible operations (incl. thread and loop '
        'identity seen from inside each awaitable step, each caller\'s outcome identity) + ok/deadlock.  The model validates the log '
        'event by event and must end in a state that matches the verdict (deadlock <=> nothing enabled in the model).  '
        'Exhaustive: every schedule of the implementation\'s decision tree up to a preemption bound for 2 callers in each mode; '
        'random: 3 callers, random schedules.  non-trivial (decided in Coq) = some thread ran L and >= 2 callers completed.')
EXHAUSTIVE_NOTE = ('2 callers x 5 modes x script/form pairs: all schedules of the controller\'s decision tree with <= 2 preemptions '
                   '(idle/own/closed; thorough: 3) resp. <= 1 (forever/race; thorough: 2), enumerated on the implementation itself, '
                   'thinned deterministically to the tier budget')
ASSUMPTIONS = ['asyncio is a modelled primitive: tasks of L are stepped only by the thread inside L.run_forever; run_until_complete '
               'returns when ITS future is done; run_forever returns after loop.stop ran; call_soon_threadsafe / '
               'run_coroutine_threadsafe / wrap_future / run_in_executor deliver a result by waking the waiting loop',
               'threading.Lock, the dict _LOOP_LOCKS and the pool are modelled primitives (gated substitutes)',
               'the finalizer that removes a dead loop\'s lock from the table is not modelled (L stays alive during a case)',
               'scenario assumptions written into the model as guards: stop() is called when all callers are done (race mode: or '
               'when the system is quiescent); the own-loop caller keeps its loop running until the others are done']
TRUSTED = ['harness/gate.py, harness/c17_drive.py, harness/c17_mon.py (Python mirror of the monitor is cross-checked by Coq on '
           'every case), coq/theories/Case_C17.v (monitor completeness and soundness proved in Case_C17_Complete.v / Case_C17_Sound.v)']
ALLOWED_AXIOMS = []

SLEEPS = [None, 0, 5, 50]
# 'raise' = an Exception subclass instance, 'raise_rt' = an instance of a RuntimeError subclass,
# 'raise_ni' = a NotImplementedError instance (the library raises RuntimeError itself: the caller must
# still get the awaitable's own exception OBJECT); the model only knows "raises its own exception"
KINDS = ['ret', 'ret', 'ret', 'raise', 'raise_rt', 'raise_ni']


def mk(mode, scripts, forms, sched=None, **kw):
    d = dict(mode=mode, scripts=[list(s) for s in scripts], forms=list(forms), sched=list(sched or []))
    d.update(kw)
    return d


def run_impl(case):
    o = M.run(case)
    return dict(res=o['res'], log=o['log'], stuck=o['stuck'], texc=o['texc'], sched=o['sched'])


def error_obs(case, o):
    return dict(res='steps', log=[], stuck=[], texc=[['harness', 'error']], sched=[])


def to_coq(case, o):
    tags = M.mon_tags(case, o)
    return (f"mkcase {M.MODE_COQ[case['mode']]} {M.aws_coq(case)} {M.log_coq(o['log'])} "
            f"{M.RES_NUM.get(o['res'], 2)} {min(len(o.get('texc') or []), 9)} {C.coq_list([str(t) for t in tags])}")


def explain_exprs(case, o):
    return [f'Case_C17.explain ({to_coq(case, o)})']


def signature(case, o):
    if not isinstance(o, dict) or 'log' not in o:
        return 'harness-error'
    return M.signature_of(M.mon_tags(case, o))


# ---- corpus --------------------------------------------------------------------------

K1_A = ["c0", "c0", "c1"] + ["jc0"] * 9 + ["c1", "c1"] + ["jc0"] * 6 + ["c0"]
K1_B = ["c0", "c0", "c1"] + ["jc0"] * 9 + ["c1", "c1", "jc0", "jc0", "c0"]
M3_SCHED = (["c0", "c0", "c1", "c1", "c2", "c2"] + ["jc0"] * 8 + ["jc1", "jc1", "jc0", "jc0", "jc0", "c0", "jc1", "jc1", "jc1",
            "jc2", "jc2", "jc1", "jc1", "jc1", "jc1", "c1"] + ["jc2"] * 5 + ["c2"])


def corpus():
    return [
        # K1 (design-notes/e1.py): caller 1 sees L running because caller 0 BORROWED it, schedules its awaitable
        # there; caller 0's awaitable finishes first, L goes idle, caller 1 never completes
        mk('idle', [['ret', 5], ['ret', 50]], ['coro', 'coro'], K1_A),
        mk('idle', [['ret', None], ['raise', 50]], ['task', 'future'], K1_B),
        # seeded C17-m1: both pool threads miss the unlocked table read before either creates the lock
        mk('idle', [['ret', 5], ['ret', 5]], ['coro', 'coro'], ['c0', 'c0', 'c1', 'c1', 'jc0', 'jc0', 'jc1', 'jc1']),
        mk('race', [['ret', 5], ['ret', None]], ['coro', 'coro'], ['m', 'c0', 'c0', 'jm', 'jm', 'jc0', 'jc0']),
        # seeded C17-m2: an awaitable that RAISES on the borrow path, then another call on the same idle loop
        mk('idle', [['raise', 5], ['ret', 5]], ['coro', 'coro'], ['c0'] * 2 + ['jc0'] * 16 + ['c0'] * 2),
        mk('idle', [['ret', 0], ['raise', None], ['ret', 5]], ['coro', 'task', 'coro'], ['c1'] * 2 + ['jc1'] * 16 + ['c1'] * 2),
        # seeded C17-m3: A finishes, B was queued on A's lock and now runs L, C reads the table only then
        mk('idle', [['ret', None], ['ret', 50], ['raise', None]], ['coro', 'coro', 'coro'], M3_SCHED),
        # seeded C17-m4: the user thread goes on right after the forever-thread took L's lock, before it runs L
        mk('forever', [['ret', 5], ['raise', None]], ['coro', 'coro'], ['m'] + ['jm'] * 8 + ['m'] * 4),
        mk('race', [['ret', 5]], ['coro'], ['m'] + ['jm'] * 8 + ['m'] * 3 + ['c0'] * 3),
        # seeded C17-m7: the awaitable's OWN exception is a RuntimeError / NotImplementedError instance; the caller must
        # receive that very object on every dispatch path (borrowed idle loop, running loop, own loop, racing start)
        mk('idle', [['raise_rt', None], ['raise_ni', 5]], ['coro', 'coro']),
        mk('idle', [['raise_ni', 5], ['raise_rt', None]], ['task', 'future']),
        mk('forever', [['raise_rt', 5], ['raise_ni', None]], ['coro', 'future']),
        mk('race', [['raise_ni', None], ['raise_rt', 5]], ['coro', 'coro']),
        mk('own', [['raise_rt', None], ['raise_ni', 5]], ['coro', 'task']),
        mk('closed', [['raise_rt', None], ['raise_ni', None]], ['coro', 'coro']),
        # seeded C17-m9: closed target, awaitable = a future / task of it that is already COMPLETED: still RuntimeError
        mk('closed', [['ret', None], ['raise', None]], ['donefut', 'donetask']),
        mk('closed', [['raise_rt', None], ['ret', None]], ['donefut', 'donetask']),
        mk('closed', [['ret', None], ['ret', 5], ['raise_ni', None]], ['donetask', 'coro', 'donefut']),
        # borrowers queue on the per-loop lock
        mk('idle', [['ret', 50], ['raise', 5]], ['coro', 'coro'], ['c0', 'c0', 'c1', 'c1'] + ['jc0'] * 10 + ['jc1'] * 4),
        # the loop_in_thread doctest shape, two callers, and the racing start
        mk('forever', [['ret', 5], ['raise', 0]], ['task', 'coro']),
        mk('race', [['ret', 50], ['raise', 5]], ['coro', 'future']),
        mk('own', [['ret', 5], ['raise', 50]], ['coro', 'coro']),
        mk('closed', [['ret', None], ['raise', 5]], ['coro', 'coro']),
    ]


# ---- exhaustive layer ------------------------------------------------------------------

PAIRS_QUICK = [
    ([['ret', 5], ['raise_rt', None]], ['coro', 'coro']),
    ([['ret', None], ['ret', 50]], ['task', 'future']),
    ([['raise_ni', 0], ['ret', 5]], ['coro', 'task']),
]
PAIRS_MORE = [
    ([['ret', None], ['ret', None]], ['coro', 'coro']),
    ([['raise', 50], ['raise_rt', 5]], ['future', 'coro']),
    ([['ret', 5], ['ret', 5]], ['task', 'task']),
    ([['ret', 0], ['raise_ni', 50]], ['future', 'future']),
]


def _explore(args):
    case, pb, cap = args
    return [dict(case, sched=s) for s in M.explore(case, pbound=pb, max_runs=cap)]


def gen_exhaustive(tier, seed):
    quick = tier == 'quick'
    pairs = PAIRS_QUICK if quick else PAIRS_QUICK + PAIRS_MORE
    jobs = []
    for scripts, forms in pairs:
        for mode in D.MODES:
            if mode in ('forever', 'race'):
                pb, cap = (1, 500) if quick else (2, 5000)
            else:
                pb, cap = (2, 500) if quick else (3, 5000)
            jobs.append((mk(mode, scripts, forms), pb, cap))
            if mode == 'closed':      # the same scripts with already-completed futures / tasks of the closed loop
                for dforms in (['donefut', 'donetask'], ['donetask', forms[1]], [forms[0], 'donefut']):
                    jobs.append((mk(mode, scripts, dforms), pb, cap))
    with mp.get_context('fork').Pool(C.NPROC) as pool:
        outs = pool.map(_explore, jobs, chunksize=1)
    out = []
    budget = 260 if quick else 1500          # per job
    for cs in outs:
        if len(cs) > budget:
            step = len(cs) / budget
            cs = [cs[int(i * step)] for i in range(budget)]
        out += cs
    return out


# ---- random layer ------------------------------------------------------------------------

def _rand_case(rnd, n=None):
    n = n or rnd.choice([3, 3, 3, 2])
    mode = rnd.choice(['idle', 'idle', 'forever', 'race', 'race', 'own', 'closed'] if n == 3 else list(D.MODES))
    scripts = [[rnd.choice(KINDS), rnd.choice(SLEEPS)] for _ in range(n)]
    forms = [rnd.choice(D.FORMS + D.DONE_FORMS if mode == 'closed' else D.FORMS) for _ in range(n)]
    return mk(mode, scripts, forms, rseed=rnd.randrange(1 << 30), stay=rnd.choice([0.0, 0.3, 0.6, 0.85]))


def gen_random(tier, seed):
    rnd = random.Random(seed * 7919 + 17)
    return [_rand_case(rnd) for _ in range(900 if tier == 'quick' else 20000)]


def gen_search(tier, seed):
    rnd = random.Random(seed * 7919 + 1717)
    out = [_rand_case(rnd, n=rnd.choice([2, 3])) for _ in range(2500)]
    # all schedules with <= 2 preemptions of the adversarial two-caller shapes
    jobs = [(mk(mode, scripts, forms), 2, 1500)
            for mode in ('idle', 'race', 'forever')
            for scripts, forms in [([['raise_rt', 5], ['ret', 5]], ['coro', 'coro']), ([['ret', None], ['raise_ni', 50]], ['coro', 'task'])]]
    with mp.get_context('fork').Pool(C.NPROC) as pool:
        for cs in pool.map(_explore, jobs, chunksize=1):
            out += cs
    return out


# ---- shrinking ---------------------------------------------------------------------------

def shrink_candidates(case):
    out = []
    s = case.get('sched') or []
    if case.get('rseed') is not None and not s:
        o = M.run(case)                       # make the realised schedule explicit first
        c2 = dict(case, sched=o['sched'], rseed=None)
        c2.pop('stay', None)
        return [c2]
    n = len(case['scripts'])
    if n > 2:
        for i in range(n):
            if case['mode'] == 'own' and i == 0:
                continue
            ren = {}
            for k in range(n):
                if k != i:
                    ren[k] = k - (k > i)

            def rn(nm):
                t = M.tid(nm)
                if isinstance(t, tuple):
                    if t[1] == i:
                        return None
                    return ('c' if t[0] == 'c' else 'jc') + str(ren[t[1]])
                return nm
            s2 = [x for x in (rn(nm) for nm in s) if x is not None]
            out.append(dict(case, scripts=case['scripts'][:i] + case['scripts'][i + 1:],
                            forms=case['forms'][:i] + case['forms'][i + 1:], sched=s2))
    if len(s) > 4:
        out.append(dict(case, sched=s[:len(s) // 2]))
    for i in range(len(s) - 1, -1, -1):
        out.append(dict(case, sched=s[:i] + s[i + 1:]))
    for i in range(n):
        k, d = case['scripts'][i]
        if d is not None:
            sc = [list(x) for x in case['scripts']]
            sc[i] = [k, None if d == 0 else (0 if d == 5 else 5)]
            out.append(dict(case, scripts=sc))
        if k in ('raise_rt', 'raise_ni'):
            sc = [list(x) for x in case['scripts']]
            sc[i] = ['raise', d]
            out.append(dict(case, scripts=sc))
        if case['forms'][i] != 'coro':
            f = list(case['forms'])
            f[i] = 'coro'
            out.append(dict(case, forms=f))
    return out


def distribution(cases, obs):
    d = dict(cases=0, callers2=0, callers3=0, events=0, deadlocks=0, time_advances=0, xsubmit_callers=0,
             poolsubmit_callers=0, closed_raises=0, own_direct=0, borrow_runs=0, forever_runs=0, lock_creations=0,
             k1_signature=0)
    for m in D.MODES:
        d['mode_' + m] = 0
    for f in D.FORMS + D.DONE_FORMS:
        d['form_' + f] = 0
    for c, o in zip(cases, obs):
        d['cases'] += 1
        d['mode_' + c['mode']] += 1
        d['callers2' if len(c['scripts']) == 2 else 'callers3'] += 1
        for f in c['forms']:
            d['form_' + f] += 1
        if not isinstance(o, dict) or 'log' not in o:
            continue
        d['events'] += len(o['log'])
        d['deadlocks'] += o['res'] == 'deadlock'
        for e in o['log']:
            op = e[1]
            if op == 'adv':
                d['time_advances'] += 1
            elif op == 'cst' and e[0] != 'm':
                d['xsubmit_callers'] += 1
            elif op == 'submit' and e[0] != 'm':
                d['poolsubmit_callers'] += 1
            elif op == 'done' and e[3:] == ['lib', 'RuntimeError']:
                d['closed_raises'] += 1
            elif op == 'enter':
                if e[0] == 'jm':
                    d['forever_runs'] += 1
                elif e[0].startswith('jc'):
                    d['borrow_runs'] += 1
                else:
                    d['own_direct'] += 1
            elif op == 'mklock':
                d['lock_creations'] += 1
        d['k1_signature'] += signature(c, o) == M.K1_SIGNATURE
    return d


LEVEL_TEXT = ('ensure_aw / run_aw_threadsafe / loop_in_thread / _get_loop_lock are modelled as a small-step machine over the '
              'target loop (who is inside run_forever), the per-loop lock table with its creation lock, lock owners, the '
              'awaitables (scripted, stepped only by the thread running the loop) and one program counter per caller, pool '
              'thread and loop_in_thread user (coq/theories/XLoop.v; a validator: step : state -> event -> option state).  '
              'props/C17.v proves for ALL accepted logs (all schedules, any number of callers, any scripts/forms/mode): '
              'one_runner (at most one thread inside the loop, a pool thread that runs it owns the loop\'s lock, every entry '
              'found the loop idle, no "already running" error), lock_unique (Lock() called at most once, every lock returned '
              'or acquired is that one), result_transparent + closed_target_raises (each caller gets exactly its own awaitable\'s '
              'value/exception identity; closed target <=> RuntimeError), evaluated_on_target (every awaitable step on L by the '
              'thread inside it), loop_in_thread_contract (+ loop_in_thread_returns_after_running for the racing start).  '
              'Liveness in no-deadlock form: completes_own, completes_forever, completes_borrow proved unconditionally; the general '
              'statement is REFUTED by a computed witness (stranded_refuted / liveness_refuted = known finding K1, the same '
              'schedule the real code deadlocks on) and PROVED under the explicit hypothesis no_foreign_submit_to_borrowed_loop '
              '(completes_unless_submitted_to_borrowed_loop); bounded_work: at most 21*#callers+19 non-spin operations in any accepted '
              'log (no livelock), quiescent_means_completed: where nothing but the spin is enabled every caller has completed.  Tied to /repo by running the real helpers under gated threads on '
              'all schedules (preemption-bounded) of 2 callers in 5 modes and random schedules of 3 callers; the model must accept '
              'every observed log event by event and agree on ok/deadlock (deadlock <=> nothing enabled in the model, and '
              'enabled_is_complete shows that means no operation at all); the monitor decides the property on the log, and '
              'monitor_complete proves that it raises no safety tag on any log the model accepts, monitor_sound what its acceptance '
              'means event by event, independently of the model.')
LEVEL_NOTE = ('safety: full (theorems over all accepted logs); liveness: no-deadlock + bounded work (fairness of the OS scheduler and the end of '
              'loop_in_thread\'s spin are not formalised), three cases unconditional, '
              'general statement refuted -> K1 (reported as KNOWN-FINDING, any other stuck or incorrect scenario is a VIOLATION); '
              'result_transparent / evaluated_on_target follow the model\'s asyncio assumptions (tasks are stepped by the loop\'s '
              'thread; futures deliver the awaitable\'s own outcome) which the correspondence validates on every case; no axioms')
TECHNIQUE = ('Coq proof (two inductive invariants over all accepted event lists + case analysis for progress + vm_compute witness '
             'for K1) + differential correspondence under gated threads, validated event by event inside Coq by vm_compute')
CLEAN_FOR_THOROUGH = ['theories/XLoop.vo', 'theories/XLoopInv.vo', 'theories/XLoopSafe.vo', 'theories/XLoopLive.vo',
                      'theories/XLoopProg.vo', 'theories/XLoopK1.vo', 'theories/XLoopTerm.vo', 'theories/Case_C17.vo',
                      'theories/Case_C17_Complete.vo', 'theories/Case_C17_Sound.vo']
