"""C08 — debounce: one non-overlapping, non-empty call per quiet period (aiuti/asyncio.py BufferAsyncCalls / buffer_until_timeout).
Thin module: driver, Coq literals, shrinking and generator building blocks are
shared with the other two buffer properties in harness/buffer_drv.py."""
from __future__ import annotations
import random

from .. import buffer_drv as B

PROP = 'C08'
READY = True
PROPS_MODULE = 'C08'
MODEL_TARGETS = ['theories/Case_C08.vo']
HEADER = B.HEADER + '\nRequire Import Aiuti.Case_C08.'
CASE_TYPE = 'Case_C08.case'
VERDICT = 'Case_C08.verdict'
PARALLEL = 16
CHUNK = 400
ALLOWED_AXIOMS = []

run_impl = B.run_case
to_coq = B.to_coq
error_obs = B.error_obs
explain_exprs = B.explain_exprs
shrink_candidates = B.shrink_candidates
distribution = B.distribution

ALPHA = 'SLEmpPKFw'           # plain, sync list, empty list, Advance T-1 / T+1 / 2T+1, FnOk, FnFail, wait(cancel=False)


def corpus():
    W = ['SmSmSmSpK', 'SzSzSpK',          # one burst, one call, timeout after the last arrival
         'SpKSpK', 'SPKSmSpK',            # two quiet periods, two calls
         'SpSmKpK', 'SpSpKpK',            # arrivals while the function runs go to the next call
         'SpFmSpK', 'SpFpK',              # failure: retry a timeout later, with the newcomers
         'EpSpK', 'EmSpK', 'Ep',          # empty producers never cause a call
         'StK', 'SmStK', 'SmSt',          # exact ties (run, not judged)
         'SmWK', 'SpSWK']                 # forced flush
    return ([c for c in (B.letters_case(T, w) for T in B.TIMEOUTS for w in W + retry_words()) if c]
            + [B.burst_case(1040, 'D')])      # 1040 plain calls in ONE loop pass: one call with all of them, timeout later


def retry_words():
    """1..7 consecutive failed calls, then: the retry of the kept arguments alone / a newcomer / a burst of two —
    each time the call must start ONE timeout after the later of the last failure and the last arrival"""
    out = []
    for nf in range(1, 8):
        fails = 'Sp' + 'Fp' * (nf - 1) + 'F'
        for after in ('pK', 'PK', 'hSpK', 'SmSpK', 'mSmSpK', 'pKSpK'):
            out.append(fails + after)
    return out


def gen_exhaustive(tier, seed):
    out = B.word_cases(ALPHA, 5 if tier == 'quick' else 6)
    out += B.grid_cases(max_subs=4 if tier == 'quick' else 5, kinds='SLSI')
    # the grid again with the function failing twice / three times in a row before it succeeds
    out += B.grid_cases(max_subs=3 if tier == 'quick' else 4, kinds='SLSI', modes=['FpFpK', 'FpFpFpK', 'FmSpFpK'])
    out += [B.burst_case(n, 'D', T) for T in B.TIMEOUTS for n in (2, 65, 257, 513)]
    if tier != 'quick':
        out.insert(min(len(out), 3000), B.burst_case(1500, 'D'))
    return out


PROFILE = dict(p_fail=0.3, p_wait=0.08, p_settle=0.6, max_subs=10, max=30,
               subs='SSSSSLLIJEZD', waits='wwwW', advs='zhmmmppPt')
PROFILE_MIXED = dict(p_fail=0.3, p_wait=0.1, p_settle=0.6, max_subs=8)


def gen_random(tier, seed):
    rnd = random.Random(seed * 7919 + 8)
    n = 3000 if tier == 'quick' else 60000
    return ([B.rand_case(rnd, PROFILE) for _ in range(n)] +
            [B.rand_case(rnd, PROFILE_MIXED) for _ in range(n // 3)])


def gen_search(tier, seed):
    rnd = random.Random(seed * 104729 + 808)
    return [B.rand_case(rnd, PROFILE) for _ in range(8000)] + B.word_cases(ALPHA, 6)[:20000]

RULE = ('cases = (timeout T in {8,100,1024} ticks, list of external events) run against the real '
        'aiuti.asyncio.BufferAsyncCalls under the virtual-time loop: Submit (plain call / map of a list / map of an '
        'iterator incl. failing part-way / await_ / amap with scripted yields, failure, end), Advance dt, '
        'wait(cancel=True/False), FnOk / FnFail (the harness-owned buffered function parks until told; it is handed over as a bound method, a callable object without __name__/__qualname__ or a functools.partial, and FnFail makes it raise an ordinary Exception or asyncio.CancelledError of its own — chosen per case by a checksum of the event list, alternating by call number in half of the cases), Shutdown; '
        'observation per event = every FnStart (copy of the set, tick), FnEnd (ok, set re-read), WaitRet, DaemonEnded. '
        'corpus: named debounce scenarios and 1..7 consecutive failed calls followed by the bare retry / a newcomer / a burst of two '
        '(42 words) x 3 timeouts; exhaustive layer: every word of <=5 (quick) / <=6 (thorough) letters over '
        '{plain, list, empty list, Advance T-1 / T+1 / 2T+1, FnOk, FnFail, wait(cancel=False)} + the arrival grid '
        '(<=4 / <=5 submissions, gaps {0,T-1,T+1,2T+1}, 7 response modes of the function incl. durations 0 / <T / >T and '
        'fail-then-ok, 3 timeouts; again with <=3 / <=4 submissions and the function failing two / three times in a row); random layer: programs up to 30 events incl. exact-tie gaps (T), iterators, duplicates, '
        'awaitables and async iterables.  Bursts of n plain calls in ONE loop pass (n = 2..513 exhaustive layer, one of ~1100 in the corpus, 1500 in thorough); async producers are async generators or class-based async iterators without aclose (by checksum of the event list).  Every program without Shutdown ends with the settle tail [FnOk; Advance T+1; FnOk].  '
        'non-trivial = at least one call started, at least two submissions, no exact timer tie (decided by '
        'Case_C08.nontrivial inside Coq); distinct = distinct (case, trace) pairs among those')
EXHAUSTIVE_NOTE = ('all event words up to length 5 (quick) / 6 (thorough) over the 9-letter C08 alphabet at T=8, and the full '
                   'arrival-gap grid for up to 4 / 5 submissions at T in {8,100,1024}')
ASSUMPTIONS = ['single event loop, cooperative: between two quiescent points nothing external happens except the scripted event '
               '(macro-step model, DESIGN §4); user code reacting inside the same loop iteration is outside the model',
               'time is virtual: integer ticks of 2^-10 s, a timer fires when now >= deadline; exact ties between a '
               'submission and the timer are run but not judged (counted as ties)',
               'the sync-iterator helper thread of map() (to_async_iter, property C16) is collapsed to "immediately available"']
TRUSTED = ['harness/buffer_drv.py + harness/vloop.py (virtual-time driver of the real BufferAsyncCalls) and '
           'coq/theories/Case_Buffer.v, Case_C08.v (agree / ok)',
           'modelled, not verified: asyncio.Queue (put_nowait/get/get_nowait/task_done/join), asyncio.Event, wait_for, gather, '
           'Task.cancel/cancelling, call_soon_threadsafe FIFO, async generators']
LEVEL_TEXT = ('BufferAsyncCalls is modelled step for step as an executable macro-step machine (coq/theories/Buffer.v: daemon '
              'stages idle / gathering / timed read armed / loading one / function running, queue, join counter, event, waiters). '
              'props/C08.v proves for ALL event lists (any producers, failures, waits, shutdown, foreign puts): serial_nonempty '
              '(no call starts before the previous one ended, no empty set, consecutive call numbers; '
              'serial_monitor_accepts_model is the same as acceptance by the monitor automaton), call_start_cause (a call starts only '
              'when the quiet timer fired >= timeout after the latest submission, or a wait(cancel=True) forced it, or a slow producer '
              'had kept the daemon waiting), armed_deadline_bounds; for all histories of immediately available producers: not_early; '
              'and from EVERY reachable idle state: debounce_single_call_at_timeout (a burst with gaps < timeout causes no call '
              'while it lasts and exactly one call, with the whole burst, exactly timeout after the last arrival).  Tied to /repo '
              'by running the real class under a virtual-time loop on the enumerated / random event lists and comparing every '
              'observation with the model inside Coq (vm_compute); the monitor Case_C08.ok re-decides serial / non-empty / '
              'not-early / exact-burst / not-late (a call that is not a forced flush starts at most one timeout after the later of the latest '
              'submission and the end of the previous call: the retry after any number of failed calls, and a burst arriving after failed '
              'calls, wait ONE timeout) / daemon-ends-only-by-Shutdown on the implementation trace.  monitor_complete: for EVERY timeout and event list the whole '
              'monitor (serial part and timed walk) accepts the model\'s own trace, so a rejection always means the '
              'implementation differs from the model; serial_monitor_sound: acceptance by the serial part implies the readable '
              'statement on any observed trace.')
LEVEL_NOTE = ('trusted: Coq kernel + vm_compute; no axioms (Print Assumptions: closed under the global context); asyncio primitives '
              'are modelled and validated only by the correspondence runs; harness/buffer_drv.py, harness/vloop.py; '
              'coq/theories/Case_Buffer.v, Case_C08.v.  The forced-flush and kept-waiting disjuncts of call_start_cause are stated '
              'on model state (waiters / daemon stage), with Examples showing each is needed.')
TECHNIQUE = ('Coq proof (inductive invariants over event lists: serial automaton, join counter, timer deadline bounds, '
             'burst induction) + differential correspondence under a virtual-time event loop evaluated by vm_compute')
