"""C08 — debounce: one non-overlapping, non-empty call per quiet period (aiuti/asyncio.py BufferAsyncCalls / buffer_until_timeout).
Thin module: driver, Coq literals, shrinking and generator building blocks are
shared with the other two buffer properties in harness/buffer_drv.py."""
from __future__ import annotations
import random

from .. import buffer_drv as B

PROP = 'C08'
READY = False
PROPS_MODULE = 'C08'
MODEL_TARGETS = ['theories/Case_C08.vo']
HEADER = B.HEADER + '\nRequire Import Aiuti.Case_C08.'
CASE_TYPE = 'Case_C08.case'
VERDICT = 'Case_C08.verdict'
PARALLEL = 16
CHUNK = 400
ALLOWED_AXIOMS = []

run_impl = B.run_case
to_coq = B.to_coq
error_obs = B.error_obs
explain_exprs = B.explain_exprs
shrink_candidates = B.shrink_candidates
distribution = B.distribution

ALPHA = 'SLEmpPKFw'           # plain, sync list, empty list, Advance T-1 / T+1 / 2T+1, FnOk, FnFail, wait(cancel=False)


def corpus():
    W = ['SmSmSmSpK', 'SzSzSpK',          # one burst, one call, timeout after the last arrival
         'SpKSpK', 'SPKSmSpK',            # two quiet periods, two calls
         'SpSmKpK', 'SpSpKpK',            # arrivals while the function runs go to the next call
         'SpFmSpK', 'SpFpK',              # failure: retry a timeout later, with the newcomers
         'EpSpK', 'EmSpK', 'Ep',          # empty producers never cause a call
         'StK', 'SmStK', 'SmSt',          # exact ties (run, not judged)
         'SmWK', 'SpSWK']                 # forced flush
    return [c for c in (B.letters_case(T, w) for T in B.TIMEOUTS for w in W) if c]


def gen_exhaustive(tier, seed):
    out = B.word_cases(ALPHA, 5 if tier == 'quick' else 6)
    out += B.grid_cases(max_subs=4 if tier == 'quick' else 5, kinds='SLSI')
    return out


PROFILE = dict(p_fail=0.3, p_wait=0.08, p_settle=0.6, max_subs=10, max=30,
               subs='SSSSSLLIJEZD', waits='wwwW', advs='zhmmmppPt')
PROFILE_MIXED = dict(p_fail=0.3, p_wait=0.1, p_settle=0.6, max_subs=8)


def gen_random(tier, seed):
    rnd = random.Random(seed * 7919 + 8)
    n = 3000 if tier == 'quick' else 60000
    return ([B.rand_case(rnd, PROFILE) for _ in range(n)] +
            [B.rand_case(rnd, PROFILE_MIXED) for _ in range(n // 3)])


def gen_search(tier, seed):
    rnd = random.Random(seed * 104729 + 808)
    return [B.rand_case(rnd, PROFILE) for _ in range(8000)] + B.word_cases(ALPHA, 6)[:20000]

RULE = ''
EXHAUSTIVE_NOTE = ''
ASSUMPTIONS = []
TRUSTED = []
LEVEL_TEXT = ''
LEVEL_NOTE = ''
TECHNIQUE = ''
