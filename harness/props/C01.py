"""C01 — threadsafe_async_cache (aiuti/asyncio.py l.289-499); driver harness/cache_drv.py,
generators harness/cache_gen.py, model coq/theories/Cache.v, monitor coq/theories/CacheMon.v."""
from __future__ import annotations

from .. import cache_drv as D
from .. import cache_gen as G

PROP = 'C01'
READY = True
PROPS_MODULE = 'C01'
MODEL_TARGETS = ['theories/Case_C01.vo']
HEADER = G.HEADER.format(case_mod='Aiuti.Case_C01')
CASE_TYPE = 'Case_Cache.case'
VERDICT = 'Case_C01.verdict'
PARALLEL = 16
CHUNK = 150
TASKS_PER_CHILD = 200
RULE = G.RULE
EXHAUSTIVE_NOTE = G.EXHAUSTIVE_NOTE
ASSUMPTIONS = G.ASSUMPTIONS
TRUSTED = G.TRUSTED
ALLOWED_AXIOMS = []
LEVEL_TEXT = ('proof (full on the model): single_flight, no_reinvoke_after_success, success_unique for all event lists '
              'accepted by the model Cache.step (inductive invariants CacheInv.Inv, CacheInv2.Inv2), and ok_C01_sound(_prefix): '
              'every accepted trace satisfies the trace monitor; ok_C01_implies_no_overlap / _no_reinvoke / _ret_is_success: an accepted '
              'trace (of the model OR of the implementation) satisfies the property read on the trace alone; '
              'single_flight_refuted_without_fix1 documents defect F1; seq_run_accepted / seq_call_refines_keys(_default) tie the model to '
              'C14\'s sequential Keys.v; model tied to the code by differential correspondence')
LEVEL_NOTE = ('All five theorems closed under the global context; any number of loops / callers / keys / steps.  "In progress '
              'on running loops" is the model status IActive (an invocation left pending on a stopped loop is IAband from that '
              'moment, as the property says); the retaining cache mapping is the model having no eviction event (eviction is '
              'C14).  The converse theorems (CacheMonSpec.v) are about the monitor alone, so "the monitor accepted the '
              'implementation\'s trace" implies the property on that trace without going through the model.')
TECHNIQUE = G.TECHNIQUE

corpus = G.corpus
gen_exhaustive = G.gen_exhaustive
gen_random = G.gen_random
gen_search = G.gen_search
run_impl = D.run_impl
error_obs = G.error_obs
to_coq = G.to_coq
explain_exprs = G.explain_exprs
shrink_candidates = G.shrink_candidates
distribution = G.distribution
