"""C16 — sync/async iterator bridges to_async_iter / to_sync_iter (aiuti/asyncio.py:146-266).
Driver module: the REAL functions run under gated threads (harness/c16_drv.py); the Coq model
(coq/theories/Bridge.v) is driven by the same thread choices inside Case_C16.agree."""
from __future__ import annotations

import random

from .. import common as C
from .. import c16_drv as D
from .. import c16_gen as GN

PROP = 'C16'
READY = True
PROPS_MODULE = 'C16'
MODEL_TARGETS = ['theories/Case_C16.vo']
HEADER = ('From Coq Require Import List. Import ListNotations.\n'
          'Require Import Aiuti.Bridge Aiuti.Case_C16.')
CASE_TYPE = 'Case_C16.pcase'
VERDICT = 'Case_C16.verdict'
PARALLEL = 16
CHUNK = 300
TASKS_PER_CHILD = 400
CLEAN_FOR_THOROUGH = ['theories/Bridge.vo', 'theories/BridgeInv.vo', 'theories/BridgeLive.vo', 'theories/BridgeMon.vo',
                      'theories/Case_C16.vo']

ASYNC_THREADED = ['iterator', 'generator']
ASYNC_INLINE = ['list', 'range', 'iterable']
SYNC_KINDS = ['aiter', 'aiterable', 'agen']
NONITER = set(ASYNC_INLINE)

GATE = {('c', 'start'): 0, ('w', 'start'): 0, ('c', 'sleep'): 1, ('w', 'sleep'): 1, ('w', 'idle'): 1,
        ('w', 'cst'): 2, ('w', 'put'): 2, ('w', 'fin'): 3, ('c', 'idle'): 4, ('c', 'q.get'): 5,
        ('c', 'fut.result'): 6, ('c', 'pool.shutdown'): 7}
RES = {'ok': 0, 'deadlock': 1, 'steps': 2, 'error': 3}


def mk(fn, src, xs, fail=None, dur=(), sched=None, ekind=0, wloop=None, **kw):
    c = dict(fn=fn, src=src, xs=list(xs), fail=fail, ekind=ekind, dur=list(dur), wloop=wloop)
    if sched is not None:
        c['sched'] = list(sched)
    c.update(kw)
    return c


# --------------------------------------------------------------------------
# running the implementation
# --------------------------------------------------------------------------

def run_impl(case):
    if case.get('kind') == 'pair':
        return D.run_gated_pair(case)
    return D.run_gated(case)


def _err_single(msg):
    return dict(result='error', trace=[], consumed=[], outcome=None, joined=False, threads_left=0,
                nworkers=0, pulls_on=[], ticks=0, parks=[], errors=[msg])


def error_obs(case, o):
    msg = o.get('harness_error', '')
    if case.get('kind') == 'pair':
        return dict(result='error', trace=[], subs=[_err_single(msg), _err_single(msg)], threads_left=0, errors=[msg])
    return _err_single(msg)


def _cfg(case):
    fn = 'FAsync' if case['fn'] == 'a' else 'FSync'
    nonit = case['src'] in NONITER
    fail = C.coq_opt(case.get('fail'), C.coq_nat)
    return f"(mkCfg {fn} {C.coq_bool(nonit)} {C.coq_list([C.coq_nat(x) for x in case['xs']])} {fail} 1)"


def _who(n):
    return {'c': 'Wc', 'w': 'Ww'}.get(n, 'Wother')


def _out(o):
    if o is None:
        return 'None'
    if o[0] == 'stop':
        return '(Some Stop)'
    return f'(Some (Raised {C.coq_nat(o[1])}))'


def _pull_thread(p):
    return {(): 0, ('w',): 1, ('c',): 2}.get(tuple(p), 3)


def _final_lit(case, o, nlines):
    parks = C.coq_list([f'({C.coq_nat(d)}, {C.coq_nat(t)})' for d, t in o['parks']])
    return (f"CaseL {_cfg(case)} {C.coq_bool(case['src'] == 'iterable')} {C.coq_nat(min(4000, nlines))} "
            f"{RES.get(o['result'], 3)} "
            f"{C.coq_list([C.coq_nat(x) for x in o['consumed']])} {_out(o['outcome'])} "
            f"{C.coq_bool(o['joined'])} {C.coq_nat(o['threads_left'])} {C.coq_nat(o['nworkers'])} "
            f"{_pull_thread(o['pulls_on'])} {parks}")


def _single_lit(case, o):
    if case.get('lines'):
        return _final_lit(case, o, sum(1 for t in o['trace'] if t[1] == 'line'))
    tr = []
    for n, op, cons, en, due in o['trace']:
        tr.append(f"Dc {_who(n)} {GATE.get((n, op), 9)} {C.coq_nat(cons)} {C.coq_bool('c' in en)} "
                  f"{C.coq_bool('w' in en)} {C.coq_bool('c' in due)} {C.coq_bool('w' in due)}")
    limit = sum(case.get('dur') or []) + 6
    parks = C.coq_list([f'({C.coq_nat(d)}, {C.coq_nat(t)})' for d, t in o['parks']])
    return (f"Case {_cfg(case)} {C.coq_bool(case['src'] == 'iterable')} {C.coq_nat(limit)} "
            f"{C.coq_list(tr)} {RES.get(o['result'], 3)} "
            f"{C.coq_list([C.coq_nat(x) for x in o['consumed']])} {_out(o['outcome'])} "
            f"{C.coq_bool(o['joined'])} {C.coq_nat(o['threads_left'])} {C.coq_nat(o['nworkers'])} "
            f"{_pull_thread(o['pulls_on'])} {C.coq_nat(o['ticks'])} {parks}")


def to_coq(case, o):
    if case.get('kind') == 'pair':
        n = len(o['trace'])
        a, b = [dict(sc, fn=case['fn']) for sc in case['subs']]
        return f"Two ({_final_lit(a, o['subs'][0], n)}) ({_final_lit(b, o['subs'][1], n)})"
    return f"One ({_single_lit(case, o)})"


def explain_exprs(case, o):
    if case.get('kind') == 'pair':
        out = []
        for sc in case['subs']:
            cf = _cfg(dict(sc, fn=case['fn']))
            out.append(f"let s := run {cf} (canon {cf}) in (Bridge.consumed s, cst s, worker_alive s)")
        lit = to_coq(case, o)
        return out + [f"(agree_p ({lit}), ok_p ({lit}))"]
    lit = _single_lit(case, o)
    if case.get('lines'):
        return [f"let s := run {_cfg(case)} (canon {_cfg(case)}) in (Bridge.consumed s, cst s, worker_alive s)",
                f"(agree ({lit}), ok ({lit}))"]
    return [f"match {lit} with Case c gated limit tr _ _ _ _ _ _ _ _ _ => "
            f"let '(g, s) := replay c gated limit (init c) tr in "
            f"(g, Bridge.consumed s, cst s, wp s, worker_alive s, ticks s) end",
            f"(agree ({lit}), ok ({lit}))"]


def signature(case, o):
    return None


# --------------------------------------------------------------------------
# generators
# --------------------------------------------------------------------------

def corpus():
    out = [
        # producer finishes before the first read / lock-step / consumer first
        mk('a', 'iterator', [3, 1, 0], None, [], sched=['c', 'w', 'w', 'w', 'w', 'w', 'w', 'w', 'w', 'w', 'w', 'w']),
        mk('a', 'generator', [3, 1, 0], None, [], sched=['c', 'w', 'w', 'w', 'c', 'w', 'w', 'c', 'w', 'w', 'c']),
        # falsy / None / equal-to-everything / exception-instance elements, duplicates
        mk('a', 'iterator', [0, 1, 2, 5, 4, 0], None, []),
        mk('s', 'agen', [0, 1, 2, 5, 4, 0], None, []),
        mk('s', 'aiter', [4, 4], None, [], sched=['c', 'w', 'w', 'w', 'c']),          # seeded C16-m2: element is an exception instance
        mk('s', 'agen', [4, 3], 2, []),
        # seeded C16-m1: source fails after >= 1 element, producer completely finished before the consumer resumes
        mk('a', 'generator', [3, 1, 0], 3, [], sched=['c'] + ['w'] * 12),
        mk('a', 'iterator', [3, 1], 2, [], sched=['c', 'w', 'w', 'w', 'c'] + ['w'] * 8),
        mk('a', 'iterator', [3, 1, 0], 3, [], sched=['c', 'w', 'w', 'w', 'c', 'w', 'w', 'c', 'w', 'w', 'c']),  # lock-step
        # failure at position 0, BaseException-only failure
        mk('a', 'iterator', [1], 0, []),
        mk('s', 'aiterable', [1, 2], 1, [], ekind=1),
        mk('a', 'generator', [1, 2], 2, [], ekind=1),
        # seeded C16-m10: the source itself raises a RuntimeError subclass / NotImplementedError / RecursionError /
        # RuntimeError / queue.Empty / InvalidStateError: the consumer must get THAT object
        mk('a', 'iterator', [3, 1], 2, [], ekind=2),
        mk('a', 'generator', [3], 1, [], ekind=3, sched=['c'] + ['w'] * 10),
        mk('a', 'iterator', [], 0, [2], ekind=4),
        mk('a', 'generator', [3, 1], 1, [], ekind=5),
        mk('s', 'agen', [3, 1], 2, [], ekind=2),
        mk('s', 'aiter', [3], 1, [1, 0], ekind=3),
        mk('s', 'aiterable', [3], 0, [], ekind=10),
        mk('s', 'agen', [3, 1], 1, [], ekind=11, wloop='gv'),
        mk('a', 'iterable', [2], 1, [], ekind=2),
        # slow producer with the ticker running (loop must not be blocked)
        mk('a', 'iterator', [1, 2], None, [3, 2, 4]),
        mk('a', 'generator', [1, 2], 1, [0, 5]),
        mk('s', 'agen', [1, 2], None, [3, 0, 2], wloop='gv'),
        mk('s', 'aiter', [1, 2], 1, [2, 2]),
        # inline branch
        mk('a', 'list', [0, 1, 5, 0], None, []),
        mk('a', 'range', [0, 1, 2], None, []),
        mk('a', 'iterable', [2, 2], 2, [2, 1, 3]),
        mk('a', 'iterable', [], None, [0]),
        # two bridges alive at once (seeded C16-m8: a shared worker loop breaks the second one)
        dict(kind='pair', fn='s', subs=[dict(src='agen', xs=[3, 1], fail=None, ekind=0, dur=[0, 3, 0], wloop=None),
                                        dict(src='agen', xs=[4, 5], fail=2, ekind=0, dur=[0, 0, 0], wloop=None)],
             sched=['c', 'w', 'w', 'w', 'd', 'x', 'x', 'x', 'x', 'x', 'x', 'x', 'd', 'd', 'd', 'd']),
        dict(kind='pair', fn='a', subs=[dict(src='iterator', xs=[3, 1], fail=2, ekind=0, dur=[0, 2, 0], wloop=None),
                                        dict(src='generator', xs=[0, 5, 4], fail=None, ekind=0, dur=[], wloop=None)],
             rseed=7, stay=0.5),
        # empty sources
        mk('a', 'iterator', [], None, []),
        mk('s', 'agen', [], 0, []),
        mk('s', 'agen', [3], 1, [], ekind=EK_TIMEOUT),          # to_sync_iter keeps the identity of a TimeoutError
        mk('a', 'iterable', [3], 1, [], ekind=EK_TIMEOUT),      # ... and so does the inline branch
        # fix F10 (23b50d7): classes that asyncio.wrap_future would re-instantiate must arrive as the same object
        mk('a', 'iterator', [3], 1, [], ekind=EK_TIMEOUT),
        mk('a', 'generator', [], 0, [], ekind=EK_TIMEOUT, sched=['c'] + ['w'] * 8),
        mk('a', 'generator', [3, 1], 2, [0, 2, 0], ekind=14),
        mk('a', 'iterator', [3], 0, [], ekind=15),
        mk('s', 'aiter', [3], 1, [], ekind=14),
        mk('s', 'agen', [], 0, [], ekind=15),
    ]
    return out


DUR_PATTERNS_Q = [[], [2, 2, 2, 2, 2], [0, 3, 0, 2, 0]]
EK_TIMEOUT = 7
EK_CONVERTED = [7, 14, 15]      # exact TimeoutError, concurrent.futures.CancelledError / InvalidStateError
EKIND_ROT = [0, 2, 7, 3, 1]


def _bases(nmax, durs):
    vals = [5, 0, 4, 0]           # AlwaysEq, None, an exception instance, a duplicate
    out = []
    for n in range(0, nmax + 1):
        for fail in [None] + list(range(n + 1)):
            for di, dur in enumerate(durs):
                # exception class of the failure rotates with the duration pattern: Exception subclass,
                # RuntimeError subclass, exact TimeoutError, (thorough) NotImplementedError, BaseException-only
                ek = EKIND_ROT[di % len(EKIND_ROT)] if fail is not None else 0
                for kind in ASYNC_THREADED:
                    out.append(mk('a', kind, vals[:n], fail, dur[:n + 1], ekind=ek))
                for ki, kind in enumerate(SYNC_KINDS):
                    out.append(mk('s', kind, vals[:n], fail, dur[:n + 1], ekind=ek,
                                  wloop='gv' if (n + ki + di) % 2 else None))
                if fail is None:
                    out.append(mk('a', 'list', vals[:n], None, []))
                    out.append(mk('a', 'range', list(range(n)), None, []))
                out.append(mk('a', 'iterable', vals[:n], fail, dur[:n + 1], ekind=ek))
    return out


def gen_exhaustive(tier, seed):
    nmax = 3 if tier == 'quick' else 4
    durs = DUR_PATTERNS_Q if tier == 'quick' else DUR_PATTERNS_Q + [[1, 0, 1, 0, 1], [4, 0, 0, 0, 0]]
    out = []
    seen = set()
    for b in _bases(nmax, durs):
        key = repr(sorted(b.items(), key=lambda kv: kv[0]))
        if key in seen:
            continue
        seen.add(key)
        for s in GN.explore(b, limit=4000):
            out.append(dict(b, sched=s))
    return out


def _rand_ekind(rnd):
    r = rnd.random()
    if r < 0.4:
        return 0
    if r < 0.5:
        return 1
    if r < 0.75:
        return rnd.choice([2, 3, 4, 5])
    if r < 0.9:
        return rnd.choice(EK_CONVERTED)
    return rnd.randrange(6, D.NEKINDS)


def _rand_case(rnd, nmax=6):
    fn = rnd.choice('aas')
    if fn == 'a':
        kind = rnd.choice(ASYNC_THREADED * 4 + ASYNC_INLINE)
    else:
        kind = rnd.choice(SYNC_KINDS)
    n = rnd.randint(0, nmax)
    if kind == 'range':
        xs = list(range(n))
    else:
        pool = rnd.choice([list(range(D.NVALUES)), [0, 1, 2, 4, 5], [5, 4], [0]])
        xs = [rnd.choice(pool) for _ in range(n)]
    fail = None
    if kind not in ('list', 'range') and rnd.random() < 0.5:
        fail = rnd.randint(0, n)
    grid = rnd.choice([[0], [0, 0, 1, 2], [0, 1, 2, 3, 5], [2, 3, 4]])
    dur = [rnd.choice(grid) for _ in range(n + 1)] if kind not in ('list', 'range') else []
    return mk(fn, kind, xs, fail, dur, ekind=_rand_ekind(rnd),
              wloop='gv' if fn == 's' and rnd.random() < 0.5 else None,
              rseed=rnd.randrange(1 << 30), stay=rnd.choice([0.0, 0.3, 0.6, 0.85]))


def _line_case(rnd, nmax=4):
    """source-line granularity: every line of the bridge functions is a scheduling point"""
    c = _rand_case(rnd, nmax)
    if c['src'] in ('list', 'range'):
        c['src'] = 'iterator'
    if c['fn'] == 'a' and rnd.random() < 0.35:          # both bridges about equally often
        c['fn'], c['src'] = 's', rnd.choice(SYNC_KINDS)
        c['wloop'] = rnd.choice([None, 'gv'])
    # mostly fast producers (so that both threads are runnable and lines really interleave)
    if rnd.random() < 0.6:
        c['dur'] = [0] * len(c['dur'])
    c['lines'] = True
    c['stay'] = rnd.choice([0.3, 0.6, 0.85, 0.95])
    return c


def _pair_case(rnd, nmax=3):
    """two bridges of the same function alive at the same time"""
    fn = rnd.choice('ssa')
    subs = []
    for _ in range(2):
        kind = rnd.choice(SYNC_KINDS if fn == 's' else ASYNC_THREADED)
        n = rnd.randint(0, nmax)
        xs = [rnd.choice([0, 1, 2, 3, 4, 5]) for _ in range(n)]
        fail = rnd.randint(0, n) if rnd.random() < 0.4 else None
        grid = rnd.choice([[0], [0, 0, 1, 2], [0, 2, 4]])
        subs.append(dict(src=kind, xs=xs, fail=fail, ekind=_rand_ekind(rnd) if fail is not None else 0, dur=[rnd.choice(grid) for _ in range(n + 1)],
                         wloop=None))
    return dict(kind='pair', fn=fn, subs=subs, rseed=rnd.randrange(1 << 30),
                stay=rnd.choice([0.0, 0.3, 0.6, 0.85]), lines=rnd.random() < 0.25)


def gen_random(tier, seed):
    rnd = random.Random(seed * 7919 + 16)
    n = 1500 if tier == 'quick' else 30000
    out = [_rand_case(rnd) for _ in range(n)]
    rnd2 = random.Random(seed * 6007 + 1616)
    out += [_line_case(rnd2) for _ in range(800 if tier == 'quick' else 12000)]
    rnd3 = random.Random(seed * 4001 + 161616)
    out += [_pair_case(rnd3) for _ in range(400 if tier == 'quick' else 6000)]
    return out


def gen_search(tier, seed):
    rnd = random.Random(seed * 104729 + 1601)
    out = []
    for b in _bases(3, [[], [3, 3, 3, 3]]):
        for s in GN.explore(b, limit=300):
            out.append(dict(b, sched=s))
    out += [_rand_case(rnd, 7) for _ in range(3000)]
    out += [_line_case(rnd, 3) for _ in range(4000)]
    out += [_pair_case(rnd, 3) for _ in range(1500)]
    return out


def _shrink_pair(case):
    if case.get('sched') is None:
        o = D.run_gated_pair(case)
        c2 = {k: v for k, v in case.items() if k not in ('rseed', 'stay')}
        c2['sched'] = [t[0] for t in o['trace']]
        return [c2]
    out = []
    for bi in (0, 1):
        sc = case['subs'][bi]
        for i in range(len(sc['xs'])):
            nf = sc['fail']
            if nf is not None and nf > i:
                nf -= 1
            d = list(sc['dur'])
            if i < len(d):
                d = d[:i] + d[i + 1:]
            subs = list(case['subs'])
            subs[bi] = dict(sc, xs=sc['xs'][:i] + sc['xs'][i + 1:], fail=nf, dur=d)
            out.append(dict(case, subs=subs))
        if sc['fail'] is not None:
            subs = list(case['subs'])
            subs[bi] = dict(sc, fail=None)
            out.append(dict(case, subs=subs))
        if any(sc['dur']):
            subs = list(case['subs'])
            subs[bi] = dict(sc, dur=[0] * len(sc['dur']))
            out.append(dict(case, subs=subs))
    sched = case['sched']
    for k in (len(sched) // 2, len(sched) - 1):
        if k >= 0:
            out.append(dict(case, sched=sched[:k]))
    if case.get('lines'):
        out.append(dict(case, lines=False))
    return [c for c in out if c != case]


def shrink_candidates(case):
    if case.get('kind') == 'pair':
        return _shrink_pair(case)
    out = []
    xs = case['xs']
    fail = case.get('fail')
    sched = case.get('sched')
    if sched is None and 'rseed' in case:
        # fix the realised schedule first
        o = D.run_gated(case)
        c2 = {k: v for k, v in case.items() if k not in ('rseed', 'stay')}
        c2['sched'] = [t[0] for t in o['trace']]
        return [c2]
    for i in range(len(xs)):
        if case['src'] == 'range':
            break
        nf = fail
        if fail is not None and fail > i:
            nf = fail - 1
        d = list(case.get('dur') or [])
        if i < len(d):
            d = d[:i] + d[i + 1:]
        out.append(dict(case, xs=xs[:i] + xs[i + 1:], fail=nf, dur=d))
    if case['src'] == 'range' and xs:
        out.append(dict(case, xs=xs[:-1], fail=None))
    if any(case.get('dur') or []):
        out.append(dict(case, dur=[0] * len(case['dur'])))
        out.append(dict(case, dur=[min(x, 2) for x in case['dur']]))
    if sched:
        for k in (len(sched) // 2, len(sched) - 1):
            out.append(dict(case, sched=sched[:k]))
    if case.get('ekind'):
        out.append(dict(case, ekind=0))
    if case.get('wloop'):
        out.append(dict(case, wloop=None))
    for i, x in enumerate(xs):
        if case['src'] != 'range' and x not in (3,):
            out.append(dict(case, xs=xs[:i] + [3] + xs[i + 1:]))
    return [c for c in out if c != case]


def distribution(cases, obs):
    d = dict(runtime_error_family=0, other_exception_classes=0, to_async_iter=0, to_sync_iter=0, inline=0, threaded=0, with_failure=0, fail_at_0=0, base_exception=0,
             explicit_schedule=0, random_schedule=0, with_durations=0, worker_loop_gated=0,
             line_level=0, line_decisions=0, decisions=0, consumer_steps=0, worker_steps=0, elements=0, special_elements=0,
             outcome_stop=0, outcome_raised=0, max_len=0, parks_with_ticks=0)
    for k in ASYNC_THREADED + ASYNC_INLINE + SYNC_KINDS:
        d['src_' + k] = 0
    d['pairs'] = d['pairs_sync'] = d['pairs_async'] = d['pair_decisions'] = 0
    for c, o in zip(cases, obs):
        if c.get('kind') == 'pair':
            d['pairs'] += 1
            d['pairs_sync' if c['fn'] == 's' else 'pairs_async'] += 1
            d['line_level'] += bool(c.get('lines'))
            if isinstance(o, dict) and 'trace' in o:
                d['pair_decisions'] += len(o['trace'])
            continue
        d['to_async_iter' if c['fn'] == 'a' else 'to_sync_iter'] += 1
        d['src_' + c['src']] += 1
        d['inline' if (c['fn'] == 'a' and c['src'] in NONITER) else 'threaded'] += 1
        d['line_level'] += bool(c.get('lines'))
        d['with_failure'] += c.get('fail') is not None
        d['fail_at_0'] += c.get('fail') == 0
        d['base_exception'] += c.get('ekind') == 1
        d['runtime_error_family'] += c.get('fail') is not None and c.get('ekind') in (2, 3, 4, 5)
        d['other_exception_classes'] += c.get('fail') is not None and (c.get('ekind') or 0) >= 6
        d['explicit_schedule' if c.get('sched') is not None else 'random_schedule'] += 1
        d['with_durations'] += any(c.get('dur') or [])
        d['worker_loop_gated'] += c.get('wloop') == 'gv'
        d['elements'] += len(c['xs'])
        d['special_elements'] += sum(1 for x in c['xs'] if x in (0, 1, 2, 4, 5, 6, 7, 8, 9))
        d['max_len'] = max(d['max_len'], len(c['xs']))
        if isinstance(o, dict) and 'trace' in o:
            d['decisions'] += len(o['trace'])
            d['line_decisions'] += sum(1 for t in o['trace'] if t[1] == 'line')
            d['consumer_steps'] += sum(1 for t in o['trace'] if t[0] == 'c')
            d['worker_steps'] += sum(1 for t in o['trace'] if t[0] == 'w')
            if o.get('outcome'):
                d['outcome_stop' if o['outcome'][0] == 'stop' else 'outcome_raised'] += 1
            d['parks_with_ticks'] += sum(1 for p in o.get('parks', []) if p[1] > 0)
    return d


RULE = ('case = (bridge function, source kind, element identities, failure position or none, exception class of the failure (Exception / BaseException-only / RuntimeError subclass / '
        'NotImplementedError / RecursionError / RuntimeError / OSError / TimeoutError / KeyError / ValueError / queue.Empty / '
        'InvalidStateError / AttributeError / TypeError / concurrent.futures.CancelledError / InvalidStateError; the consumer must receive the same object), '
        'virtual duration of every pull, schedule = thread chosen at every gate) run on the real '
        'to_async_iter / to_sync_iter with the producer worker and the consumer as gated threads and a ticker task on '
        'the consuming loop; exhaustive layer: every schedule of the implementation\'s own decision tree for sources of '
        'length 0..3 (4 thorough) x every failure position x all source kinds x duration patterns; random layer: '
        'length 0..6, elements from None/0/\'\'/False/()/0.0/duplicates/an equal-to-everything object/an exception '
        'instance/a falsy object, durations from a grid, random schedules; line-level layer (part of the random '
        'layer): random schedules at SOURCE-LINE granularity (sys.settrace makes every line of to_async_iter / '
        'to_sync_iter and their nested functions a scheduling point of its thread; a timed Queue.get may also expire '
        'early, at most twice per run), compared with the model on the schedule-independent final observation only.  '
        'non-trivial (decided in Coq) = threaded bridge, non-empty source, the consumer ran between two worker steps '
        '(line-level: at least 4 line-level decisions); pair layer (part of the random layer): two bridges of the same '
        'function alive at the same time (two consumer threads / two consumer tasks on one loop, one schedule), each '
        'bridge judged separately by agree (final observation) and ok')
EXHAUSTIVE_NOTE = ('all schedules (stateless DFS over the controller\'s enabled sets) for every source of length <= 3 '
                   '(quick) / <= 4 (thorough), every failure position, every source kind')
ASSUMPTIONS = [
    'asyncio.Queue / queue.Queue are FIFO; loop.call_soon_threadsafe runs callbacks in FIFO order; '
    'concurrent.futures.Future / asyncio.wrap_future complete once; ThreadPoolExecutor(1) runs the one job on one '
    'worker and shutdown(wait=True) returns only after that worker ended (modelled primitives, exercised by the '
    'correspondence, not verified)',
    'code between two gates (source __next__/__anext__, call_soon_threadsafe / Queue.put, completing the executor '
    'future, loop idle point, Queue.get, Future.result, pool.shutdown) touches only thread-local state, so scheduling '
    'at gates is as general as scheduling at source lines',
    'virtual time: the ticker observation (ticks while the worker is parked inside the source) is in virtual ticks of the '
    'gated controller, which advances time only when no thread is enabled; the untimed model proves Tick-enabledness '
    '(loop_not_blocked / never_starved), the tick counts themselves are checked by the monitor only',
    'the inline branch for non-Iterator iterables (asyncio.py:180-183) blocks the loop by design; the property\'s '
    '"does not block the event loop" is claimed for Iterator arguments only (Example inline_blocks)',
]
TRUSTED = ['harness/gate.py, harness/c16_drv.py (gated executor / loop / queue shims, BCtl), harness/c16_gen.py, '
           'harness/props/C16.py, coq/theories/Case_C16.v (agree / ok)',
           'modelled, not verified: asyncio.Queue, queue.Queue, loop.call_soon_threadsafe, run_in_executor/wrap_future, '
           'concurrent.futures.Future, ThreadPoolExecutor(1), async generators / async for']
ALLOWED_AXIOMS = []
LEVEL_TEXT = ('Both bridges are modelled as one small-step two-party machine (coq/theories/Bridge.v: worker pc at every gate, '
              'the loop\'s thread-safe ready queue, the hand-off queue with a distinct sentinel constructor, executor / asyncio '
              'future flags, consumer status, ghost consumed list; the inline branch for non-Iterators is the degenerate machine). '
              'props/C16.v proves, for ALL sources (any length, any failure position, any element identities) and ALL schedules '
              '(lists of W/D/C/T choices, disabled = stutter): bridge_prefix (consumed is always firstn |consumed| src), '
              'bridge_complete (at Done: exactly the first n elements; no failure => n=|src| and normal stop; failure at k => n=k '
              'and the source\'s own exception), worker_joined (Done => worker ended), loop_not_blocked + never_starved '
              '(to_async_iter over an Iterator: Tick enabled whenever the worker is inside the source), no_deadlock, '
              'measure_exact (measure = exact number of remaining non-Tick steps, 4n+11 / 3n+8 / n+2 initially) and '
              'bridge_terminates (every schedule of fair rounds reaches Done within measure(init) rounds), plus monitor_sound, '
              'monitor_complete (ok accepts every finished model run), agree_implies_ok, canonical_schedule_finishes and pair_monitor_componentwise (two bridges alive at once are judged bridge by bridge). Tied to /repo by running the real '
              'to_async_iter / to_sync_iter under gated threads on every schedule of short sources (exhaustive), random longer '
              'ones and random source-line-level interleavings, the model being driven by the same thread choices and compared gate by gate inside Coq.')
LEVEL_NOTE = ('trusted: Coq kernel + vm_compute; no axioms (all 13 theorems closed under the global context); the gated-thread '
              'harness and Case_C16.v; asyncio/queue/concurrent.futures primitives are modelled and validated only by the '
              'correspondence runs; line-level runs are compared with the model only on the final observation (agree for CaseL). The model is untimed: "does not block the loop" is proved as Tick-enabledness; the ticker '
              'counts in virtual time are a monitor check on the implementation (ticks >= d-1 during a pull of d ticks), not a '
              'theorem. Fairness in bridge_terminates is explicit (rounds containing W, D and C).')
TECHNIQUE = ('Coq proof (inductive invariant over all schedules of a two-thread small-step machine; exact step-count measure + '
             'enabledness persistence for termination under fair rounds) + differential correspondence of the real code under '
             'gated threads (exhaustive schedule DFS + random), evaluated by vm_compute')
