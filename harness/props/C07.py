"""C07 — wait() is a true barrier and always returns; shutdown terminates (aiuti/asyncio.py BufferAsyncCalls / buffer_until_timeout).
Thin module: driver, Coq literals, shrinking and generator building blocks are
shared with the other two buffer properties in harness/buffer_drv.py."""
from __future__ import annotations
import random

from .. import buffer_drv as B

PROP = 'C07'
READY = False
PROPS_MODULE = 'C07'
MODEL_TARGETS = ['theories/Case_C07.vo']
HEADER = B.HEADER + '\nRequire Import Aiuti.Case_C07.'
CASE_TYPE = 'Case_C07.case'
VERDICT = 'Case_C07.verdict'
PARALLEL = 16
CHUNK = 400
ALLOWED_AXIOMS = []

run_impl = B.run_case
to_coq = B.to_coq
error_obs = B.error_obs
explain_exprs = B.explain_exprs
shrink_candidates = B.shrink_candidates
distribution = B.distribution

ALPHA = 'SgyempKFWw'          # plain, async iterable + yield/end, Advance T-1 / T+1, FnOk, FnFail,
                              # wait(cancel=True), wait(cancel=False)


def corpus():
    W = ['SWK', 'SwpK', 'SpWK', 'SpSWwKK',        # wait while armed / running / with a later submission
         'gWyeK', 'SgWyeK', 'gpSWeK',             # slow producers: gathering, loading one, timer fired meanwhile
         'EW', 'gWe', 'aWf',                      # empty / failing producers: wait returns without a call
         'SpFWpK', 'SpFwpK',                      # wait after a failed call
         'SWwWKw',                                # several waiters
         'X', 'SX', 'SpX', 'gX', 'SgX', 'EX', 'SpFX', 'SWX', 'SpSX',   # shutdown at every stage
         'cWuK', 'ScWupK', 'SpkWupK',             # foreign halves of _put around a wait
         'SpBK', 'SpbK', 'SpBFpK', 'BK', 'bpK', 'SBK', 'gBeK', 'SpSBKK', 'SpBpKK']   # submit + wait() in the same task step
    return [c for c in (B.letters_case(T, w) for T in (8, 100) for w in W) if c]


def gen_exhaustive(tier, seed):
    L = 4 if tier == 'quick' else 5
    out = B.word_cases(ALPHA, L)
    # Shutdown at every quiescent point of every short program
    out += B.word_cases('SLEagyfempKFWw', L - 1, tail=False, suffixes=('X',))
    out.append(B.letters_case(8, 'X'))
    out += B.foreign_cases(base_alpha='SgyepKFWw', maxlen=3 if tier == 'quick' else 4)
    # submit-then-wait in one task step (no loop iteration in between) at every point of short programs
    out += B.word_cases('SBbpKFW', L)
    return out


PROFILE = dict(p_fail=0.3, p_foreign=0.02, p_wait=0.22, p_settle=0.65, p_shutdown=0.2, max_subs=8, waits='WWwwBb')


def gen_random(tier, seed):
    rnd = random.Random(seed * 7919 + 7)
    n = 4000 if tier == 'quick' else 80000
    return [B.rand_case(rnd, PROFILE) for _ in range(n)]


def gen_search(tier, seed):
    rnd = random.Random(seed * 104729 + 707)
    prof = dict(PROFILE, max=30, p_wait=0.3)
    return [B.rand_case(rnd, prof) for _ in range(6000)] + B.word_cases(ALPHA, 5)[:20000]

RULE = ''
EXHAUSTIVE_NOTE = ''
ASSUMPTIONS = []
TRUSTED = []
LEVEL_TEXT = ''
LEVEL_NOTE = ''
TECHNIQUE = ''
