"""C07 — wait() is a true barrier and always returns; shutdown terminates (aiuti/asyncio.py BufferAsyncCalls / buffer_until_timeout).
Thin module: driver, Coq literals, shrinking and generator building blocks are
shared with the other two buffer properties in harness/buffer_drv.py."""
from __future__ import annotations
import random

from .. import buffer_drv as B

PROP = 'C07'
READY = True
PROPS_MODULE = 'C07'
MODEL_TARGETS = ['theories/Case_C07.vo']
HEADER = B.HEADER + '\nRequire Import Aiuti.Case_C07.'
CASE_TYPE = 'Case_C07.case'
VERDICT = 'Case_C07.verdict'
PARALLEL = 16
CHUNK = 400
ALLOWED_AXIOMS = []

run_impl = B.run_case
to_coq = B.to_coq
error_obs = B.error_obs
explain_exprs = B.explain_exprs
shrink_candidates = B.shrink_candidates
distribution = B.distribution

ALPHA = 'SgyempKFWw'          # plain, async iterable + yield/end, Advance T-1 / T+1, FnOk, FnFail,
                              # wait(cancel=True), wait(cancel=False)


def corpus():
    W = ['SWK', 'SwpK', 'SpWK', 'SpSWwKK',        # wait while armed / running / with a later submission
         'gWyeK', 'SgWyeK', 'gpSWeK',             # slow producers: gathering, loading one, timer fired meanwhile
         'EW', 'gWe', 'aWf',                      # empty / failing producers: wait returns without a call
         'SpFWpK', 'SpFwpK',                      # wait after a failed call
         'SWwWKw',                                # several waiters
         'X', 'SX', 'SpX', 'gX', 'SgX', 'EX', 'SpFX', 'SWX', 'SpSX',   # shutdown at every stage
         'cWuK', 'ScWupK', 'SpkWupK',             # foreign halves of _put around a wait
         'nWK', 'cnWK', 'SpKnwpK',             # foreign submission from the foreign thread's own running loop
         'cUK', 'cVpK', 'SpcKUK', 'SpcKVpK', 'SpkUK', 'ScUK',   # foreign thread: submit, then wait_from_anywhere()
         'SpBK', 'SpbK', 'SpBFpK', 'BK', 'bpK', 'SBK', 'gBeK', 'SpSBKK', 'SpBpKK']   # submit + wait() in the same task step
    return ([c for c in (B.letters_case(T, w) for T in (8, 100) for w in W) if c]
            + [B.burst_case(BURST, 'A')])     # 1100 submissions in ONE loop pass, wait(cancel=True), later wait()


BURST = 1100


def spaced(out, extra, gap=800, first=2000):
    """insert the (expensive) extra cases far apart, so that they land in different Coq case files"""
    out = list(out)
    for i, c in enumerate(extra):
        out.insert(min(len(out), first + i * gap), c)
    return out


def gen_exhaustive(tier, seed):
    L = 4 if tier == 'quick' else 5
    out = B.word_cases(ALPHA, L)
    # Shutdown at every quiescent point of every short program
    out += B.word_cases('SLEagyfempKFWw', L - 1, tail=False, suffixes=('X',))
    out.append(B.letters_case(8, 'X'))
    out += B.foreign_cases(base_alpha='SgyepKFWw', maxlen=3 if tier == 'quick' else 4, puts='uUVn')
    # submit-then-wait in one task step (no loop iteration in between) at every point of short programs
    out += B.word_cases('SBbpKFW', L)
    # large bursts in one loop pass (the timer delivers them; wait afterwards, one more submission, wait again);
    # thorough: around 2^10 and with the burst arriving under a running call
    big = [B.burst_case(BURST, 'B')]
    if tier != 'quick':
        big += [B.burst_case(n, 'A') for n in (1023, 1024, 1025, 1026)] + [B.burst_case(BURST, 'C'), B.burst_case(1300, 'B')]
    out += [B.burst_case(n, sh, T) for T in (8, 100) for sh in 'ABC' for n in (2, 65, 257)]
    return spaced(out, big)


PROFILE = dict(p_fail=0.3, p_foreign=0.02, p_wait=0.22, p_settle=0.65, p_shutdown=0.2, max_subs=8, waits='WWwwBb')


def gen_random(tier, seed):
    rnd = random.Random(seed * 7919 + 7)
    n = 4000 if tier == 'quick' else 80000
    return [B.rand_case(rnd, PROFILE) for _ in range(n)]


def gen_search(tier, seed):
    rnd = random.Random(seed * 104729 + 707)
    prof = dict(PROFILE, max=30, p_wait=0.3)
    return [B.rand_case(rnd, prof) for _ in range(6000)] + B.word_cases(ALPHA, 5)[:20000]

RULE = ('cases = (timeout T, list of external events) run against the real aiuti.asyncio.BufferAsyncCalls under the virtual-time '
        'loop (events as for C03, incl. the three ways of handing over the function and the two failure flavours of FnFail) with wait(cancel=True/False) at any quiescent point, several concurrent waiters, submit+wait in one '
        'task step from the loop thread (buffer(x); await wait()) and from a foreign thread (second half of _put immediately followed '
        'by wait_from_anywhere() in that thread\'s own loop), and Shutdown = asyncio.runners._cancel_all_tasks semantics (cancel every '
        'task in creation order, then advance 3 timeouts: a daemon that lives on or tasks that never finish are the observation Hang).  '
        'corpus: named scenarios (wait while armed / running / gathering / loading one, empty and failing producers, several waiters, '
        'shutdown at every stage, foreign halves around a wait) x 2 timeouts; exhaustive layer: every word of <=4 (quick) / <=5 '
        '(thorough) letters over {plain, async iterable, yield, end, Advance T-1 / T+1, FnOk, FnFail, wait(True), wait(False)}, '
        'Shutdown appended to every word of <=3 / <=4 letters over 14 letters, every word over {plain, submit+wait(True/False), '
        'Advance T+1, FnOk, FnFail, wait(True)}, and one foreign submission (plain / + wait_from_anywhere cancel=True / False) split at '
        'every pair of quiescent points of every program of <=3 / <=4 letters; bursts of n plain submissions made back to back in ONE loop pass (model: n Submit events), flushed by wait(cancel=True) / delivered by the timer / arriving under a running call, each followed by a wait and a later second wait: n = 2, 65, 257 x 2 timeouts and n = 1100 (shapes A, B; thorough also 1023..1026, 1300 and shape C); random layer: programs of 6..22 events, about a fifth '
        'waits, a fifth ending in Shutdown at a random cut.  non-trivial = (a wait returned and a call succeeded) or (the daemon ended '
        'with at least one submission) (Case_C07.nontrivial, decided inside Coq); distinct = distinct (case, trace) pairs among those')
EXHAUSTIVE_NOTE = ('all event words up to length 4 (quick) / 5 (thorough) over the 10-letter C07 alphabet at T=8; Shutdown at every '
                   'quiescent point of every word up to length 3 / 4 over 14 letters; all placements of the two halves of one foreign '
                   'submission (with and without wait_from_anywhere) in all programs up to length 3 / 4')
ASSUMPTIONS = ['single event loop, cooperative: between two quiescent points nothing external happens except the scripted event (macro-step model, DESIGN §4); the one same-iteration reaction that matters for the barrier — submit immediately followed by wait() in the same task step, from the loop thread or from a foreign thread — is a scripted event of its own', 'time is virtual: integer ticks of 2^-10 s, a timer fires when now >= deadline', 'the sync-iterator helper thread of map() (to_async_iter, property C16) is collapsed to "immediately available"', 'foreign threads are represented by the two shared-state operations of _put (event.clear, call_soon_threadsafe) as separate events FClear / FPut at quiescent points, plus FnOkThenFClear for a clear landing between event.set() and the loop test; OS-thread fairness is not modelled']
TRUSTED = ['harness/buffer_drv.py + harness/vloop.py (virtual-time driver of the real BufferAsyncCalls; gated stand-ins for the public attributes `event` and `loop` park a real foreign thread before each of the two operations of _put) and coq/theories/Case_Buffer.v (agree, input tracker)', 'modelled, not verified: asyncio.Queue (put_nowait/get/get_nowait/task_done/join), asyncio.Event, wait_for, gather, Task.cancel/cancelling, call_soon_threadsafe FIFO, run_coroutine_threadsafe, async generators'] + ['coq/theories/Case_C07.v (monitor ok: at each WaitRet every producer submitted before that wait is exhausted and all it '
           'produced is in a successful call; no call after Shutdown, DaemonEnded exactly once after it; settled => no wait pending)']
LEVEL_TEXT = ('BufferAsyncCalls is modelled step for step as an executable macro-step machine (coq/theories/Buffer.v).  props/C07.v '
              'proves for ALL event lists: wait_barrier (whenever WaitRet w is observed, every argument handed over by a producer '
              'submitted — own thread or foreign — before the accepted Wait w event is in a call that returned without error by then), '
              'flag_means_all_delivered, join_counter (unfinished = queued + producer being loaded; queue empty while parked on get; '
              'nobody inside join() once it is 0), wait_cancel_flushes_now, shutdown_terminates (DaemonEnded observed, nothing at all '
              'observed afterwards, from every stage); and in histories without a bare foreign clear: idle_means_flag_set and '
              'wait_returns (from any reachable live state with no slow producer in the way, FnOk; Advance>=timeout; FnOk makes every '
              'pending wait() return — cancel or not, any number of waiters).  Tied to /repo by running the real class under a '
              'virtual-time loop on the enumerated / random event lists, incl. real foreign threads going through the public API, and '
              'comparing every observation with the model inside Coq (vm_compute); the monitor Case_C07.ok = ok_shut && ok_walk re-decides '
              'barrier / shutdown / settled on the implementation trace.  shutdown_monitor_complete / _sound (the shutdown part accepts '
              'every model trace; acceptance means: no DaemonEnded before the first Shutdown, exactly [DaemonEnded] in its step, '
              'nothing afterwards); walk_monitor_sound (model-free: at every observed WaitRet the barrier statement holds for the '
              'script and the observations before it; settled scripts see every accepted wait() return); monitor_complete (the WHOLE '
              'monitor, incl. the barrier check against the input tracker at every WaitRet, accepts the model trace of every event '
              'list: no false alarm where implementation and model agree), with returned_wait_producers_closed and '
              'settled_means_no_waiter behind it.')
LEVEL_NOTE = ('trusted: Coq kernel + vm_compute; no axioms (Print Assumptions: closed under the global context); asyncio primitives are '
              'modelled and validated only by the correspondence runs; harness/buffer_drv.py, harness/vloop.py; Case_Buffer.v, Case_C07.v.  '
              'The model describes the repaired code (fix F3: the daemon re-raises its own cancellation); the unrepaired behaviour is '
              'the seeded regression revert-F3, which this check reports (Hang).  "Always returns" is the progress theorem over '
              'event-list continuations, not a fairness proof.')
TECHNIQUE = ('Coq proof (join-counter, completion-flag, waiter-provenance and per-producer invariants by induction over event lists; '
             'the generic walk through the helpers exports what holds at every event.set()) + differential correspondence under a '
             'virtual-time event loop with gated foreign threads, evaluated by vm_compute')
