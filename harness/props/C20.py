"""C20 — gather_excs / raise_first_exc (aiuti/asyncio.py:62-143).  Driver + generators.

A case is an explicit input: a class forest, `only`, a list of harness-owned
awaitables (form, delay in ticks, outcome), the tick at which the library
function is called, and which of the two functions is exercised.  The real code
runs on the virtual-time loop (harness/vloop.py); the observation is canonical
(exception ids, integer ticks, per-awaitable completion record)."""
from __future__ import annotations

import itertools
import logging
import random

from .. import common as C

PROP = 'C20'
READY = True
PROPS_MODULE = 'C20'
MODEL_TARGETS = ['theories/Case_C20.vo']
HEADER = ('From Coq Require Import List NArith. Import ListNotations.\n'
          'Require Import Aiuti.Gather Aiuti.Case_C20.')
CASE_TYPE = 'Case_C20.case'
VERDICT = 'Case_C20.verdict'
PARALLEL = 16
CHUNK = 400
RULE = ('case = (function: gather_excs consumed by async-for | raise_first_exc; class forest as parent list with '
        '0=BaseException, 1=Exception and harness-made subclasses incl. BaseException-only branches; `only` = a class '
        'of the forest or omitted (default); tick of the call; list of harness awaitables (coroutine started by gather '
        '| task | future started at tick 0, delay in ticks, returns | raises exception #i of class c)), run against '
        'the real functions on the virtual-time loop.  exhaustive layer: every list of 0..L awaitables over '
        '{return, EBase, ESub(EBase), [EOther,] BOnly(BaseException)} x every weak ordering of finishing times '
        '(ties included) x only in {default, Exception, EBase, ESub, BOnly}; random layer: 2..7 awaitables, random '
        'forests of 4..9 classes, delays 0..6, call tick 0..4 (tasks/futures may already be done), mixed forms, '
        'aws given as list/tuple/generator; exception classes whose instances are FALSY (__len__ returning 0 / '
        '__bool__ returning False, inherited by subclasses) rotated over the exhaustive layer, in a dedicated '
        'block for both functions and in half of the random cases; plus tasks / futures cancelled by the script before or during gather '
        '(CancelledError results: all 1..2-element lists with at least one of them x only in {default, Exception, '
        'CancelledError, BOnly} x both functions, and 20 % of the random cases).  observation = per-awaitable (completed|cancelled|pending, tick), every '
        'yield with tick and number of completed awaitables, how the consumer ended.  non-trivial = >= 2 awaitables, '
        '>= 1 failure and (>= 2 failures or finishing order <> input order), decided by Case_C20.nontrivial in Coq')
EXHAUSTIVE_NOTE = ('all outcome lists x all weak orderings of finishing times for up to L awaitables '
                   '(L=3 quick, 4 thorough) over the fixed 7-class forest')
ASSUMPTIONS = ['asyncio.gather(return_exceptions=True) is a modelled primitive (CPython 3.12 tasks.py semantics: '
               'done-callbacks count children, results in child order, siblings never cancelled)',
               'awaitables are distinct objects (gather de-duplicates identical awaitables); nobody cancels the consumer',
               'exception classes are ordinary subclasses of Exception / BaseException; a task / future that the SCRIPT '
               'cancels (before the call or while gather waits) is inside the input space: its outcome is a '
               'CancelledError (a BaseException-only class of the forest), a cancelled task having the fixed identity 997 '
               'because 3.12 tasks drop the cancel message; awaitables that themselves raise CancelledError / '
               'KeyboardInterrupt / SystemExit (treated specially by asyncio tasks) and subclasses of CancelledError '
               'stay outside']
TRUSTED = ['harness/props/C20.py driver + harness/vloop.py (virtual time) and coq/theories/Case_C20.v (agree/ok)',
           'modelled, not verified: asyncio.gather, Task/Future completion, isinstance over single-inheritance classes']
ALLOWED_AXIOMS = []
CLEAN_FOR_THOROUGH = ['theories/Gather.vo', 'theories/GatherInv.vo', 'theories/Case_C20.vo', 'theories/GatherMon.vo',
                      'theories/GatherSound.vo']

# fixed forest of the exhaustive layer: parent of class i
#   0 BaseException, 1 Exception, 2 EBase(Exception), 3 ESub(EBase), 4 EOther(Exception),
#   5 BOnly(BaseException), 6 BSub(BOnly)
H7 = [None, 0, 1, 2, 1, 0, 5]

_CLASS_CACHE = {}


def classes_for(hier, cancel_cls=None, falsy=()):
    """class objects of the forest; class `cancel_cls` (a child of BaseException without
    descendants) is asyncio.CancelledError itself; `falsy` = ((class, 'len'|'bool'), ...): classes whose
    INSTANCES have a false truth value (an empty aggregate error: __len__ returns 0 / __bool__ returns
    False; inherited by their subclasses) — an exception is an exception whatever bool(e) says"""
    import asyncio
    fz = {int(c): k for c, k in falsy}
    key = (tuple(hier), cancel_cls, tuple(sorted(fz.items())))
    cl = _CLASS_CACHE.get(key)
    if cl is None:
        cl = [BaseException, Exception]
        for i in range(2, len(hier)):
            if i == cancel_cls:
                assert hier[i] == 0 and cancel_cls not in hier and i not in fz
                cl.append(asyncio.CancelledError)
            else:
                ns = {}
                if fz.get(i) == 'len':
                    ns['__len__'] = lambda self: 0
                elif fz.get(i) == 'bool':
                    ns['__bool__'] = lambda self: False
                cl.append(type(f'HExc{i}', (cl[hier[i]],), ns))
        _CLASS_CACHE[key] = cl
    return cl


def run_impl(case):
    import asyncio
    from ..vloop import Sim, TICK
    from aiuti.asyncio import gather_excs, raise_first_exc
    logging.disable(logging.CRITICAL)
    cl = classes_for(case['hier'], case.get('cancel_cls'), case.get('falsy') or ())
    specs = case['aws']
    n = len(specs)
    sim = Sim()
    loop = sim.loop
    ends = [[0, 0] for _ in range(n)]
    yields = []
    fin = [0, 0, 0]
    state = dict(closing=False)
    pre = [None] * n          # tasks / futures created at tick 0

    def mkexc(i, c):
        e = cl[c](f'exc{i}')
        e.eid = i + 1
        return e

    def eid_of(e):
        if type(e) is asyncio.CancelledError:
            # gather builds a fresh CancelledError(<cancel message>) for a cancelled child
            m = e.args[0] if e.args else ''
            return int(m[4:]) if isinstance(m, str) and m.startswith('eid:') and m[4:].isdigit() else 997
        if isinstance(e, BaseException):
            return getattr(e, 'eid', 999)
        return 998

    scripted_cancel = set()     # awaitables the SCRIPT cancels (their outcome is CancelledError)

    async def coro(i, d, out):
        try:
            if d:
                await asyncio.sleep(d * TICK)
        except asyncio.CancelledError:
            if not state['closing'] and i not in scripted_cancel:
                ends[i] = [2, sim.ticks()]
            raise
        ends[i] = [1, sim.ticks()]
        if out is not None:
            raise mkexc(i, out)
        return ('ret', i)

    def canceller(i):
        # the script's own cancellation of task / future i: that IS its outcome (kind 1)
        def cb():
            if not pre[i].done():
                scripted_cancel.add(i)
                ends[i] = [1, sim.ticks()]
                pre[i].cancel(msg=f'eid:{i + 1}')
        return cb

    def resolver(i, fut, out):
        def cb():
            if fut.done():
                if not state['closing']:
                    ends[i] = [2, sim.ticks()]
                return
            ends[i] = [1, sim.ticks()]
            if out is not None:
                fut.set_exception(mkexc(i, out))
            else:
                fut.set_result(('ret', i))
        return cb

    def ndone():
        return sum(1 for e in ends if e[0] == 1)

    def build():
        aws = []
        for i, (f, d, out) in enumerate(specs):
            aws.append(coro(i, d, out) if f == 'C' else pre[i])
        cont = case.get('cont', 'list')
        if cont == 'tuple':
            return tuple(aws)
        if cont == 'gen':
            return (a for a in aws)
        return aws

    async def consumer():
        try:
            aws = build()
            only = case['only']
            if case['mode'] == 'gather':
                agen = gather_excs(aws) if only is None else gather_excs(aws, cl[only])
                async for e in agen:
                    yields.append([eid_of(e), sim.ticks(), ndone()])
                fin[:] = [1, 0, sim.ticks()]
            else:
                r = await (raise_first_exc(aws) if only is None else raise_first_exc(aws, cl[only]))
                fin[:] = [1 if r is None else 3, 0, sim.ticks()]
        except BaseException as e:
            if not state['closing']:
                fin[:] = [2, eid_of(e), sim.ticks()]

    def handler(ev):
        if ev[0] == 'create':
            for i, (f, d, out) in enumerate(specs):
                if f == 'T':
                    pre[i] = loop.create_task(coro(i, d, out))
                elif f == 'F':
                    fut = loop.create_future()
                    pre[i] = fut
                    loop.call_later(d * TICK, resolver(i, fut, out))
                elif f == 'XT':
                    # a task the script cancels at tick d (d = 0: before its first step)
                    pre[i] = loop.create_task(coro(i, d + 7, None))
                    if d == 0:
                        canceller(i)()
                    else:
                        loop.call_later(d * TICK, canceller(i))
                elif f == 'XF':
                    pre[i] = loop.create_future()
                    if d == 0:
                        canceller(i)()
                    else:
                        loop.call_later(d * TICK, canceller(i))
        elif ev[0] == 'call':
            loop.create_task(consumer())

    horizon = case['tcall'] + max([d for _, d, _ in specs] + [0]) + 3
    try:
        sim.run([('create',), ('adv', case['tcall']), ('call',), ('adv', horizon)], handler)
    finally:
        state['closing'] = True
        # retrieve exceptions of futures nobody awaited (keeps the log silent)
        for p in pre:
            if p is not None and p.done() and not p.cancelled():
                p.exception()
        sim.close()
    if sim.spun:
        fin[:] = [0, 0, 0]
    return dict(ends=ends, yields=yields, fin=fin)


def error_obs(case, o):
    return dict(ends=[[0, 0] for _ in case['aws']], yields=[], fin=[0, 0, 0])


# ---- Coq literals -----------------------------------------------------------

def _hier(h):
    return C.coq_list(['None' if p is None else f'Some {p}' for p in h])


def _aws(aws):
    items = []
    for i, (f, d, out) in enumerate(aws):
        form = {'C': 'Coro', 'T': 'Task', 'F': 'Fut', 'XT': 'Task', 'XF': 'Fut'}[f]
        # a cancelled TASK shows up in gather's results as a fresh CancelledError('') (3.12 tasks do
        # not keep the cancel message): identity 997 whatever the position; a cancelled plain
        # future keeps its message, hence its identity
        eid = 997 if f == 'XT' else i + 1
        o = 'Ret' if out is None else f'(Raise {C.coq_nat(out)} {C.coq_nat(eid)})'
        items.append(f'mkaw {form} {C.coq_N(d)} {o}')
    return C.coq_list(items)


def _inputs(case):
    only = 0 if case['only'] is None else case['only']
    return (f"{C.coq_bool(case['mode'] == 'raise')} {_hier(case['hier'])} {C.coq_nat(only)} "
            f"{C.coq_N(case['tcall'])} {_aws(case['aws'])}")


def to_coq(case, o):
    ends = C.coq_list([f'({C.coq_nat(k)}, {C.coq_N(t)})' for k, t in o['ends']])
    ys = C.coq_list([f'({C.coq_nat(e)}, {C.coq_N(t)}, {C.coq_nat(k)})' for e, t, k in o['yields']])
    fk, fe, ft = o['fin']
    return f'Case {_inputs(case)} (mkobs {ends} {ys} ({C.coq_nat(fk)}, {C.coq_nat(fe)}, {C.coq_N(ft)}))'


def explain_exprs(case, o):
    return [f'model_trace {_inputs(case)}']


def signature(case, o):
    return None


# ---- generators -------------------------------------------------------------

def mk(mode, aws, only, hier=None, tcall=0, cont='list', cancel_cls=None, falsy=None):
    c = dict(mode=mode, hier=list(H7 if hier is None else hier), only=only, tcall=tcall,
             aws=[list(a) for a in aws], cont=cont)
    if cancel_cls is not None:
        c['cancel_cls'] = cancel_cls
    if falsy:
        c['falsy'] = [list(x) for x in falsy]
    return c


# truth-value variants of the fixed forest, rotated over the exhaustive layer: none | EBase (hence ESub)
# sized 0 | ESub bool-False and BOnly (hence BSub) sized 0 | every harness class falsy
FALSY_VARIANTS = [None, [(2, 'len')], [(3, 'bool'), (5, 'len')], [(2, 'bool'), (4, 'len'), (5, 'bool')]]


# H7 plus class 7 = asyncio.CancelledError (a child of BaseException): outcome of the awaitables the
# script itself cancels (forms XT: task, XF: future; the delay is the tick of the cancellation)
H8 = H7 + [0]
CC = 7


def gen_cancel_block():
    """tasks / futures cancelled by the script before or while gather runs: gather reports a
    CancelledError result for them (a BaseException: yielded iff `only` admits it)"""
    out = []
    kinds = [('C', None), ('C', 2), ('XT', CC), ('XF', CC)]
    for n in (1, 2):
        for ks in itertools.product(kinds, repeat=n):
            if not any(k[0][0] == 'X' for k in ks):
                continue
            for dv in weak_orderings(n):
                for tcall in (0, 1):
                    for only in (None, 1, CC, 5):
                        for mode in ('gather', 'raise'):
                            out.append(mk(mode, [(ks[i][0], dv[i], ks[i][1]) for i in range(n)], only,
                                          hier=H8, tcall=tcall, cancel_cls=CC,
                                          cont=['list', 'tuple', 'gen'][(len(out)) % 3]))
    return out


def corpus():
    return [
        mk('gather', [('C', 1, None), ('C', 1, 2)], None),                 # doctest: x(), e()
        mk('gather', [('C', 1, None), ('C', 1, 2)], 4),                    # only = unrelated class
        mk('gather', [('C', 1, None), ('C', 1, 3)], 2),                    # only = parent class
        mk('raise', [('C', 1, None), ('C', 1, 2)], None),
        mk('raise', [('C', 1, None), ('C', 1, 2)], 4),
        mk('gather', [], None), mk('raise', [], None),
        # several failures, finishing order reversed w.r.t. input order
        mk('gather', [('C', 3, 2), ('C', 2, 3), ('C', 1, 5), ('C', 0, 4)], None),
        mk('raise', [('C', 3, 3), ('C', 2, 2), ('C', 1, 5), ('C', 0, 4)], 2),
        # BaseException-only failure first, Exception asked for
        mk('gather', [('C', 0, 5), ('C', 2, 3), ('C', 1, None)], 1),
        mk('gather', [('C', 0, 6), ('C', 2, 3), ('C', 1, None)], 5),
        # tasks / futures that are already done when the call is made
        mk('gather', [('T', 1, 2), ('F', 5, 3), ('C', 1, None), ('F', 0, 5)], None, tcall=3),
        mk('raise', [('T', 1, None), ('F', 5, 3), ('C', 1, 2), ('T', 0, None)], 1, tcall=2, cont='gen'),
        # exceptions whose truth value is False (empty aggregate errors): still the first one is raised,
        # still all are yielded (seeded C20-m9: `first = first or exc` / `if first:`)
        mk('raise', [('C', 1, 2), ('C', 0, 4)], None, falsy=[(2, 'len')]),
        mk('raise', [('C', 1, 3), ('C', 0, 4)], 1, falsy=[(3, 'bool')]),
        mk('raise', [('C', 1, None), ('C', 0, 3)], 2, falsy=[(2, 'len')]),
        mk('raise', [('C', 0, 5), ('C', 1, 2), ('C', 2, 6)], None, falsy=[(2, 'bool'), (5, 'len')]),
        mk('gather', [('C', 1, 2), ('C', 0, 4), ('F', 2, 3)], None, falsy=[(2, 'len'), (4, 'bool')]),
        mk('gather', [('T', 1, 5), ('C', 0, 3)], 0, falsy=[(3, 'bool'), (5, 'bool')], cont='gen'),
        # tasks / futures cancelled by the script before gather: CancelledError results, admitted by the
        # default `only` and by CancelledError, not by Exception
        mk('gather', [('XT', 0, CC), ('C', 1, 2), ('XF', 0, CC)], None, hier=H8, tcall=1, cancel_cls=CC),
        mk('gather', [('XT', 0, CC), ('C', 1, 2), ('XF', 0, CC)], 1, hier=H8, tcall=1, cancel_cls=CC),
        mk('gather', [('XT', 0, CC), ('C', 1, 2), ('XF', 0, CC)], CC, hier=H8, tcall=1, cancel_cls=CC, cont='gen'),
        mk('raise', [('C', 1, None), ('XT', 0, CC), ('C', 1, 2)], None, hier=H8, cancel_cls=CC),
        mk('raise', [('C', 1, None), ('XT', 0, CC), ('C', 1, 2)], 1, hier=H8, cancel_cls=CC),
        # ... and cancelled by a third party WHILE gather is waiting (tick 2 of 3)
        mk('gather', [('C', 3, 2), ('XT', 2, CC), ('C', 1, None)], None, hier=H8, cancel_cls=CC),
    ]


def weak_orderings(n):
    """all delay vectors in 0..n-1 whose value set is an initial segment (one per weak ordering)"""
    out = []
    for v in itertools.product(range(n), repeat=n):
        s = set(v)
        if s == set(range(len(s))):
            out.append(v)
    return out or [()]


def gen_exhaustive(tier, seed):
    Lmax = 3 if tier == 'quick' else 4
    out = []
    onlys = [None, 1, 2, 3, 5]
    forms = ['C', 'T', 'F']
    k = 0
    for n in range(0, Lmax + 1):
        outs = [None, 2, 3, 4, 5] if n <= 2 or (tier == 'thorough' and n <= 3) else [None, 2, 3, 5]
        for oc in itertools.product(outs, repeat=n):
            for dv in weak_orderings(n):
                for only in onlys:
                    k += 1
                    # function and awaitable forms vary round-robin (both functions for short lists)
                    modes = ['gather', 'raise'] if n <= 2 else [['gather', 'raise'][k % 2]]
                    for mode in modes:
                        if k % 3 == 0:
                            fs = [forms[(k // 3 + i) % 3] for i in range(n)]
                        else:
                            fs = ['C'] * n
                        out.append(mk(mode, [(fs[i], dv[i], oc[i]) for i in range(n)], only,
                                      cont=['list', 'tuple', 'gen'][k % 3],
                                      falsy=FALSY_VARIANTS[(k // 2) % 4] if n else None))
    return out + gen_cancel_block() + gen_falsy_block()


def gen_falsy_block():
    """every list of 1..2 awaitables over {return, EBase, ESub, EOther, BOnly} x every non-trivial
    truth-value variant x only in {default, Exception, EBase, BOnly} x BOTH functions (so each outcome
    list is seen by raise_first_exc with the first match falsy / all matches falsy / a later one falsy)"""
    out = []
    for n in (1, 2):
        for oc in itertools.product([None, 2, 3, 4, 5], repeat=n):
            if all(o is None for o in oc):
                continue
            for fv in FALSY_VARIANTS[1:]:
                for only in (None, 1, 2, 5):
                    for mode in ('raise', 'gather'):
                        dv = [n - 1 - i for i in range(n)] if len(out) % 2 else [0] * n
                        out.append(mk(mode, [('C', dv[i], oc[i]) for i in range(n)], only, falsy=fv,
                                      cont=['list', 'tuple', 'gen'][len(out) % 3]))
    return out


def rand_forest(rnd):
    m = rnd.randint(4, 9)
    h = [None, 0]
    for i in range(2, m):
        # bias: most classes under Exception, some BaseException-only
        r = rnd.random()
        if r < 0.15:
            h.append(0)
        elif r < 0.45:
            h.append(1)
        else:
            h.append(rnd.randint(1, i - 1))
    return h


def gen_random(tier, seed):
    rnd = random.Random(seed * 7919 + 20)
    N = 1500 if tier == 'quick' else 30000
    out = []
    for _ in range(N):
        h = rand_forest(rnd)
        m = len(h)
        cc = None
        if rnd.random() < 0.2:
            cc = len(h)          # one more class, child of BaseException: asyncio.CancelledError
            h.append(0)
        n = rnd.choice([2, 3, 3, 4, 4, 5, 5, 5, 6, 7])
        pfail = rnd.choice([0.3, 0.6, 0.9])
        aws = []
        for i in range(n):
            out_c = rnd.randint(2, m - 1) if rnd.random() < pfail else None
            aws.append((rnd.choice('CCCTF'), rnd.randint(0, 6), out_c))
            if cc is not None and rnd.random() < 0.35:
                aws[-1] = (rnd.choice(['XT', 'XF']), rnd.choice([0, 0, 1, 2, 3, 5]), cc)
        only = None if rnd.random() < 0.15 else rnd.randint(0, len(h) - 1)
        if rnd.random() < 0.5 and any(a[2] is not None for a in aws):
            # bias towards an `only` that is an ancestor of some raised class
            c = rnd.choice([a[2] for a in aws if a[2] is not None])
            chain = [c]
            while h[chain[-1]] is not None:
                chain.append(h[chain[-1]])
            only = rnd.choice(chain)
        falsy = None
        if rnd.random() < 0.5:
            falsy = [(c, rnd.choice(['len', 'bool'])) for c in range(2, m) if rnd.random() < 0.4]
        out.append(mk(rnd.choice(['gather', 'gather', 'raise']), aws, only, hier=h,
                      tcall=rnd.choice([0, 0, 1, 2, 3, 4]), cont=rnd.choice(['list', 'tuple', 'gen']),
                      cancel_cls=cc, falsy=falsy))
    return out


def gen_search(tier, seed):
    return gen_random('quick', seed + 1000) + gen_exhaustive('quick', seed)[:3000]


def shrink_candidates(case):
    out = []
    aws = case['aws']
    for i in range(len(aws)):
        out.append(dict(case, aws=aws[:i] + aws[i + 1:]))
    if case['tcall']:
        out.append(dict(case, tcall=0))
    for i, a in enumerate(aws):
        if a[0] in ('T', 'F'):
            out.append(dict(case, aws=aws[:i] + [['C', a[1], a[2]]] + aws[i + 1:]))
        if a[1] > 0:
            out.append(dict(case, aws=aws[:i] + [[a[0], a[1] - 1, a[2]]] + aws[i + 1:]))
    if case.get('cont', 'list') != 'list':
        out.append(dict(case, cont='list'))
    fz = case.get('falsy') or []
    for i in range(len(fz)):
        out.append(dict(case, falsy=fz[:i] + fz[i + 1:]))
    return out


def distribution(cases, obs):
    d = dict(gather=0, raise_first=0, awaitables=0, failures=0, base_only_failures=0, coroutines=0, tasks=0,
             futures=0, only_default=0, yields=0, raised=0, returned_none=0, call_after_start=0,
             finishing_order_differs=0, cancelled_by_script=0, falsy_failures=0, len_hist={})
    for c, o in zip(cases, obs):
        d['gather' if c['mode'] == 'gather' else 'raise_first'] += 1
        n = len(c['aws'])
        d['len_hist'][str(n)] = d['len_hist'].get(str(n), 0) + 1
        d['awaitables'] += n
        h = c['hier']
        fz = {x[0] for x in (c.get('falsy') or [])}
        for f, dl, oc in c['aws']:
            x = oc
            while x is not None and x not in fz:
                x = h[x]
            d['falsy_failures'] += oc is not None and x is not None
            d[{'C': 'coroutines', 'T': 'tasks', 'F': 'futures', 'XT': 'tasks', 'XF': 'futures'}[f]] += 1
            d['cancelled_by_script'] += f[0] == 'X'
            if oc is not None:
                d['failures'] += 1
                x = oc
                while h[x] is not None and x != 1:
                    x = h[x]
                d['base_only_failures'] += x != 1
        d['only_default'] += c['only'] is None
        d['call_after_start'] += c['tcall'] > 0
        es = [(c['tcall'] if f == 'C' else 0) + dl for f, dl, _ in c['aws']]
        d['finishing_order_differs'] += es != sorted(es)
        if isinstance(o, dict) and 'fin' in o:
            d['yields'] += len(o['yields'])
            d['raised'] += c['mode'] == 'raise' and o['fin'][0] == 2
            d['returned_none'] += c['mode'] == 'raise' and o['fin'][0] == 1
    return d


LEVEL_TEXT = ('gather_excs / raise_first_exc are modelled on top of an explicit machine for '
              'asyncio.gather(return_exceptions=True) driven by the finishing schedule (coq/theories/Gather.v); '
              'props/C20.v proves (15 theorems) for ALL awaitable lists, delays, call ticks, isinstance relations and '
              'finishing orders: the yields are exactly the failures that are instances of `only`, in input order '
              '(gather_excs_spec, expected_membership); every awaitable has completed (none cancelled or skipped) no later '
              'than the first yield (all_completed_before_first_yield) and, for every completion order, ends with ITS OWN '
              'scripted outcome in its slot, the completion log being independent of anybody\'s outcome '
              '(each_completes_with_its_own_outcome, completion_log_independent_of_outcomes); the yields do not depend on '
              'delays / finishing order; raise_first_exc raises the first of them or returns None (raise_first_spec), and '
              'over a class forest exactly the first failure whose class has `only` as itself-or-ancestor, '
              'BaseException-only branches included (isinstance_is_ancestor — the fuelled walk is the ancestor relation for every '
              'parent list —, raise_first_over_hierarchy).  The trace '
              'monitor is proved complete w.r.t. the model (monitor_accepts_model) and sound AND complete w.r.t. a '
              'model-free readable statement about the observed trace alone (monitor_sound, monitor_sound_converse, '
              'selected_unique; model_satisfies_statement: the model\'s own trace satisfies it).  Tied to /repo by running the real functions on a virtual-time loop for every outcome '
              'list x every weak ordering of finishing times (short lists), script-cancelled tasks/futures, and random '
              'longer ones, comparing the whole observation with the model inside Coq.')
LEVEL_NOTE = ('trusted: Coq kernel + vm_compute; no axioms (closed under the global context); asyncio.gather and task '
              'completion are modelled primitives validated only by the correspondence runs; harness/props/C20.py, '
              'harness/vloop.py, coq/theories/Case_C20.v')
TECHNIQUE = ('Coq proof (invariant of the gather machine over arbitrary finishing schedules, induction; monitor '
             'soundness/completeness against a relational statement) + differential correspondence on a virtual-time '
             'asyncio loop evaluated by vm_compute')
