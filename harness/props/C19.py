"""C19 — parse_to_dict (aiuti/parsing.py).  Driver + generators.

A case is an explicit input (separator, parse_keys, parser, item list and the
shape it is passed in).  The driver runs the REAL parse_to_dict, canonicalises
the returned dict / exception, and sends along the oracle table: what the
parser that the property says is in force (ast.literal_eval for default-parser
cases, the harness parser otherwise) answers on every string that can reach it.
A tripwire object is in scope (builtins and the module's globals) whose every
attribute access / call is counted."""
from __future__ import annotations

import itertools
import random
import re

from .. import common as C
from .. import c19_translate

PROP = 'C19'
READY = True
PROPS_MODULE = 'C19'
MODEL_TARGETS = ['theories/Case_C19.vo']
HEADER = ('From Coq Require Import List. Import ListNotations.\n'
          'Require Import Aiuti.Parse Aiuti.Case_C19.')
CASE_TYPE = 'Case_C19.case'
VERDICT = 'Case_C19.verdict'
PARALLEL = 16
CHUNK = 300
RULE = ('case = (sep, parse_keys, parser: default | harness callable, items as key<sep>value strings / pairs / '
        'mapping / object with .items(), passed as list|tuple|generator|dict|mappingproxy|dict items view|dict '
        'keys view (string items)|Mapping subclass and dict subclass whose .items() is overridden over decoy '
        'content) run against '
        'aiuti.parsing.parse_to_dict; keys and values come from a grammar of literal and non-literal fragments '
        '(ints, floats, quoted strings, tuples, lists, dicts, sets, None/True/False, bare words, calls / attribute '
        'access / operators incl. tripwire.hit() and __import__, text containing the separator, whitespace, empty '
        'strings, non-ASCII) and, in pairs, non-string objects (numbers that are == to each other, bytes that look '
        'like literals, unhashable objects, ast nodes, harness objects).  The oracle table is filled by calling '
        'ast.literal_eval (default cases) or the harness parser on every split of every string item at every '
        'occurrence of sep and on every str key/value.  exhaustive layer: every (key, value) pair of the fragment '
        'alphabet as one item, and all two-item lists over a reduced alphabet, with separators = : == =: , '
        'parse_keys on/off and the three shapes; random layer: 0..6 items, composite fragments, custom parsers '
        'that return / raise ValueError, KeyError, a BaseException-only class, SystemExit.  non-trivial = decided by '
        'Case_C19.nontrivial in Coq (separator occurs again in the value, a string the parser rejects, equal keys, '
        'an error outcome, or a non-string object)')
EXHAUSTIVE_NOTE = ('all single-item inputs over the full fragment alphabet squared; all two-item inputs over a '
                   'reduced alphabet (7 quick / 10 thorough)')
ASSUMPTIONS = ['ast.literal_eval (or the custom callable) is an oracle: str -> value or exception; its own safety is CPython\'s',
               'str.split, dict construction and ==/hash of the objects used are modelled primitives (CPython semantics)',
               'input objects are exact str or non-str objects (no str subclasses); pairs have exactly two elements',
               'custom parsers are pure functions of their argument']
TRUSTED = ['harness/props/C19.py driver (canonicalisation of values to (value id, equality class, hashable)), '
           'harness/c19_translate.py (fail-closed ast translator, ~330 lines), coq/theories/Case_C19.v (agree/ok)',
           'modelled, not verified: str.split(sep, 1), dict(), map laziness, ast.literal_eval (oracle)']
ALLOWED_AXIOMS = []
CLEAN_FOR_THOROUGH = ['theories/Parse.vo', 'theories/ParseInv.vo', 'theories/ParseSrc.vo', 'theories/Case_C19.vo',
                      'theories/ParseMon.vo', 'theories/ParseSound.vo', 'gen/T_ParseDefaults.vo']

MARK = chr(4999)        # logged when a harness parser receives a non-str argument


def translate():
    c19_translate.translate()


# ---------------------------------------------------------------------------
# harness objects
# ---------------------------------------------------------------------------

class Obj:
    """hashable harness object: identity uid, equality class eq"""

    def __init__(self, uid, eq):
        self.uid, self.eq = uid, eq

    def __eq__(self, o):
        return isinstance(o, Obj) and o.eq == self.eq

    def __hash__(self):
        return hash(('Obj', self.eq))

    def __repr__(self):
        return f'Obj#{self.uid}'


class UObj:
    """unhashable harness object"""
    __hash__ = None

    def __init__(self, uid):
        self.uid = uid

    def __eq__(self, o):
        return self is o

    def __repr__(self):
        return f'UObj#{self.uid}'


class HBase(BaseException):
    pass


class Tripwire:
    def __init__(self):
        object.__setattr__(self, '_hits', [])

    def __getattr__(self, name):
        self._hits.append(name)
        return self

    def __call__(self, *a, **k):
        self._hits.append('()')
        return self


class ItemsObj:
    """anything with .items() (not iterable itself)"""

    def __init__(self, pairs):
        self._pairs = pairs

    def items(self):
        return list(self._pairs)


def make_mapsub(pairs):
    """a collections.abc.Mapping whose iteration / indexing describe OTHER content than its
    overridden .items(): parse_to_dict must go through .items() (parsing.py:86-89)"""
    import collections.abc

    class MapSub(collections.abc.Mapping):
        def __iter__(self):
            return iter(['decoy=1', 'zz'])

        def __len__(self):
            return 2

        def __getitem__(self, k):
            return 'decoy'

        def items(self):
            return list(pairs)
    return MapSub()


def make_dictsub(pairs):
    """a dict subclass holding decoy content whose .items() is overridden"""
    class DictSub(dict):
        def items(self):
            return iter(list(pairs))
    return DictSub({'decoy': '1', 'zz': '2'})


RAW_NAMES = ['i1', 'f1', 'bT', 'i0', 'i2', 'none', 'tup', 'tupf', 'lst', 'b1', 'bl', 'obj0', 'obj1', 'obj2',
             'unh', 'node', 'fs']


def make_raw(name):
    import ast
    return {
        'i1': lambda: 1, 'f1': lambda: 1.0, 'bT': lambda: True, 'i0': lambda: 0, 'i2': lambda: 2,
        'none': lambda: None, 'tup': lambda: (1, 2), 'tupf': lambda: (1.0, 2), 'lst': lambda: [1],
        'b1': lambda: b'1', 'bl': lambda: b'[1]', 'obj0': lambda: Obj(0, 0), 'obj1': lambda: Obj(1, 0),
        'obj2': lambda: Obj(2, 1), 'unh': lambda: UObj(3), 'node': lambda: ast.Constant(value=7),
        'fs': lambda: frozenset({1}),
    }[name]()


# ---- custom parsers: pure functions of the string ---------------------------

def p_hashy(s):
    h = sum(map(ord, s)) % 8
    if h == 0:
        raise ValueError(s)
    if h == 1:
        raise KeyError(s)
    if h == 2:
        raise HBase(s)
    if h == 3:
        return len(s)
    if h == 4:
        return s[::-1]
    if h == 5:
        return Obj(100 + len(s) % 3, len(s) % 3)
    if h == 6:
        return [s]
    return float(len(s))


def p_upper(s):
    if not s:
        raise ValueError('empty')
    return s.upper()


def p_keyerr(s):
    raise KeyError(s)


def p_basexc(s):
    if len(s) % 2 == 0:
        raise HBase(s)
    return len(s)


def p_sysexit(s):
    raise SystemExit(s)


def p_int(s):
    return int(s)


def p_json(s):
    import json
    return json.loads(s)


def p_ident(s):
    return s


PARSERS = dict(hashy=p_hashy, upper=p_upper, keyerr=p_keyerr, basexc=p_basexc, sysexit=p_sysexit,
               int=p_int, json=p_json, ident=p_ident)

LIT_TYPES = (int, float, complex, str, bytes, bool, type(None), type(Ellipsis), tuple, list, dict, set, frozenset)


def vkey(o):
    if isinstance(o, (Obj, UObj)):
        return ('Obj', o.uid)
    if type(o) in LIT_TYPES:
        return (type(o).__name__, re.sub(r'0x[0-9a-f]+', '0x', repr(o)))
    return (type(o).__name__, '?')


class Universe:
    def __init__(self):
        self.vids, self.classes = {}, {}

    def enc(self, o):
        if type(o) is str:
            return ['s', o]
        vid = self.vids.setdefault(vkey(o), len(self.vids))
        try:
            hash(o)
            h = True
        except TypeError:
            h = False
        kc = self.classes.setdefault(o, len(self.classes)) if h else 0
        return ['v', vid, kc, h]


def occurrences(s, sep):
    if not sep:
        return []
    out, i = [], s.find(sep)
    while i >= 0:
        out.append(i)
        i = s.find(sep, i + 1)
    return out


def run_impl(case):
    import ast
    import builtins
    import types
    import aiuti.parsing as P
    sep, pk = case['sep'], case['pk']
    inner = PARSERS[case['parser']] if case['parser'] else None
    U = Universe()
    # ---- build the input objects -------------------------------------------
    items_py, items_enc = [], []
    for it in case['items']:
        if it[0] == 'S':
            items_py.append(it[1])
            items_enc.append(['S', it[1]])
        else:
            kv = []
            for spec in it[1:]:
                kv.append(spec[1] if spec[0] == 's' else make_raw(spec[1]))
            items_py.append(kv if case.get('pairlist') else tuple(kv))
            items_enc.append(['P', U.enc(kv[0]), U.enc(kv[1])])
    shape = case['shape']
    allpairs = all(it[0] == 'P' for it in case['items'])
    if shape in ('dict', 'proxy', 'view', 'itemsobj', 'mapsub', 'dictsub') and not allpairs:
        shape = 'list'
    if shape == 'keys':
        # the keys view of a dict whose keys are the 'key<sep>value' strings (needs distinct strings only)
        if any(it[0] != 'S' for it in case['items']) or len(set(items_py)) != len(items_py):
            shape = 'tuple'
    if shape in ('dict', 'proxy', 'view'):
        d = {}
        try:
            for k, v in items_py:
                if k in d:
                    raise TypeError
                d[k] = v
        except TypeError:
            shape = 'itemsobj'
    if shape == 'list':
        arg = list(items_py)
    elif shape == 'tuple':
        arg = tuple(items_py)
    elif shape == 'gen':
        arg = (x for x in items_py)
    elif shape == 'dict':
        arg = d
    elif shape == 'proxy':
        arg = types.MappingProxyType(d)
    elif shape == 'view':
        arg = d.items()             # a dict view has no .items(): it is iterated as pairs
    elif shape == 'keys':
        arg = dict.fromkeys(items_py).keys()
    elif shape == 'mapsub':
        arg = make_mapsub(items_py)
    elif shape == 'dictsub':
        arg = make_dictsub(items_py)
    else:
        arg = ItemsObj(items_py)
    # ---- oracle table: the parser the property says is in force --------------
    oracle = inner if inner else ast.literal_eval
    strings = []

    def want(s):
        if type(s) is str and s not in strings:
            strings.append(s)

    for it, py in zip(case['items'], items_py):
        if it[0] == 'S':
            for i in occurrences(py, sep):
                want(py[:i])
                want(py[i + len(sep):])
        else:
            want(py[0])
            want(py[1])
    table = []
    for s in strings:
        try:
            r = U.enc(oracle(s))
        except BaseException:
            r = None
        table.append([s, r])
    # ---- run the real code -----------------------------------------------------
    log = []
    kwargs = {}
    if not (case.get('defaults') and sep == '='):
        kwargs['sep'] = sep
    if not (case.get('defaults') and pk is True):
        kwargs['parse_keys'] = pk
    if inner:
        def logged(x):
            log.append(x if type(x) is str else MARK)
            return inner(x)
        kwargs['parse'] = logged
    tw = Tripwire()
    builtins.tripwire = tw
    P.tripwire = tw
    try:
        try:
            out = P.parse_to_dict(arg, **kwargs)
            if type(out) is dict:
                res = ['ok', [[U.enc(k), U.enc(v)] for k, v in out.items()]]
            else:
                res = ['other', 8]
        except ValueError as e:
            res = ['other', 1]
            for i, py in enumerate(items_py):
                if type(py) is str and str(e) == f'{py} is not like KEY{sep}VALUE':
                    res = ['notkv', i]
                    break
        except KeyError:
            res = ['other', 2]
        except HBase:
            res = ['other', 3]
        except SystemExit:
            res = ['other', 4]
        except TypeError as e:
            res = ['unhashable'] if str(e).startswith('unhashable type') else ['other', 5]
        except AttributeError:
            res = ['other', 6]
        except BaseException:
            res = ['other', 9]
    finally:
        del builtins.tripwire
        try:
            del P.tripwire
        except AttributeError:
            pass
    return dict(res=res, log=log, trip=len(tw._hits), table=table, items=items_enc)


def error_obs(case, o):
    return dict(res=['other', 10], log=[], trip=0, table=[],
                items=[['S', it[1]] if it[0] == 'S' else ['P', ['s', ''], ['s', '']] for it in case['items']])


# ---- Coq literals -----------------------------------------------------------

def _str(s):
    return C.coq_list([str(min(ord(c), 4998)) if c != MARK else '4999' for c in s])


def _obj(e):
    if e[0] == 's':
        return f'OStr {_str(e[1])}'
    return f'OVal {C.coq_nat(e[1])} {C.coq_nat(e[2])} {C.coq_bool(e[3])}'


def _item(it):
    if it[0] == 'S':
        return f'IStr {_str(it[1])}'
    return f'IPair ({_obj(it[1])}) ({_obj(it[2])})'


def _table(t):
    return C.coq_list([f"({_str(s)}, {'None' if r is None else 'Some (' + _obj(r) + ')'})" for s, r in t])


def _res(r):
    if r[0] == 'ok':
        return 'Ok ' + C.coq_list([f'({_obj(k)}, {_obj(v)})' for k, v in r[1]])
    if r[0] == 'notkv':
        return f'ErrNotKV {C.coq_nat(r[1])}'
    if r[0] == 'unhashable':
        return 'ErrUnhashable 0'
    return f'ErrOther {C.coq_nat(r[1])}'


def _inputs(case, o):
    return (f"{_str(case['sep'])} {C.coq_bool(case['pk'])} {C.coq_bool(bool(case['parser']))} "
            f"{_table(o['table'])} {C.coq_list([_item(i) for i in o['items']])}")


def to_coq(case, o):
    return (f"Case {_inputs(case, o)} ({_res(o['res'])}) "
            f"{C.coq_list([_str(s) for s in o['log']])} {C.coq_nat(min(o['trip'], 99))}")


def explain_exprs(case, o):
    a = (f"(lookup {_table(o['table'])}) {_str(case['sep'])} {C.coq_bool(case['pk'])} "
         f"{C.coq_list([_item(i) for i in o['items']])}")
    return [f'parse_to_dict {a}', f'calls {a}']


# ---- generators -------------------------------------------------------------

FRAGS = ['1', '-2', '1.0', '1e3', '"b"', "'a'", 'a', 'abc', 'True', 'None', '(1, 2)', '[1, 2]', "{'k': 1}",
         '1+1', "__import__('os').getcwd()", 'tripwire.hit()', 'x', ' 1', '', ' ', 'a=b', '=', 'a:b', '1j',
         "b'x'", '0', 'False', '"="', '"a:b"', 'é', '{1, 2}', '1 == 1', 'tripwire', 'len("ab")', '[1][0]',
         'parse']
SMALL = ['1', '1.0', '"b"', 'a', 'a=b', 'tripwire.hit()', '']
MEDIUM = SMALL + ['True', '[1, 2]', ':']
SEPS = ['=', ':', '==', '=:']
MAP_SHAPES = ['dict', 'view', 'mapsub', 'proxy', 'dictsub', 'itemsobj']


def S(text):
    return ['S', text]


def P(k, v):
    return ['P', k, v]


def s_(text):
    return ['s', text]


def r_(name):
    return ['r', name]


def mk(items, sep='=', pk=True, parser=None, shape='list', defaults=False, pairlist=False):
    return dict(sep=sep, pk=pk, parser=parser, shape=shape, defaults=defaults, pairlist=pairlist,
                items=[list(i) for i in items])


def as_shape(pairs, kind, sep):
    """the same (key, value) string pairs as joined strings / pairs / mapping"""
    if kind == 'join':
        return [S(k + sep + v) for k, v in pairs], 'list'
    if kind == 'pairs':
        return [P(s_(k), s_(v)) for k, v in pairs], 'list'
    return [P(s_(k), s_(v)) for k, v in pairs], 'dict'


def corpus():
    out = [
        # the doctests
        mk([P(s_('a'), s_('1')), P(s_('2'), s_('"b"'))], shape='dict', defaults=True),
        mk([S('a=1'), S('2="b"'), S('"b"=1.4')], defaults=True),
        mk([P(s_('a'), s_('1')), P(s_('2'), s_('"b"'))], shape='dict', pk=False),
        mk([S('a=1'), S('2=b')], pk=False),
        mk([S('a:1'), S('2:"b"'), S('"b":1.4')], sep=':'),
        # value containing the separator; separators of length 2; k="a", sep="aa"
        mk([S('a=b=c'), S('x==1')]), mk([S('a==b=c')], sep='=='), mk([S('aaab')], sep='aa'),
        mk([S('a=:1=:2')], sep='=:'), mk([S('=')]), mk([S('==')]), mk([S('a=')]), mk([S('=1')]),
        # no separator / empty string / empty separator
        mk([S('a=1'), S('novalue'), S('b')]), mk([S('')]), mk([S('a=1')], sep=''), mk([]),
        # expressions must not be evaluated
        mk([S("a=__import__('os').getcwd()"), S('b=tripwire.hit()'), S('tripwire.x=1+1')]),
        mk([P(s_('tripwire.hit()'), s_('tripwire'))], shape='dict'),
        # equal keys collapse: first key object, last value
        mk([S('1=a'), S('1.0=b'), S('True=c')]), mk([S('1=a'), S('1.0=b'), S('True=c')], pk=False),
        mk([P(r_('i1'), s_('a')), P(r_('f1'), s_('b')), P(r_('bT'), r_('lst'))]),
        # unhashable parsed key; bad item after it / before it
        mk([S('[1]=2'), S('nosep')]), mk([S('nosep'), S('[1]=2')]), mk([S('[1]=2')], pk=False),
        # non-string objects pass through (bytes that look like literals, ast node)
        mk([P(r_('b1'), r_('bl')), P(s_('n'), r_('node')), P(r_('none'), r_('i0'))]),
        mk([P(r_('obj0'), s_('1')), P(r_('obj1'), s_('2')), P(r_('obj2'), r_('unh'))], shape='itemsobj'),
        mk([P(r_('unh'), s_('1'))], shape='itemsobj'),
        # custom parsers that raise
        mk([S('a=1'), S('bb=22')], parser='keyerr'), mk([S('a=1'), S('bb=22')], parser='basexc'),
        mk([S('a=1'), S('bb=22')], parser='sysexit'), mk([S('a=1'), S('x=y')], parser='int'),
        mk([S('a=1'), S('bb=[1, "x"]'), S('"k"=null')], parser='json'),
        mk([S('a=1'), S('ab=cd'), S('abc=')], parser='hashy'), mk([S('a=b')], parser='upper', pk=False),
        mk([P(r_('i1'), r_('b1')), P(s_('k'), r_('none'))], parser='hashy'),
        # separators that are prefixes of each other
        mk([S('a==b')], sep='='), mk([S('a=b')], sep='=='), mk([S('a===b')], sep='=='), mk([S('a=:=b')], sep='=:'),
        mk([S('a=:=b')], sep='='), mk([S('a:==b')], sep='=:'), mk([S('k=v'), S('k==v'), S('k=:v')], sep='=', pk=False),
        # dict views, Mapping / dict subclasses whose .items() is overridden (the decoy content must not show)
        mk([P(s_('a'), s_('1')), P(s_('2'), s_('"b"'))], shape='view'),
        mk([S('a=1'), S('2="b"')], shape='keys'),
        mk([P(s_('a'), s_('1')), P(s_('2'), s_('"b"'))], shape='mapsub'),
        mk([P(s_('a'), s_('1')), P(s_('a'), s_('2'))], shape='mapsub', pk=False),
        mk([P(s_('a'), s_('1')), P(r_('unh'), s_('"b"'))], shape='dictsub'),
        mk([], shape='mapsub'), mk([], shape='dictsub'),
    ]
    return out


def gen_exhaustive(tier, seed):
    out = []
    kinds = ['join', 'pairs', 'map']
    n = 0
    thorough = tier == 'thorough'
    for k in FRAGS:
        for v in FRAGS:
            n += 1
            cfgs = [('=', True, 'join', True)]
            if thorough:
                cfgs += [(sep, pk, kind, False) for sep in SEPS for pk in (True, False) for kind in kinds]
            else:
                cfgs.append((SEPS[n % 4], bool((n // 4) % 2), kinds[(n // 8) % 3], False))
            for sep, pk, kind, dflt in cfgs:
                items, shape = as_shape([(k, v)], kind, sep)
                if shape == 'dict':
                    shape = MAP_SHAPES[(n // 3) % len(MAP_SHAPES)]
                out.append(mk(items, sep=sep, pk=pk, shape=shape, defaults=dflt))
    alpha = MEDIUM if thorough else SMALL
    for k1, v1, k2, v2 in itertools.product(alpha, repeat=4):
        n += 1
        cfgs = [(SEPS[n % 4], bool((n // 4) % 2), kinds[(n // 8) % 3])]
        if thorough:
            cfgs.append((SEPS[(n + 1) % 4], not bool((n // 4) % 2), kinds[(n // 8 + 1) % 3]))
        for sep, pk, kind in cfgs:
            items, shape = as_shape([(k1, v1), (k2, v2)], kind, sep)
            if shape == 'dict':
                shape = MAP_SHAPES[(n // 3) % len(MAP_SHAPES)]
                if k1 == k2 and shape in ('dict', 'proxy', 'view'):
                    shape = 'itemsobj'
            elif kind == 'join' and n % 5 == 0:
                shape = 'keys'
            out.append(mk(items, sep=sep, pk=pk, shape=shape))
    return out


def rand_text(rnd, sep):
    r = rnd.random()
    if r < 0.6:
        return rnd.choice(FRAGS)
    if r < 0.75:
        return rnd.choice(FRAGS) + sep + rnd.choice(FRAGS)
    if r < 0.85:
        return rnd.choice(FRAGS) + rnd.choice(FRAGS)
    if r < 0.93:
        return rnd.choice(['1', '1.0', 'True', '"1"', "'1'", ' 1', '1 ', '0x1', '1_0', '01', '1e0', '(1)', '+1'])
    return ''.join(rnd.choice('a1= :"\'[](),.') for _ in range(rnd.randint(0, 6)))


def gen_random(tier, seed):
    rnd = random.Random(seed * 7919 + 19)
    N = 1500 if tier == 'quick' else 20000
    out = []
    for _ in range(N):
        sep = rnd.choice(SEPS + SEPS + ['a', 'aa', ' ', '=='])
        if rnd.random() < 0.02:
            sep = ''
        pk = rnd.random() < 0.6
        parser = None if rnd.random() < 0.6 else rnd.choice(list(PARSERS))
        n = rnd.choice([0, 1, 1, 2, 2, 3, 3, 3, 4, 4, 4, 5, 6])
        style = rnd.random()
        items = []
        for _i in range(n):
            r = rnd.random()
            if style < 0.35 or (style < 0.7 and r < 0.5):
                k, v = rand_text(rnd, sep), rand_text(rnd, sep)
                items.append(S(k + sep + v) if rnd.random() < 0.92 else S(rnd.choice(FRAGS)))
            else:
                def o():
                    return r_(rnd.choice(RAW_NAMES)) if rnd.random() < 0.35 else s_(rand_text(rnd, sep))
                items.append(P(o(), o()))
        allp = all(i[0] == 'P' for i in items)
        shape = rnd.choice(['list', 'tuple', 'gen'] + MAP_SHAPES if allp else ['list', 'tuple', 'gen', 'keys'])
        out.append(mk(items, sep=sep, pk=pk, parser=parser, shape=shape, defaults=rnd.random() < 0.3,
                      pairlist=rnd.random() < 0.3))
    return out


def gen_search(tier, seed):
    return gen_random('quick', seed + 1000) + gen_exhaustive('quick', seed)


def shrink_candidates(case):
    out = []
    items = case['items']
    for i in range(len(items)):
        out.append(dict(case, items=items[:i] + items[i + 1:]))
    for i, it in enumerate(items):
        if it[0] == 'S' and len(it[1]) > 1:
            s = it[1]
            for j in range(len(s)):
                out.append(dict(case, items=items[:i] + [['S', s[:j] + s[j + 1:]]] + items[i + 1:]))
        elif it[0] == 'P':
            for pos in (1, 2):
                if it[pos][0] == 's' and len(it[pos][1]) > 1:
                    s = it[pos][1]
                    for j in range(len(s)):
                        new = list(it)
                        new[pos] = ['s', s[:j] + s[j + 1:]]
                        out.append(dict(case, items=items[:i] + [new] + items[i + 1:]))
    if case['shape'] != 'list':
        out.append(dict(case, shape='list'))
    if case.get('pairlist'):
        out.append(dict(case, pairlist=False))
    return out


def distribution(cases, obs):
    d = dict(items=0, string_items=0, pair_items=0, raw_objects=0, default_parser=0, custom_parser=0,
             parse_keys_on=0, shape_mapping=0, shape_view=0, shape_items_overridden=0, shape_pairs=0, ok=0, err_notkv=0, err_unhashable=0, err_other=0,
             oracle_rejected=0, oracle_accepted=0, sep_len2=0, value_has_sep=0, custom_calls=0, len_hist={})
    for c, o in zip(cases, obs):
        n = len(c['items'])
        d['len_hist'][str(n)] = d['len_hist'].get(str(n), 0) + 1
        d['items'] += n
        for it in c['items']:
            if it[0] == 'S':
                d['string_items'] += 1
                d['value_has_sep'] += bool(c['sep']) and it[1].count(c['sep']) >= 2
            else:
                d['pair_items'] += 1
                d['raw_objects'] += (it[1][0] == 'r') + (it[2][0] == 'r')
        d['custom_parser' if c['parser'] else 'default_parser'] += 1
        d['parse_keys_on'] += bool(c['pk'])
        d['shape_mapping'] += c['shape'] in ('dict', 'proxy', 'itemsobj', 'mapsub', 'dictsub')
        d['shape_view'] += c['shape'] in ('view', 'keys')
        d['shape_items_overridden'] += c['shape'] in ('mapsub', 'dictsub')
        d['shape_pairs'] += c['shape'] in ('list', 'tuple', 'gen') and any(i[0] == 'P' for i in c['items'])
        d['sep_len2'] += len(c['sep']) == 2
        if isinstance(o, dict) and 'res' in o:
            k = o['res'][0]
            d[{'ok': 'ok', 'notkv': 'err_notkv', 'unhashable': 'err_unhashable'}.get(k, 'err_other')] += 1
            d['oracle_rejected'] += sum(1 for _, r in o['table'] if r is None)
            d['oracle_accepted'] += sum(1 for _, r in o['table'] if r is not None)
            d['custom_calls'] += len(o['log'])
    return d


LEVEL_TEXT = ('parse_to_dict is modelled step for step (try_parse / parse_tuple / parse_pair / lazy dict construction) '
              'with the parser as an oracle (coq/theories/Parse.v); props/C19.v proves (17 theorems) for ALL item lists, '
              'separators, oracles and parse_keys: the result is the dictionary of the parsed pairs or the error of the '
              'first bad item (parse_model_spec, pair_equations); strings are split at the first occurrence of the '
              'separator only (split_first_only, split_none: complete characterisation); the three input shapes agree '
              'whenever the joined strings split back at the intended place (shapes_agree, shapes_agree_char); '
              'non-strings are untouched and string content matters only through the oracle and the split '
              '(only_parse_touches_strings, no_literal_pure_repairing); the dictionary keeps first keys in order and '
              'last values (dict_last_value_wins, dict_first_key_kept).  The trace monitor is proved complete w.r.t. the '
              'model (monitor_accepts_model) and sound AND complete w.r.t. a model-free relational statement about the '
              'observation alone — first-occurrence cut, literal replacement by the oracle table, keys iff parse_keys, '
              'insertion-built dictionary, first failing item decides, parser call log, tripwire silent — '
              '(monitor_sound, monitor_sound_converse, statement_relations_are_the_model, model_satisfies_statement; '
              'monitor_is_model_comparison: ok c = agree c for every case).  The source facts (default '
              'parser is ast.literal_eval, split(sep, 1), bare except, isinstance guards, parse_keys branch, .items(), '
              'dict(map(parse_pair, items)) or its explicit-loop spelling) are re-extracted from the AST on every run '
              'and must equal the modelled shape (source_shape_as_modelled).  Tied to /repo by running the real '
              'function on a fragment grammar (lists, tuples, generators, dicts, dict views, mapping proxies, Mapping / '
              'dict subclasses with overridden .items()) with a tripwire object in scope and comparing result, error '
              'and parser call log with the model inside Coq.')
LEVEL_NOTE = ('trusted: Coq kernel + vm_compute; no axioms; ast.literal_eval is an oracle (its safety is CPython\'s); '
              'str.split/dict/==/hash are modelled primitives validated only by the correspondence; '
              'harness/props/C19.py, harness/c19_translate.py, coq/theories/Case_C19.v')
TECHNIQUE = ('Coq proof (list induction; oracle as Section variable; monitor soundness/completeness against a '
             'relational statement) + fail-closed ast translator for the syntactic facts + differential '
             'correspondence evaluated by vm_compute')
