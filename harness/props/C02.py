"""C02 — FileLock mutual exclusion across threads, objects and processes (aiuti/filelock.py).
D-runs: gated threads under explicit schedules, replayed step for step by the Coq model.
F-runs: free-running OS processes with an O_EXCL marker file (assumption validation)."""
from __future__ import annotations

import json
import multiprocessing as mp
import os
import random
import shutil
import subprocess
import tempfile

from .. import common as C
from .. import flock_drv as D

PROP = 'C02'
READY = True
PROPS_MODULE = 'C02'
MODEL_TARGETS = ['theories/Case_C02.vo']
HEADER = ('From Coq Require Import List NArith. Import ListNotations.\n'
          'Require Import Aiuti.FLock Aiuti.Case_C02.')
CASE_TYPE = 'Case_C02.case'
VERDICT = 'Case_C02.verdict'
PARALLEL = 16
CHUNK = 250
TASKS_PER_CHILD = 300
POLL = 2
TSMALL = 2 * POLL

RULE = ('D-run case = (object configs, thread programs of acquire/critical-section/release rounds through acquire(), '
        'acquire_ctx() and the with-statement (every second context-manager exit leaves the block through an exception: '
        'ValueError, a harness BaseException that is not an Exception, asyncio.CancelledError, in rotation), blocking / '
        'non-blocking / timed, reentrant nesting and forced release, '
        'optional OSError script, schedule = thread chosen at every gate) run on the real FileLock with real '
        'open/flock/close on a real lock file; gates = the harness "call" gate at every API call, thread-lock '
        'acquire/release, os.open, flock, os.close, time.sleep; the model replays the realised schedule one step per gate '
        'and must produce the same (thread, op) sequence, results, occupancy log and end state.  Exhaustive layer: ALL '
        'schedules of the implementation\'s decision tree (stateless DFS, preemption bound 2 quick / 3 thorough) for every '
        'pair of acquire flavours x same/different object x reentrant or not, 2 threads x 1 round; random layer: 2..3 (4) '
        'threads, 1..2 (3) rounds, random schedules, sometimes faults.  Also in every layer: a release() of a lock the '
        'caller does not hold (a no-op by contract) issued by a third thread while another thread is in the middle of '
        'acquire() on that object, and a holder that DROPS its lock object instead of releasing (del -> __del__ -> '
        'release(force=True); model: CRel o true; only on objects no other thread uses, a fresh object takes its place) '
        'against a parked or polling contender; and programs in which the first os.open / flock of the run raises the '
        'KeyboardInterrupt flavour (the acquire re-raises), the other object then acquires, and the first object tries again '
        'while the other one is inside (nothing of an aborted attempt may be reused).  A run in which the model sees a thread release a lock that ANOTHER '
        'thread holds is outside the contract and not judged for occupancy (kernel/table mismatches are always judged).  '
        'L-run case (line-level layer) = the same gated threads, but EVERY source line of aiuti/filelock.py (sys.settrace '
        'in the managed threads) and the construction of a threading.Lock/RLock are gates too, so a thread can be stopped '
        'between any two statements: a victim thread is stopped after p decisions (every p, strided in quick), the other '
        'threads\' whole API calls run before / while it is stopped / after it finished the interrupted call in every block '
        'order and split; templates: two threads making the first use of one shared object, two objects on the path, an '
        'object shared by two threads while a third holds the path through another object, reentrant nesting / forced '
        'release against a contender.  Line-level decisions do not line up with the model\'s one-step-per-primitive '
        'granularity: these runs are judged by the monitor (occupancy log as above, plus the end-of-run observation: once '
        'all threads have finished and, by the log, nobody is inside, every object must report is_locked False and a fresh '
        'non-blocking acquire by a probe must succeed); agree compares only schedule-independent facts (every reported '
        'result is one the call can have in the model, along the program\'s skip structure).  '
        'F-run case = N free-running OS processes x rounds; mode forkhold = a holder that os.fork()s a do-nothing child '
        'while inside must stay the holder (a second object of its process is refused until it releases). '
        'non-trivial (decided in Coq) = at least two different threads got inside / all process rounds completed.')
EXHAUSTIVE_NOTE = ('all schedules with <= 2 (quick) / <= 3 (thorough) preemptions of 2 threads x 1 round for every flavour pair; '
                   'the schedule tree is enumerated on the implementation itself')
ASSUMPTIONS = ['kernel flock(2) semantics (exclusive per open file description, dropped on close / process exit): assumed by '
               'the model, checked against the shim table on every syscall of the D-runs and by the multi-process F-runs',
               'threading.Lock/RLock are modelled primitives (gate.GLock/GRLock)',
               'D-runs: code between two gates touches only thread-local state or state protected by the thread lock (this is what '
               'the line-level L-runs test instead of assuming: there every statement boundary is a scheduling point)']
TRUSTED = ['harness/gate.py, harness/flock_shims.py, harness/flock_drv.py, harness/flock_proc.py, coq/theories/Case_C02.v']
ALLOWED_AXIOMS = []

# flavour: (mode, blocking, timeout)
FL = {'blk': ('plain', True, None), 'nb': ('plain', False, None), 'timed': ('plain', True, TSMALL),
      'ctx': ('ctx', True, None), 'with': ('with', True, None), 'ctxnb': ('ctx', False, None),
      'ctxtimed': ('ctx', True, TSMALL), 't0': ('plain', True, 0),
      'long': ('plain', True, 6 * POLL), 'vlong': ('plain', True, 12 * POLL)}


def A(o, fl, skip):
    mode, blk, tm = FL[fl]
    if mode == 'with':
        return ['acq', o, 'with', True, None, D.DEFAULT_POLL_TICKS, skip]
    return ['acq', o, mode, blk, tm, POLL, skip]


def R(o, force=False):
    return ['rel', o, force]


def DEL(o):
    """The calling thread drops the object (-> __del__ -> release(force=True)); model: CRel o true."""
    return ['del', o]


def round_(o, fl, shape='simple', fl2='blk'):
    if shape == 'nested':
        return [A(o, fl, 3), A(o, fl2, 1), R(o), R(o)]
    if shape == 'force':
        return [A(o, fl, 2), A(o, fl2, 0), R(o, True)]
    return [A(o, fl, 1), R(o)]


def mk(cfg, progs, schedule=(), faults=(), max_steps=600):
    return dict(kind='sched', objs=cfg, progs=progs, schedule=list(schedule), faults=[list(f) for f in faults],
                max_steps=max_steps)


def run_procs(case):
    d = tempfile.mkdtemp(prefix='flock-F-')
    try:
        lock, marker = os.path.join(d, 'x.lock'), os.path.join(d, 'marker')
        env = dict(os.environ, PYTHONPATH=C.REPO)
        script = os.path.join(os.path.dirname(os.path.dirname(os.path.abspath(__file__))), 'flock_proc.py')
        if case.get('mode') == 'forkhold':
            # one holder process that forks a do-nothing child while holding (descriptor inherited)
            ps = [subprocess.Popen([C.PY, script, 'forkhold', lock, str(case['rounds'])],
                                   env=env, stdout=subprocess.PIPE, stderr=subprocess.DEVNULL, text=True)
                  for i in range(case['nproc'])]
        else:
            ps = [subprocess.Popen([C.PY, script, 'contend', lock, marker, str(case['rounds']), str(i % 6)],
                                   env=env, stdout=subprocess.PIPE, stderr=subprocess.DEVNULL, text=True)
                  for i in range(case['nproc'])]
        tot = dict(completed=0, collisions=0, errors=0)
        for p in ps:
            try:
                out, _ = p.communicate(timeout=240)
                r = json.loads(out.strip().splitlines()[-1])
            except Exception:
                p.kill()
                r = dict(completed=0, collisions=0, errors=1)
            for k in tot:
                tot[k] += r[k]
        return tot
    finally:
        shutil.rmtree(d, ignore_errors=True)


def run_impl(case):
    if case['kind'] == 'procs':
        return run_procs(case)
    if case['kind'] == 'line':
        return D.run_line(case)
    return D.run_sched(case)


def error_obs(case, o):
    if case['kind'] == 'procs':
        return dict(completed=0, collisions=0, errors=1)
    if case['kind'] == 'line':
        return dict(results=[[] for _ in case['progs']], occ=[], end='error', km=1, locked_end=[False] * len(case['objs']),
                    probe=False, vsteps=[0] * len(case['progs']))
    return dict(trace=[], results=[[] for _ in case['progs']], occ=[], end='error', final=[99] * len(case['progs']), km=1)


def to_coq(case, o):
    if case['kind'] == 'procs':
        return (f"CProcs {case['nproc']} {case['rounds']} {min(o['completed'], 4000)} "
                f"{min(o['collisions'], 4000)} {min(o['errors'], 4000)}")
    progs = C.coq_list([C.coq_list([D.call_coq(c) for c in p]) for p in case['progs']])
    results = C.coq_list([C.coq_list([D.RES_COQ.get(r, 'ROutOfFuel') for r in rs]) for rs in o['results']])
    occ = C.coq_list([f'({t}, {C.coq_bool(e)}, {n}, {C.coq_bool(l)})' for t, e, n, l in o['occ']])
    end = {'ok': 0, 'deadlock': 1, 'steps': 2}.get(o['end'], 9)
    if case['kind'] == 'line':
        return (f"CLine {D.objs_coq(case['objs'])} {progs} {results} {occ} {end} "
                f"{C.coq_list([C.coq_bool(b) for b in o['locked_end']])} {C.coq_bool(o['probe'])} {min(o['km'], 99)}")
    return (f"CSched {D.objs_coq(case['objs'])} {D.faults_coq(case['faults'])} {progs} "
            f"{D.sched_trace_coq(o['trace'])} {results} {occ} {C.coq_list([str(x) for x in o['final']])} "
            f"{end} {min(o['km'], 99)}")


def explain_exprs(case, o):
    if case['kind'] == 'line':
        lit = to_coq(case, o)
        return [f'(Case_C02.agree ({lit}), Case_C02.ok ({lit}))']
    return [f'Case_C02.model_trace ({to_coq(case, o)})']


def corpus():
    c1 = [[False, -1], [False, TSMALL]]
    return [
        # F5 (fixed by ddf5b36): with-statement on a timed object while the other object holds
        mk(c1, [round_(0, 'blk'), round_(1, 'with')], [0, 0, 0, 0] + [1] * 40),
        # two threads, one object, second arrives while the first is inside
        mk([[False, -1]], [round_(0, 'blk'), round_(0, 'blk')], [0, 0, 0, 0, 1, 1, 0, 0, 0, 0]),
        # two objects, blocking flock waits for the other object's release
        mk([[False, -1], [False, -1]], [round_(0, 'with'), round_(1, 'ctx')], [0, 0, 0, 1, 1, 1, 1, 0]),
        # nested reentrant + forced release against a timed contender
        mk([[True, -1], [False, -1]], [round_(0, 'blk', 'force'), round_(1, 'timed')], [0, 0, 0, 0, 1, 1, 1, 0]),
        # two-stage timeout: t2 waits for the thread lock of object 0 while t1 polls on it (t0 keeps the OS
        # lock through object 1 for 26 ticks); t2's OS-stage timeout must start when it got the thread lock
        mk([[False, -1], [False, -1], [False, -1]],
           [[A(1, 'blk', 2), A(2, 'vlong', 0), R(1)], round_(0, 'timed'), round_(0, 'long')],
           [0] * 9 + [1] * 5 + [2] * 2),
        mk([[False, -1], [False, -1], [False, -1]],
           [[A(1, 'with', 2), A(2, 'vlong', 0), R(1)], round_(0, 'ctxtimed'), round_(0, 'long')],
           [0] * 4 + [1] * 3 + [2, 0, 1, 0, 2, 1, 0, 0, 0, 1, 1]),
        dict(kind='procs', nproc=3, rounds=10),
        # a release of an UNHELD lock is a no-op: t2 calls release() on object 0 while t1 sits in acquire() on it
        # (thread lock taken, counter 1, waiting for the OS lock held through object 1); t1 must stay the only owner
        mk([[False, -1], [False, -1]], [round_(1, 'blk'), round_(0, 'blk'), [R(0), A(0, 'nb', 1), R(0)]],
           [0, 0, 0, 0, 1, 1, 1, 2, 2, 2, 2, 0, 0, 0, 0, 1, 2, 2, 2, 2, 2, 1, 1, 1, 1]),
        mk([[True, -1], [False, -1]], [round_(1, 'with'), round_(0, 'timed'), [R(0), R(0, True), A(0, 'nb', 1), R(0)]],
           [0, 0, 0, 0, 1, 1, 1, 1, 1, 2, 2, 2, 2, 0, 0, 0, 0] + [1] * 8 + [2] * 8),
        # the holder drops its lock object (__del__ -> forced release) while a contender is parked in flock on the
        # other object; then re-acquires through a fresh object: the lock FILE must stay the same inode
        mk([[False, -1], [False, -1]], [[A(0, 'blk', 3), DEL(0), A(0, 'nb', 1), R(0)], round_(1, 'blk')],
           [0, 0, 0, 0, 1, 1, 1, 0, 0, 0, 0, 1, 0, 0, 0, 0, 1, 1, 1, 1, 0, 0, 0, 0]),
        mk([[True, -1], [False, -1]], [[A(0, 'with', 4), A(0, 'nb', 0), DEL(0), A(0, 'blk', 1), R(0)], round_(1, 'timed')],
           [0, 0, 0, 0, 0, 0, 1, 1, 1, 1, 1, 0, 0, 0, 0, 0] + [1] * 10 + [0] * 10),
        # a holder that forks a do-nothing child keeps the lock (the child only inherits the descriptor)
        dict(kind='procs', mode='forkhold', nproc=1, rounds=5),
        # an interrupt (KeyboardInterrupt flavour) out of object 0's first flock: acquire() re-raises after closing the
        # descriptor; object 1 then acquires (and is given the same descriptor NUMBER); object 0's next, non-blocking
        # acquire must be refused while object 1 is inside (nothing of the aborted attempt may be reused)
        mk([[False, -1], [False, -1]], [[A(0, 'blk', 0), A(0, 'nb', 1), R(0)], [A(1, 'blk', 1)]],
           [0] * 8 + [1] * 8 + [0] * 12, faults=[('lock', 0, 'ki')]),
        mk([[True, -1], [False, -1]], [[A(0, 'with', 0), A(0, 'timed', 1), R(0)], round_(1, 'blk')],
           [0] * 8 + [1] * 4 + [0] * 20 + [1] * 6, faults=[('lock', 0, 'ki')]),
        # line-level: thread 0 is stopped a few source lines into its first acquire() of a shared, so far unused
        # object; thread 1 acquires it completely; thread 0 goes on (must be refused / wait, never a second holder)
        mk_line([[False, -1]], [round_(0, 'blk'), round_(0, 'blk')], [['steps', 0, 8], ['call', 1], ['call', 0]]),
        mk_line([[True, -1]], [round_(0, 'nb'), round_(0, 'with')], [['steps', 0, 9], ['call', 1], ['call', 0]]),
        # line-level: thread 0's non-blocking acquire of object 0 fails behind object 1 and is stopped inside its
        # clean-up; object 1 is released, thread 1 acquires and releases object 0, thread 0 finishes: afterwards nothing
        # may be left locked and a fresh acquire must succeed
        mk_line([[False, -1], [False, -1]], [round_(0, 'nb'), round_(0, 'blk'), round_(1, 'blk')],
                [['call', 2], ['steps', 0, 34], ['call', 2], ['call', 1], ['call', 1], ['call', 0]]),
        mk_line([[False, -1], [False, -1]], [round_(0, 'timed'), round_(0, 'blk'), round_(1, 'blk')],
                [['call', 2], ['steps', 0, 60], ['call', 2], ['call', 1], ['call', 1], ['call', 0]]),
    ]


def _explore(args):
    case, pb, cap = args
    return [dict(case, schedule=s) for s in D.explore(case, pbound=pb, max_runs=cap)]


def gen_exhaustive(tier, seed):
    pb = 2 if tier == 'quick' else 3
    cap = 400 if tier == 'quick' else 6000
    fls = ['blk', 'nb', 'timed', 'ctx', 'with'] if tier == 'quick' else ['blk', 'nb', 'timed', 'ctx', 'with', 'ctxnb', 'ctxtimed', 't0']
    jobs = []
    k = 0
    for same in (True, False):
        for f0 in fls:
            for f1 in fls:
                k += 1
                reent = bool(k % 2)
                dflt = TSMALL if (k % 3 == 0) else -1            # constructor timeout: matters for with / blocking flavours
                cfg = [[reent, -1]] if same else [[reent, -1], [not reent, dflt]]
                o1 = 0 if same else 1
                jobs.append((mk(cfg, [round_(0, f0), round_(o1, f1)]), pb, cap))
    # nesting / forced release against every flavour
    for f1 in fls:
        for shape in ('nested', 'force'):
            for same in (True, False):
                cfg = [[True, -1]] if same else [[True, -1], [False, -1]]
                jobs.append((mk(cfg, [round_(0, 'blk', shape, 'nb'), round_(0 if same else 1, f1)]), pb, cap))
    # a third thread releasing the (for it) unheld object 0 while thread 1 is in the middle of acquiring it
    # behind object 1; and a holder dropping its object (__del__) against a parked / polling contender
    for f1 in (['blk', 'timed'] if tier == 'quick' else ['blk', 'timed', 'with', 'ctx', 'long']):
        for reent in (False, True):
            jobs.append((mk([[reent, -1], [False, -1]],
                            [round_(1, 'blk'), round_(0, f1), [R(0), A(0, 'nb', 1), R(0)]]), 1 if tier == 'quick' else 2, cap))
            jobs.append((mk([[reent, -1], [False, -1]],
                            [[A(0, 'blk', 3), DEL(0), A(0, 'nb', 1), R(0)], round_(1, f1)]), pb, cap))
    # an aborted attempt must leave nothing behind that a later attempt could reuse: the FIRST flock of the run raises
    # the interrupt flavour (acquire re-raises), then the other object acquires, then the first object tries again
    # while the other one is inside (thread 1 never releases in the first shape, so one preemption suffices)
    ki_jobs = []
    for f0 in (['blk', 'with'] if tier == 'quick' else ['blk', 'with', 'timed', 'ctx']):
        for f2 in (['nb'] if tier == 'quick' else ['nb', 'timed', 'ctxnb']):
            for reent in (False, True):
                cfg = [[reent, -1], [not reent, -1]]
                for kind in ('open', 'lock'):
                    ki_jobs.append((mk(cfg, [[A(0, f0, 0), A(0, f2, 1), R(0)], [A(1, 'blk', 1)]],
                                       faults=[(kind, 0, 'ki')]), 1, cap))
                ki_jobs.append((mk(cfg, [[A(0, f0, 0), A(0, f2, 1), R(0)], round_(1, 'blk')],
                                   faults=[('lock', 0, 'ki')]), 2, 150 if tier == 'quick' else cap))
    with mp.get_context('fork').Pool(C.NPROC) as pool:
        out = [c for cs in pool.map(_explore, jobs, chunksize=1) for c in cs]
        ki_out = [c for cs in pool.map(_explore, ki_jobs, chunksize=1) for c in cs]
    if tier == 'quick':
        # keep the quick tier inside its budget: every job's schedules, thinned deterministically
        budget = 2600
        if len(out) > budget:
            step = len(out) / budget
            out = [out[int(i * step)] for i in range(budget)]
    out += ki_out
    out += gen_line(tier, seed)
    out.append(dict(kind='procs', nproc=4, rounds=20))
    out.append(dict(kind='procs', mode='forkhold', nproc=1, rounds=10))
    if tier != 'quick':
        out.append(dict(kind='procs', nproc=16, rounds=50))
        out.append(dict(kind='procs', nproc=8, rounds=50))
    return out


# ---- line-level layer: a victim thread is preempted between two SOURCE LINES of aiuti/filelock.py ------------

def mk_line(cfg, progs, plan):
    return dict(kind='line', objs=cfg, progs=progs, faults=[], plan=plan)


def _line_templates(tier):
    """(cfg, progs, victims, stride): deadlock-free, contract-respecting programs (each thread works on one object
    at a time, releases what it took)."""
    quick = tier == 'quick'
    fls = ['blk', 'nb', 'timed'] if quick else ['blk', 'nb', 'timed', 'with', 'ctxnb']
    out, k = [], 0
    # A: two threads making the first use of ONE shared object; B: two objects on the path
    for f0 in fls:
        for f1 in fls:
            k += 1
            r = bool(k % 2)
            g1 = 'with' if (quick and k % 3 == 0 and f1 == 'blk') else f1
            out.append(([[r, -1]], [round_(0, f0), round_(0, g1)], [0, 1], 3 if quick else 1))
            if not quick or k % 2:
                out.append(([[r, -1], [not r, -1]], [round_(0, f0), round_(1, g1)], [0, 1], 4 if quick else 1))
    # C: object 0 shared by two threads while a third thread holds the path through object 1
    for f0 in (['nb', 'ctxnb', 'blk'] if quick else fls):      # (a sleeping victim cannot be single-stepped: timed flavours add little here)
        for f1 in (['blk'] if quick else ['blk', 'nb']):
            k += 1
            out.append(([[bool(k % 2), -1], [False, -1]], [round_(0, f0), round_(0, f1), round_(1, 'blk')],
                        [0] if quick else [0, 1, 2], 2 if quick else 1))
    # D: reentrant nesting / forced release on a shared object against a contender
    for shape in ('nested', 'force'):
        for f1 in (['blk', 'nb'] if quick else fls):
            out.append(([[True, -1]], [round_(0, 'blk', shape, 'nb'), round_(0, f1)], [0, 1], 4 if quick else 1))
    return out


def _block_orders(others, progs):
    """Orders of the other threads' whole calls in which each thread's calls stay together (quick) — as
    (list of thread indices, one entry per call)."""
    import itertools
    return [[t for t in perm for _ in progs[t]] for perm in itertools.permutations(others)]


def _all_orders(others, progs):
    seqs = set()

    def rec(rem, acc):
        if not any(rem.values()):
            seqs.add(tuple(acc))
            return
        for t in sorted(rem):
            if rem[t]:
                rem[t] -= 1
                rec(rem, acc + [t])
                rem[t] += 1
    rec({t: len(progs[t]) for t in others}, [])
    return [list(x) for x in sorted(seqs)]


def _line_job(args):
    cfg, progs, v, pre, post, stride, off = args
    # dry run: how many decisions does the victim take when it runs through after `pre`?
    plan0 = [['call', t] for t in pre] + [['steps', v, 10 ** 6]]
    n = D.run_line(mk_line(cfg, progs, plan0))['vsteps'][v]
    out = []
    for p in range(1 + off % stride, n + 1, stride):
        plan = [['call', t] for t in pre] + [['steps', v, p]] + [['call', t] for t in post] + [['call', v]]
        out.append(mk_line(cfg, progs, plan))
    return out


def gen_line(tier, seed):
    jobs = []
    for j, (cfg, progs, victims, stride) in enumerate(_line_templates(tier)):
        for v in victims:
            others = [t for t in range(len(progs)) if t != v]
            orders = _block_orders(others, progs) if (tier == 'quick' or len(others) > 1) else _all_orders(others, progs)
            for order in orders:
                # the others' whole calls order[:cut] run before the victim starts, order[cut:cut2] while it is stopped,
                # the rest after the victim has finished the call it was stopped in
                for cut in range(len(order)):
                    for cut2 in range(cut + 1, len(order) + 1):
                        jobs.append((cfg, progs, v, order[:cut], order[cut:cut2], stride, seed + j + cut + cut2))
    with mp.get_context('fork').Pool(C.NPROC) as pool:
        return [c for cs in pool.map(_line_job, jobs, chunksize=4) for c in cs]


def _rand_case(rnd, tier):
    nT = rnd.choice([2, 2, 3] if tier == 'quick' else [2, 3, 3, 4])
    nO = rnd.choice([1, 2])
    cfg = [[rnd.random() < 0.5, rnd.choice([-1, -1, TSMALL, 0])] for _ in range(nO)]
    progs = []
    for t in range(nT):
        prog = []
        for _ in range(rnd.randint(1, 2 if tier == 'quick' else 3)):
            o = rnd.randrange(nO)
            fl = rnd.choice(list(FL))
            shape = 'simple'
            if cfg[o][0] and rnd.random() < 0.35:
                shape = rnd.choice(['nested', 'force'])
            r = rnd.random()
            if r < 0.08:
                prog += [R(o)]                                   # release of a lock this thread does not hold
            elif r < 0.16 and fl in ('blk', 'nb', 'timed', 'with', 't0', 'long', 'vlong') and shape == 'simple':
                prog += [A(o, fl, 1), DEL(o)]                     # the holder drops the object instead of releasing
            else:
                prog += round_(o, fl, shape, rnd.choice(['blk', 'nb', 'with']))
        progs.append(prog)
    # an object can only be garbage-collected (__del__) when no other thread can be executing one of its
    # methods: keep DEL only on objects that a single thread uses, otherwise release normally
    # (a suspended acquire_ctx() generator also keeps its object alive, so no DEL on objects entered that way)
    users, ctx_used = {}, set()
    for t, prog in enumerate(progs):
        for c in prog:
            users.setdefault(c[1], set()).add(t)
            if c[0] == 'acq' and c[2] == 'ctx':
                ctx_used.add(c[1])
    progs = [[(R(c[1]) if (c[0] == 'del' and (len(users[c[1]]) > 1 or c[1] in ctx_used)) else c) for c in prog]
             for prog in progs]
    sched = [rnd.randrange(nT) for _ in range(rnd.randint(10, 60))]
    # longer runs of one thread make deep windows reachable
    if rnd.random() < 0.5:
        sched = [t for t in sched for _ in range(rnd.randint(1, 4))]
    faults = []
    if rnd.random() < 0.25:
        faults = sorted({(rnd.choice(['open', 'lock', 'unlock', 'close']), rnd.randint(0, 5)) for _ in range(rnd.randint(1, 2))})
        faults = [f + ('ki',) if rnd.random() < 0.3 else f for f in faults]      # interrupt flavour
    return mk(cfg, progs, sched, faults)


def gen_random(tier, seed):
    rnd = random.Random(seed * 7919 + 2)
    return [_rand_case(rnd, tier) for _ in range(700 if tier == 'quick' else 20000)]


def gen_search(tier, seed):
    rnd = random.Random(seed * 7919 + 202)
    return [_rand_case(rnd, 'thorough') for _ in range(3000)]


def shrink_candidates(case):
    if case['kind'] != 'sched':
        return []
    out = []
    s = case['schedule']
    for i in range(len(s)):
        out.append(dict(case, schedule=s[:i] + s[i + 1:]))
    if len(s) > 4:
        out.append(dict(case, schedule=s[:len(s) // 2]))
    for i in range(len(case['faults'])):
        out.append(dict(case, faults=case['faults'][:i] + case['faults'][i + 1:]))
    if len(case['progs']) > 2:
        for t in range(len(case['progs'])):
            progs = case['progs'][:t] + case['progs'][t + 1:]
            ren = [x - (x > t) for x in s if x != t]
            out.append(dict(case, progs=progs, schedule=ren))
    return out


def distribution(cases, obs):
    d = dict(sched_cases=0, proc_cases=0, decisions=0, threads2=0, threads3plus=0, one_object=0, two_objects=0,
             with_faults=0, deadlocks=0, entries=0, contended_results=0, time_advances=0, proc_rounds=0)
    for c, o in zip(cases, obs):
        if c['kind'] == 'procs':
            d['proc_cases'] += 1
            d['proc_rounds'] += o.get('completed', 0) if isinstance(o, dict) else 0
            continue
        if c['kind'] == 'line':
            d['line_cases'] = d.get('line_cases', 0) + 1
            if isinstance(o, dict) and 'vsteps' in o:
                d['line_decisions'] = d.get('line_decisions', 0) + sum(o['vsteps'])
                d['line_quiet_ends'] = d.get('line_quiet_ends', 0) + (o['end'] == 'ok')
            continue
        d['sched_cases'] += 1
        d['threads2' if len(c['progs']) == 2 else 'threads3plus'] += 1
        d['one_object' if len(c['objs']) == 1 else 'two_objects'] += 1
        d['with_faults'] += bool(c['faults'])
        if isinstance(o, dict) and 'trace' in o:
            d['decisions'] += sum(1 for a, _ in o['trace'] if a != 'adv')
            d['time_advances'] += sum(1 for a, _ in o['trace'] if a == 'adv')
            d['deadlocks'] += o['end'] == 'deadlock'
            d['entries'] += sum(1 for e in o['occ'] if e[1])
            d['contended_results'] += sum(1 for rs in o['results'] for r in rs if r in ('F', 'TO'))
    return d


LEVEL_TEXT = ('FileLock is modelled as a small-step machine (one step per gated primitive) over a kernel holder table '
              '(coq/theories/FLock.v).  props/C02.v proves by an inductive invariant (thread-lock accounting TL, FLockInv/FLockTL.v; '
              'descriptor/holder invariant FD, FLockFD.v; Inv = TL /\\ FD, FLockMutex.v; static contract FLockContract.v; monitors '
              'FLockMon.v), for ALL event lists (steps of any thread, clock advances, crashes), any '
              'number of processes, objects on one path and threads, any mix of blocking / non-blocking / timed acquire, '
              'acquire_ctx, with, release, release(force), __del__, reentrant or not, and ANY fault script (OSError or '
              'KeyboardInterrupt flavour at the n-th open / flock / unlock / close): '
              'mutex_threads_objects_procs (two threads inside => the same thread), holder_until_release (no event of anybody '
              'else ends a holder\'s tenure: it still owns the thread lock and its descriptor still carries the kernel lock), '
              'contract_static + mutex_for_contract_respecting_programs (the contract "a thread releases only a lock it holds, '
              'threads use objects of their own process" as a decidable predicate cfg_ok on programs; such programs never leave '
              'the contract, so mutual exclusion holds with no hypothesis on the run), mutex_refuted_outside_contract (the '
              'contract is needed), monitor_complete (the occupancy monitor Case_C02.ok, incl. its enter/exit consistency clause, '
              'accepts every trace the model can produce within the contract, for all controller traces incl. process crashes, so it cannot raise a false '
              'alarm where implementation and model agree) and monitor_sound (model-free: an accepted observed log has no '
              'kernel/table mismatch and, after every prefix, at most one thread inside, recomputed from the enter/exit events '
              'alone).  Tied to /repo by replaying, inside Coq, the exact schedules on which the real class was just '
              'run under gated threads (all schedules of 2 threads x 1 round up to a preemption bound, random beyond) and by '
              'multi-process marker-file runs, and by line-level runs (every statement boundary a scheduling point) judged by the '
              'monitor incl. an end-of-run probe (monitor_sound_line: model-free meaning of acceptance; quiescent_clean / '
              'quiescent_acquirable: in the model, for every interleaving inside the contract, all threads idle with nobody inside '
              'implies every object unlocked with counter 0, the kernel lock free and a fresh acquire successful - from the '
              'exact-accounting invariant EX of FLockExact.v); program ops beyond acquire/release: del (drop the last reference), stray release by a '
              'non-holder (outside the contract: not judged), forkhold (holder forks a child that inherits the descriptor).')
LEVEL_NOTE = ('trusted: Coq kernel + vm_compute; no axioms (every theorem "Closed under the global context"); kernel flock '
              'semantics = assumption of the model (validated by the shim table and the F-runs, not proved); threading.Lock/RLock '
              'modelled; contract = ghost flag viol never raised (dynamic form) or cfg_ok (static form); inside = ghost list t_cs '
              '(successful, not yet released acquires) of a live thread')
TECHNIQUE = 'Coq proof (inductive invariant over all schedules incl. crashes and faults) + differential correspondence under gated threads evaluated by vm_compute + multi-process fault enumeration'
