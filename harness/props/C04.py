"""C04 — AsyncBackgroundBatcher: each caller gets exactly its own outcome and is
always answered.  Thin module over harness/batcher_drv.py + batcher_gen.py."""
from __future__ import annotations

import itertools
import random

from .. import batcher_drv as D
from .. import batcher_gen as G

PROP = 'C04'
READY = True
PROPS_MODULE = 'C04'
MODEL_TARGETS = ['theories/Case_C04.vo']
HEADER = ('From Coq Require Import List NArith. Import ListNotations.\n'
          'Require Import Aiuti.Batcher Aiuti.Case_Batcher Aiuti.Case_C04.')
CASE_TYPE = 'Case_Batcher.case'
VERDICT = 'Case_C04.verdict'
PARALLEL = 16
CHUNK = 300
RULE = ('case = (max_batch_size, max_concurrent_batches, batch_timeout, retention_timeout in ticks; list of external '
        'events Call/Burst/Advance/BYield/BRaise/BFinish run against the real AsyncBackgroundBatcher (15 % through the '
        'async_background_batcher decorator) under the virtual-time loop with a harness-owned batch function whose '
        'yields/raise/return are scripted events).  Exhaustive layer: every event list up to depth D over the alphabet '
        '{call key0, call key1 (default str(arg) and explicit key=), advance just below / above batch_timeout, and for '
        'every live batch: yield value / Exception value for an unanswered key, yield an already answered key, yield an '
        'unknown key, raise, return} for sizes 1..2, concurrency 1..2, retention 0 and >0, each completed by a drain '
        'suffix; random layer: programs of up to 10 calls over 3 args / 3 keys with bursts, shuffled result order, '
        'gaps on a grid around batch_timeout, retention_timeout and every armed deadline, sizes 1..5, concurrency 1..3, '
        'plus no-op events addressed to ended/unknown batches.  non-trivial = the batch function was invoked and at '
        'least two callers were answered (Case_C04.nontrivial, inside Coq); distinct = distinct (case, trace) pairs'
        ' The random layer also contains Chain events (one task making up to 4 sequential calls, each in the continuation of the previous answer) and batch-function raises whose exception is also a KeyError.')
EXHAUSTIVE_NOTE = ('all event lists of length <= D (D=5 quick, 6 thorough) with <= 3 calls over the enabled-event alphabet '
                   'described in the rule, for 8 configurations')
ASSUMPTIONS = ['asyncio primitives (Queue, wait_for, Semaphore FIFO, shield, Future callbacks, call_later) are modelled, '
               'not verified; their behaviour on the exercised patterns is what the correspondence runs check',
               'the batch function raises / yields Exception subclasses only; what it does after its last yield is not observed',
               'batch_timeout >= 1 tick, max_batch_size >= 1, max_concurrent_batches >= 1',
               'macro-step granularity: of the user code that reacts inside the same loop iteration only the pattern "a task '
               'calls the batcher again in the continuation of its answer" (Chain events) is modelled (DESIGN §4)']
TRUSTED = ['harness/vloop.py (virtual-time loop), harness/batcher_drv.py (driver, canonicalisation: per macro step batch '
           'starts in order, completions sorted by caller id), coq/theories/Case_Batcher.v (agree + monitors)',
           'modelled, not verified: asyncio.Queue, wait_for/timeouts, Semaphore, shield, Future done-callbacks, call_later']
ALLOWED_AXIOMS = []

run_impl = D.run_impl
error_obs = D.error_obs
to_coq = D.to_coq
explain_exprs = D.explain_exprs
shrink_candidates = D.shrink_candidates
distribution = D.distribution

W = dict(call=30, chain=5, burst=8, adv=18, **{'yield': 24}, **{'raise': 4}, fin=8, junk=3)


def corpus():
    base = dict(mbs=2, conc=5, bt=51, rt=0, deco=False)
    out = []
    # the doctest: 4 calls, sizes of 2, results in order
    evs = [['burst', [[1, None], [2, None], [3, None], [4, 44]]],
           ['yield', 0, 1, 'v', 2], ['yield', 1, 3, 'v', 4], ['yield', 0, 2, 'v', 3], ['yield', 1, 44, 'v', 5],
           ['fin', 0], ['fin', 1]]
    out.append(G.mk(base, evs))
    out.append(G.mk(dict(base, deco=True), evs))
    # duplicates doctest
    out.append(G.mk(base, [['burst', [[1, None], [1, None], [1, None], [1, 7], [1, 7]]],
                           ['yield', 0, 1, 'v', 2], ['yield', 0, 7, 'v', 2], ['fin', 0]]))
    c1 = dict(mbs=3, conc=1, bt=10, rt=0, deco=False)
    # reverse order, Exception value, omitted key, second batch waits for the slot
    out.append(G.mk(c1, [['burst', [[0, None], [1, None], [2, None], [3, None]]],
                         ['yield', 0, 2, 'v', 7], ['yield', 0, 0, 'e', 1], ['fin', 0],
                         ['adv', 11], ['raise', 1, 2]]))
    # yielded twice / unknown key -> ProtocolErr for the rest
    out.append(G.mk(c1, [['burst', [[0, None], [1, None], [2, None]]],
                         ['yield', 0, 1, 'v', 7], ['yield', 0, 1, 'v', 8], ['fin', 0]]))
    out.append(G.mk(c1, [['burst', [[0, None], [1, None]]], ['adv', 10], ['yield', 0, 9, 'v', 7], ['fin', 0]]))
    # retention: late sharer gets the stored exception
    out.append(G.mk(dict(c1, rt=20), [['call', 0, None], ['adv', 10], ['raise', 0, 3], ['adv', 19],
                                      ['call', 5, 0], ['adv', 1], ['call', 0, None], ['adv', 10], ['fin', 1]]))
    # the batch function is a plain callable that raises when CALLED (before any async iteration): still "the batch
    # function raises" — every caller of the batch gets that exception, the next batch gets the slot
    out.append(G.mk(c1, [['burst', [[0, None], [1, None], [2, None], [3, None]]], ['raise', 0, 1, 'sync'],
                         ['adv', 10], ['raise', 1, 2, 'sync'], ['call', 4, None], ['adv', 10], ['raise', 2, 0, 'sync']]))
    out.append(G.mk(dict(c1, rt=20), [['chain', 0, None, 2], ['adv', 10], ['raise', 0, 3, 'sync'], ['adv', 30],
                                      ['call', 0, None], ['adv', 10], ['fin', 1]]))
    # the explicit EMPTY key '' (falsy): one request for all three args, answered with what is yielded for ''
    E = D.EMPTY_KEY
    out.append(G.mk(c1, [['burst', [[1, E], [2, E], [3, E], [2, None]]], ['adv', 10], ['yield', 0, E, 'v', 9],
                         ['yield', 0, 2, 'v', 4], ['fin', 0]]))
    return out


def _alphabet(bt):
    def alpha(m, evs):
        out = [['call', 0, None], ['call', 5, 1]]
        if not evs or evs[-1][0] != 'adv':
            out += [['adv', bt - 1], ['adv', bt + 1]]
        for b in m.live():
            un = list(m.running[b]['futs'])
            allk = m.all_keys_of(b)
            for k in un:
                out.append(['yield', b, k, 'v', 1 + k])
                out.append(['yield', b, k, 'e', 1 + k])
            ans = [k for k in allk if k not in un]
            if ans:
                out.append(['yield', b, ans[0], 'v', 3])       # yielded twice
            out.append(['yield', b, 2, 'v', 3])                # unknown key
            out.append(['raise', b, 1])
            out.append(['fin', b])
        return out
    return alpha


def gen_exhaustive(tier, seed):
    depth = 5 if tier == 'quick' else 6
    out = []
    bt = 6
    for mbs, conc, rt in [(1, 1, 0), (2, 1, 0), (2, 2, 0), (2, 1, 9), (1, 2, 9), (3, 1, 0), (2, 2, 9), (1, 1, 9)]:
        cfg = dict(mbs=mbs, conc=conc, bt=bt, rt=rt, deco=False)
        out += G.enum_programs(cfg, _alphabet(bt), depth if mbs <= 2 and conc == 1 else depth - 1, 3)
    return out


def gen_random(tier, seed):
    rnd = random.Random(seed * 7919 + 4)
    N = 2500 if tier == 'quick' else 60000
    out = []
    for _ in range(N):
        cfg = G.rand_cfg(rnd)
        m, evs = G.rand_program(rnd, cfg, rnd.randint(6, 30), W, max_calls=10)
        style = rnd.random()
        if style < 0.6:
            evs = G.finish_all(m, evs, rnd, 'mixed')
        elif style < 0.85:
            evs = evs + D.drain(evs, cfg['bt'])
        out.append(G.mk(cfg, evs))
    return out


def gen_search(tier, seed):
    rnd = random.Random(seed * 104729 + 404)
    out = []
    for _ in range(4000):
        cfg = G.rand_cfg(rnd, deco_p=0.0)
        m, evs = G.rand_program(rnd, cfg, rnd.randint(8, 40), W, keys=2, args=2, max_calls=12)
        out.append(G.mk(cfg, G.finish_all(m, evs, rnd, 'mixed')))
    return out


LEVEL_TEXT = ('AsyncBackgroundBatcher is modelled as an executable macro-step state machine (coq/theories/Batcher.v: open batch '
    'with deadline, FIFO semaphore queue, running batches with their futs dictionaries, futures, retention cache and '
    'timers, callers incl. tasks that call again in the continuation of their answer).  props/C04.v proves, by '
    'induction over ALL event lists without Cancel and all configurations with max_batch_size, max_concurrent_batches '
    '>= 1 (invariant KInv, BatcherInv.v): own_outcome — every CallerDone i o of the trace is the outcome the batch '
    "function produced for caller i's key in the unique batch (batch_of_unique) that carried the item of its future: "
    'first yield for the key = Val v for Ret v, = Exception value for YieldedExc, raise while the key was unanswered '
    'for RaisedExc, return without the key for Missing, a repeated/unknown key yielded while unanswered for the '
    "KeyError outcome, never another key's result; always_answered_inv — a waiting caller's future is pending and its "
    'item is in the open batch, a queued batch or the futs of a running batch; batch_end_answers — BFinish/BRaise of '
    'a running batch answers all its items in that step; no_task_died.  Liveness is stated as these safety facts plus '
    "C10's dispatch_deadline; that the batch function itself ends is the environment's obligation.  Tied to /repo by "
    'running the real class under a virtual-time loop on enumerated and random event lists and comparing traces '
    'inside Coq; the monitor ok_C04 judges the observed trace independently of the model (monitor_basic_complete / '
    'monitor_basic_sound: the state-free conjuncts — no TaskDied, completion clock, no double completion, non-empty '
    'duplicate-free batches not in the future — accept every model trace for all event lists and imply these facts; '
    'monitor_sound_partial for the full monitor). monitor_complete: the FULL monitor ok_C04 (expected late '
    'answers, immediate answers, Cancelled only by Cancel, final no-hang rule) accepts every model trace with the '
    "model's waiting list, for all configurations with batch_timeout > 0 and ALL event lists, Chain events (tasks "
    'calling again in the continuation of their answer) included (simulation model state <-> monitor state with '
    'every step in two phases resolve / register, Case_Batcher_Full.v; monitor_complete_nochain is the earlier '
    'Chain-free version); monitor_sound_late_partial / monitor_sound_imm / monitor_sound_end: model-free soundness '
    '— in an accepted trace every completion of an already waiting caller is justified by the '
    "script (Cancel of that caller, or a batch-function event of an observed batch that still owes the caller's key, "
    'with exactly the outcome that event produces for that key), every call answered in its own step carries the '
    'latest outcome the script produced for its key, and nobody waits once all observed batches ended and '
    'batch_timeout elapsed.')
LEVEL_NOTE = ('trusted: Coq kernel + vm_compute; asyncio primitives (Queue, wait_for, FIFO Semaphore, shield, Future '
    'done-callbacks, call_later, task wake-up order) are modelled in Batcher.v and validated only by the '
    'correspondence runs; harness/vloop.py, harness/batcher_drv.py, coq/theories/Case_Batcher.v (agree + monitors).  '
    'The state-free conjuncts of the monitors (ok_basic) are proved complete and sound; the full monitors ok_C04 / '
    'ok_C10 / ok_C11 are proved complete on ALL event lists, Chain events included (monitor_complete; ok_C04 / '
    'ok_C10 for batch_timeout > 0), and partially sound model-free (monitor_sound_*)')
TECHNIQUE = 'Coq proof (inductive invariant over a macro-step model) + differential correspondence evaluated by vm_compute'
