"""C06 — threadsafe_async_cache (aiuti/asyncio.py l.289-499); driver harness/cache_drv.py,
generators harness/cache_gen.py, model coq/theories/Cache.v, monitor coq/theories/CacheMon.v."""
from __future__ import annotations

from .. import cache_drv as D
from .. import cache_gen as G

PROP = 'C06'
READY = True
PROPS_MODULE = 'C06'
MODEL_TARGETS = ['theories/Case_C06.vo']
HEADER = G.HEADER.format(case_mod='Aiuti.Case_C06')
CASE_TYPE = 'Case_Cache.case'
VERDICT = 'Case_C06.verdict'
PARALLEL = 16
CHUNK = 150
TASKS_PER_CHILD = 200
RULE = G.RULE
EXHAUSTIVE_NOTE = G.EXHAUSTIVE_NOTE
ASSUMPTIONS = G.ASSUMPTIONS
TRUSTED = G.TRUSTED
ALLOWED_AXIOMS = []
LEVEL_TEXT = ('proof (full on the model; 18 theorems): outcome_trichotomy, no_lib_exc, done_once, outcome_final, failure_not_cached, '
              'failed_invocation_leaves_cache, cancel_isolated, cancelled_waiter_touches_nothing for all event lists '
              'accepted by the model Cache.step, and ok_C06_sound: every accepted trace satisfies the trace monitor; '
              'model tied to the code by differential correspondence')
LEVEL_NOTE = ('All ten theorems closed under the global context (CacheOut.v, invariants Out / Stat / Sim over Cache.step). '
              'The clause "never delays any other caller beyond a recomputation" is a timing statement and is covered by '
              'C05 (prompt / rescue theorems and the C05 monitor), not restated here.  Converse theorems ok_C06_implies_no_lib_exc / _once / _ret / '
              '_own_exception / _own_cancel (CacheMonSpec.v) read the property off an accepted trace alone; '
              'keyerror_refuted_without_fix1 and foreign_cancel_refuted_without_fix2 (CacheUnfixed.v) document defects F1 and F2/F2b.')
TECHNIQUE = G.TECHNIQUE

corpus = G.corpus
gen_exhaustive = G.gen_exhaustive
gen_random = G.gen_random
gen_search = G.gen_search
run_impl = D.run_impl
error_obs = G.error_obs
to_coq = G.to_coq
explain_exprs = G.explain_exprs
shrink_candidates = G.shrink_candidates
distribution = G.distribution
