"""C13 — a crashed holder never leaves the FileLock stuck (aiuti/filelock.py).
Crash-point enumeration on the real OS: a victim process is SIGKILLed at its n-th source-line
event inside aiuti/filelock.py; the parent and 0..1 surviving contender processes then observe the
lock.  The Coq model replays victim steps + ECrash and must predict the same observations."""
from __future__ import annotations

import multiprocessing as mp
import random

from .. import common as C
from .. import flock_drv as D

PROP = 'C13'
READY = True
PROPS_MODULE = 'C13'
MODEL_TARGETS = ['theories/Case_C13.vo']
HEADER = ('From Coq Require Import List NArith. Import ListNotations.\n'
          'Require Import Aiuti.FLock Aiuti.Case_C13.')
CASE_TYPE = 'Case_C13.case'
VERDICT = 'Case_C13.verdict'
PARALLEL = 16
CHUNK = 200

RULE = ('case = (victim program, scenario, n): a child process (/venv/bin/python, PYTHONPATH=$AIUTI_REPO) runs a short '
        'FileLock program (blocking acquire/release, with, timed acquire, timed acquire_ctx, reentrant nested, nested + '
        'forced release, non-blocking) under sys.settrace and SIGKILLs itself at its n-th line event inside '
        'aiuti/filelock.py (n = 0: the parent kills it once it is blocked behind the survivor); scenarios: alone / a '
        'surviving process holds the lock all the time / a surviving process waits in a blocking acquire.  The victim logs '
        'every completed primitive (thread-lock acquire/release, open, flock, close, sleep) and API-call start to an '
        'O_APPEND file; the parent detects the death WITHOUT reaping (waitid WNOWAIT), takes a fresh non-blocking acquire '
        'while the victim is still a zombie and again after waitpid (probe1 = both), lets the survivor release, and '
        'probes again.  Programs *_helper: the holder starts a long-lived helper process (close_fds=False) as soon as it '
        'is inside; programs refork*: acquire, release, os.fork() a long-lived bystander child while the lock is FREE, '
        'acquire again (scenario alone only): the bystander shares whatever descriptors the victim kept open between '
        'the two uses, so a kill while holding for the second time must still free the lock; "blocked behind the survivor" is read from /proc/<pid>/syscall (flock), not from elapsed time.  The model runs the victim for exactly the logged number of steps (ops and results must match), '
        'applies ECrash, and predicts waiter success and both probes.  quick: every 3rd..4th crash point of every '
        '(program, scenario) with a seed-dependent offset; thorough: every crash point.  non-trivial = the victim really '
        'died and had completed at least two primitives.')
EXHAUSTIVE_NOTE = 'thorough tier: every line event of every (program, scenario); quick tier: a seed-shifted stride over them'
ASSUMPTIONS = ['kernel: all descriptors of a killed process are closed and its flock is dropped before waitpid returns '
               '(this IS the model\'s ECrash; exercised, not proved)',
               '"promptly" = the first non-blocking attempt after waitpid / the waiter reports within 5 s']
TRUSTED = ['harness/flock_proc.py (victim/contender processes), harness/flock_drv.py run_crash, coq/theories/Case_C13.v']
ALLOWED_AXIOMS = []

TICKS = dict(timed=20, poll=5)
# program -> (reentrant, constructor timeout ticks, model program)
PROGS = {
    'blocking': (False, -1, [['acq', 0, 'plain', True, None, 51, 0], ['rel', 0, False]]),
    'with': (False, -1, [['acq', 0, 'with', True, None, 51, 1], ['rel', 0, False]]),
    'timed': (False, 20, [['acq', 0, 'plain', True, None, 5, 0], ['rel', 0, False]]),
    'ctx_timed': (False, -1, [['acq', 0, 'ctx', True, 20, 5, 1], ['rel', 0, False]]),
    'nested': (True, -1, [['acq', 0, 'plain', True, None, 51, 0], ['acq', 0, 'plain', True, None, 51, 0],
                          ['rel', 0, False], ['rel', 0, False]]),
    'nested_force': (True, -1, [['acq', 0, 'plain', True, None, 51, 0], ['acq', 0, 'plain', True, None, 51, 0],
                                ['rel', 0, True]]),
    'nonblocking': (False, -1, [['acq', 0, 'plain', False, None, 51, 0], ['rel', 0, False]]),
    # the holder starts a long-lived helper process while inside (the FileLock program is unchanged)
    'blocking_helper': (False, -1, [['acq', 0, 'plain', True, None, 51, 0], ['rel', 0, False]]),
    'nested_helper': (True, -1, [['acq', 0, 'plain', True, None, 51, 0], ['acq', 0, 'plain', True, None, 51, 0],
                                 ['rel', 0, False], ['rel', 0, False]]),
    # acquire, release, os.fork() a long-lived bystander while the lock is free, acquire again, release
    'refork': (False, -1, [['acq', 0, 'plain', True, None, 51, 0], ['rel', 0, False],
                           ['acq', 0, 'plain', True, None, 51, 0], ['rel', 0, False]]),
    'refork_nested': (True, -1, [['acq', 0, 'plain', True, None, 51, 0], ['acq', 0, 'plain', True, None, 51, 0],
                                 ['rel', 0, True], ['acq', 0, 'plain', True, None, 51, 0], ['rel', 0, False]]),
}
SCENS = ['alone', 'holder', 'waiter']
# programs that are only run in some scenarios (behind a holder the refork victims never reach the fork; with a
# waiter started at the first success they block behind it for good before the second acquire)
PROG_SCENS = {'refork': ['alone'], 'refork_nested': ['alone']}
SCEN_CODE = {'alone': 0, 'holder': 1, 'waiter': 2}
BLOCKS_BEHIND_HOLDER = {'blocking', 'with', 'nested', 'nested_force', 'blocking_helper', 'nested_helper'}


def mk(program, scen, n):
    return dict(program=program, scen=scen, n=n)


def run_impl(case):
    return D.run_crash(case)


def error_obs(case, o):
    return dict(vops=[], vres=['EX'], died=False, ext_kill=False, w_before=False, w_held=False,
                probe1=False, probe2=False, kill=None)


def to_coq(case, o):
    reent, dflt, prog = PROGS[case['program']]
    return (f"CCrash {C.coq_bool(reent)} {D.tmo_coq(-1 if dflt < 0 else dflt)} "
            f"{C.coq_list([D.call_coq(c) for c in prog])} {SCEN_CODE[case['scen']]} {C.coq_bool(o['w_before'])} "
            f"{C.coq_list([str(x) for x in o['vops']])} "
            f"{C.coq_list([D.RES_COQ.get(r, 'ROutOfFuel') for r in o['vres']])} "
            f"{C.coq_bool(o['died'])} {C.coq_bool(o['w_held'])} {C.coq_bool(o['probe1'])} {C.coq_bool(o['probe2'])}")


def explain_exprs(case, o):
    return [f'Case_C13.model_trace ({to_coq(case, o)})']


def corpus():
    return [mk('blocking', 'alone', 30), mk('nested', 'waiter', 50), mk('timed', 'holder', 60),
            mk('blocking', 'holder', 0), mk('with', 'waiter', 27), mk('nested_force', 'alone', 55),
            mk('blocking_helper', 'alone', 40), mk('nested_helper', 'alone', 48), mk('blocking_helper', 'waiter', 38),
            mk('refork', 'alone', 78), mk('refork_nested', 'alone', 88), mk('refork', 'alone', 50)]


def _dry(args):
    return args, D.crash_dry_run(*args)


_counts_cache = {}


def line_counts():
    if not _counts_cache:
        jobs = [(p, s) for p in PROGS for s in PROG_SCENS.get(p, SCENS)]
        with mp.get_context('fork').Pool(min(C.NPROC, 8)) as pool:
            for k, v in pool.map(_dry, jobs):
                _counts_cache[k] = v
    return _counts_cache


def gen_exhaustive(tier, seed):
    out = []
    counts = line_counts()
    for (p, s), total in sorted(counts.items()):
        stride = 1 if tier != 'quick' else (4 if total > 60 else 3)
        off = (seed + len(p) + len(s)) % stride
        for n in range(1 + off, total + 1, stride):
            out.append(mk(p, s, n))
        if s == 'holder' and p in BLOCKS_BEHIND_HOLDER:
            out.append(mk(p, s, 0))            # killed from outside while blocked in flock
    return out


def gen_random(tier, seed):
    rnd = random.Random(seed * 7919 + 13)
    counts = line_counts()
    keys = sorted(counts)
    out = []
    for _ in range(24 if tier == 'quick' else 200):
        p, s = rnd.choice(keys)
        out.append(mk(p, s, rnd.randint(1, max(1, counts[(p, s)]))))
    return out


def gen_search(tier, seed):
    return gen_exhaustive('thorough', seed)


def shrink_candidates(case):
    return []


def distribution(cases, obs):
    d = dict(cases=len(cases), died=0, external_kill=0, alone=0, holder=0, waiter=0, waiter_before_crash=0,
             died_holding=0, died_in_acquire=0, died_in_release=0)
    for c, o in zip(cases, obs):
        d[c['scen']] += 1
        if not isinstance(o, dict) or 'vops' not in o:
            continue
        d['died'] += o['died']
        d['external_kill'] += o['ext_kill']
        d['waiter_before_crash'] += o['w_before']
        k = o.get('kill')
        if k:
            d['died_in_release'] += k[0] in ('release', '_release', '_unlock', '_decrement_lock_counter')
            d['died_in_acquire'] += k[0] in ('acquire', '_acquire', '_lock', '_cleanup_thread_lock', '__enter__', 'acquire_ctx')
        d['died_holding'] += (o['vres'].count('T') > 0 and 8 not in o['vops'])
    return d


LEVEL_TEXT = ('props/C13.v proves on the model (coq/theories/FLock.v; lemmas in FLockCrash.v on top of the C02 invariants '
              'FLockInv/TL/FD/Mutex.v; FLockExec.v step equations; monitors: FLockMon13.v on top of FLockAcq/Rel/Term/Seq.v, '
              'FLockSound.v), for '
              'every reachable state = whatever point of acquire()/release() (blocking, timed, polling, reentrant-nested, '
              'mid-release) the threads of the victim and of everybody else have reached, under any fault script (OSError / '
              'KeyboardInterrupt flavour): '
              'crash_releases (after ECrash p no open file description of p remains; a lock held through a descriptor of p is '
              'free; a lock still held is held by the same, open descriptor of a live process other than p), mutex_after_crash '
              '(the C02 theorem over event lists containing crashes), acquirable_after_crash (if no survivor holds or is giving up '
              'the lock, an idle contender of a live process gets True from its first attempt, any flavour, 4 primitive steps, no '
              'waiting), no_soft_state (two runs differing only in the lock file\'s content agree on every other component: '
              'nothing ever reads the file), monitor_sound (model-free reading of an accepted observation) and monitor_complete '
              '(for every victim program on its own object killed after any number of primitive steps, in each of the three '
              'scenarios with the waiter started after the death, Case_C13.ok accepts what the model predicts; '
              'monitor_complete_static: the same for every statically contract-respecting program (prog_okb) with no hypothesis '
              'on the run), monitor_complete_all / _all_static (all kinds of cases: also the waiter started while the victim is '
              'still running - it parks in its blocking flock, its descriptor never becomes the holder, after the death it gets '
              'the lock in one step - and the victim that finished without being killed).'  '  The crash semantics itself is the kernel assumption; it is validated by SIGKILLing '
              'a real victim at every line event of aiuti/filelock.py and comparing what the parent / survivors observe with the '
              'model\'s prediction for the pc the victim had reached.')
LEVEL_NOTE = ('trusted: Coq kernel + vm_compute; no axioms; kernel releases flock on process death (= the model\'s ECrash: '
              'assumption, exercised by the crash enumeration, not proved); victim/contender scripts in harness/flock_proc.py; '
              '"promptly" = first non-blocking attempt after waitpid')
TECHNIQUE = 'Coq proof (crash lemmas + invariant shared with C02) + crash-point enumeration on the real OS compared with the model inside Coq'
