"""C12 — FileLock obeys the Lock/RLock contract, no residue on failure (aiuti/filelock.py).
Driver + generators (sequential view; the calls are issued by two gated threads)."""
from __future__ import annotations

import itertools
import multiprocessing as mp
import random

from .. import common as C
from .. import flock_drv as D

PROP = 'C12'
READY = True
PROPS_MODULE = 'C12'
MODEL_TARGETS = ['theories/Case_C12.vo']
HEADER = ('From Coq Require Import List NArith. Import ListNotations.\n'
          'Require Import Aiuti.FLock Aiuti.Case_C12.')
CASE_TYPE = 'Case_C12.case'
VERDICT = 'Case_C12.verdict'
PARALLEL = 16
CHUNK = 300
TASKS_PER_CHILD = 400
POLL = 2                 # explicit poll interval, ticks
TSMALL = 2 * POLL        # "small" timeout, ticks
TMID, TLONG = 5 * POLL, 10 * POLL   # timeouts spanning several poll intervals (the polling loop runs many rounds)

RULE = ('case = (object configs (reentrant?, constructor timeout), fault script, sequence of (thread, call)) run against '
        'the real FileLock on a real lock file with real flock; two gated threads issue the calls one at a time; '
        'after every call: result, is_locked of both objects, elapsed virtual ticks, open descriptors on the lock file '
        '(shim table and /proc/self/fd must agree), injected faults fired, and 4 probes (each thread x each object: '
        'acquire(False) [+release]) which the model replays as ordinary calls.  Layers: every contract-respecting '
        'sequence shape over {acquire, release, release(force)} x 2 objects x 2 threads up to the tier length (canonical '
        'up to renaming of threads/objects; a call that blocks forever only in last position), the acquire flavour '
        '(acquire/acquire_ctx/with x blocking/non-blocking/timed x timeout -1/0/2*poll/5*poll/10*poll) and the object configuration '
        'rotate over the shapes; every single OSError injection at every syscall index of the shorter shapes, sampled '
        'double injections; random longer sequences.  non-trivial (decided in Coq): >= 3 observed calls with a '
        'successful acquire and either a refusal or a second success.  Context managers entered through acquire_ctx() / '
        'with are left alternately normally and through an exception (__exit__(ValueError, ...)): both must do the same '
        'release().  The exceptional exits rotate over ValueError, a harness BaseException that is not an Exception and '
        'asyncio.CancelledError (caught by the harness, i.e. inside the enclosing block when nested).  A slice of the cases '
        '(every 12th in quick, every 6th in thorough, seed-shifted, plus corpus entries) runs with descriptor 0 FREE in the '
        'process (stdin closed, as in a daemon), so the lock file\'s descriptor is 0.  Every fault (open / flock / unlock / close) also comes in a KeyboardInterrupt flavour (a BaseException '
        'that is not an Exception; (kind, n, \'ki\') in the driver, flavour bit of the model\'s fault script): at unlock / '
        'close the library handles it like the OSError; at flock it must close the descriptor, clean up and re-raise '
        '(F9), at open clean up and re-raise - the model replays exactly that and the fd-count clause judges it.')
EXHAUSTIVE_NOTE = ('all canonical contract-respecting shapes of length <= 4 (quick) / <= 5 (thorough) over 12 letters; '
                   'single-fault injection at every syscall index for shapes of length <= 3 (quick: every second shape of length 3, one of the '
                   'two flavours per site, alternating with the seed) / <= 4 (both flavours at every site)')
ASSUMPTIONS = ['kernel flock(2): exclusive per open file description, released by LOCK_UN / close (checked on every '
               'syscall of every run against the shim table, not proved)',
               'threading.Lock/RLock behave as gate.GLock/GRLock (modelled primitives)',
               'elapsed time is virtual: time advances only when every thread waits']
TRUSTED = ['harness/flock_shims.py, harness/flock_drv.py, harness/gate.py, coq/theories/Case_C12.v (agree/ok)',
           'modelled, not verified: threading.Lock/RLock, os.open/close, fcntl.flock, time.time/sleep']
ALLOWED_AXIOMS = []

# acquire flavours: (mode, blocking, timeout)
FLAVOURS = [('plain', True, None), ('plain', False, None), ('plain', True, TSMALL), ('ctx', True, None),
            ('with', True, None), ('plain', True, 0), ('ctx', False, None), ('plain', False, TSMALL),
            ('plain', True, -1), ('ctx', True, TSMALL), ('plain', False, -1), ('ctx', False, 0),
            ('plain', True, TMID), ('ctx', True, TLONG), ('plain', True, TLONG)]
CFGS = [[[False, -1], [False, -1]], [[True, -1], [True, -1]], [[True, -1], [False, TSMALL]],
        [[False, TSMALL], [True, -1]], [[True, TSMALL], [True, 0]], [[False, -1], [True, -1]]]


def mk_acq(o, fl):
    mode, blk, tm = fl
    if mode == 'with':
        return ['acq', o, 'with', True, None, D.DEFAULT_POLL_TICKS, 0]
    return ['acq', o, mode, blk, tm, POLL, 0]


# ---- Python mirror of FLockSpec (used only to prune / bias generation) -----------

def spec_acquire(st, t, o, reent):
    if st is None:
        return (o, t, 1), True
    o2, t2, d = st
    if o == o2 and t == t2 and reent:
        return (o, t, d + 1), True
    return st, False


def spec_release(st, o, force):
    if st is None or st[0] != o:
        return st
    return None if (force or st[2] <= 1) else (st[0], st[1], st[2] - 1)


def may_release(st, t, o):
    return st is None or st[0] != o or st[1] == t


def forever(cfg, o, fl):
    mode, blk, tm = fl
    if mode == 'with':
        blk, tm = True, None
    if tm is None:
        return blk and cfg[o][1] < 0
    return blk if tm < 0 else False


def concretise(shape, cfg, rot):
    """shape: list of (t, o, 'A'|'R'|'F').  Returns ops or None when outside the contract /
    a forever-blocking call would not be last."""
    st, ops = None, []
    for i, (t, o, k) in enumerate(shape):
        if k == 'A':
            st2, yes = spec_acquire(st, t, o, cfg[o][0])
            fl = None
            for j in range(len(FLAVOURS)):
                f = FLAVOURS[(rot + i * 5 + j) % len(FLAVOURS)]
                if yes or i == len(shape) - 1 or not forever(cfg, o, f):
                    fl = f
                    break
            ops.append([t] + mk_acq(o, fl))
            st = st2
        else:
            if not may_release(st, t, o):
                return None
            ops.append([t, 'rel', o, k == 'F'])
            st = spec_release(st, o, k == 'F')
    return ops


def canonical(shape):
    ts, os_ = [], []
    for t, o, _ in shape:
        if t not in ts:
            ts.append(t)
        if o not in os_:
            os_.append(o)
    return ts == sorted(ts) and os_ == sorted(os_)


LETTERS = [(t, o, k) for t in (0, 1) for o in (0, 1) for k in 'ARF']


def shapes(L):
    for sh in itertools.product(LETTERS, repeat=L):
        if canonical(sh):
            yield sh


def mk(cfg, ops, faults=()):
    return dict(kind='seq', nthreads=2, objs=cfg, faults=[list(f) for f in faults], ops=ops)


def run_impl(case):
    if not case.get('fd0'):
        return D.run_seq(case)
    # the same case in a process whose descriptor 0 is free (stdin closed, as in a daemon): the first os.open of the
    # case returns 0.  Done in the forked pool worker for the duration of the case only.
    import os
    try:
        saved = os.dup(0)
    except OSError:
        saved = None
    try:
        if saved is not None:
            os.close(0)
        return D.run_seq(case)
    finally:
        if saved is not None:
            os.dup2(saved, 0)
            os.close(saved)


def error_obs(case, o):
    return dict(obs=[['EX', [False] * len(case['objs']), 0, 999, 0, [], 0]], km=1, end='error')


def to_coq(case, o):
    ops = C.coq_list([f'({op[0]}, {D.call_coq(op[1:])})' for op in case['ops']])
    return (f"CSeq {case['nthreads']} {D.objs_coq(case['objs'])} {D.faults_coq(case['faults'])} "
            f"{ops} {D.seq_obs_coq(o['obs'])} {min(o['km'], 99)}")


def explain_exprs(case, o):
    lit = to_coq(case, o)
    return [f'Case_C12.model_trace ({lit})']


def _counts(case):
    try:
        return D.run_seq(case)['nsys']
    except Exception:
        return dict(open=0, lock=0, unlock=0, close=0)


def corpus():
    cfgR = [[True, -1], [False, -1]]
    A = lambda t, o, f=('plain', True, None): [t] + mk_acq(o, f)
    R = lambda t, o, force=False: [t, 'rel', o, force]
    out = [
        # the 7-call example of props/C12.v: nesting, force, second thread, other object
        mk(cfgR, [A(0, 0), A(0, 0, ('with', True, None)), A(1, 0, ('plain', True, TSMALL)), R(0, 0, True),
                  A(1, 1, ('ctx', True, None)), A(0, 0, ('plain', False, None)), R(1, 1)]),
        # F6 (fixed by ee6314f): forced release at depth 2, then the other thread acquires the same object
        mk(cfgR, [A(0, 0), A(0, 0), R(0, 0, True), A(1, 0, ('plain', False, None)), R(1, 0)]),
        # F5-style use through with on a timed object while another object holds
        mk([[False, -1], [False, TSMALL]], [A(0, 0), A(1, 1, ('with', True, None)), R(0, 0), A(1, 1, ('with', True, None)), R(1, 1)]),
        # non-reentrant refuses a second acquire (blocks forever)
        mk([[False, -1], [False, -1]], [A(0, 0), A(0, 0)]),
    ]
    # regression for 8b84979: forced release at depth 2 whose unlock / close raises, then acquire + release
    base = [A(0, 0), A(0, 0), R(0, 0, True), A(0, 0), R(0, 0), A(1, 1, ('plain', False, None))]
    n = _counts(mk(cfgR, base[:2]))
    out.append(mk(cfgR, base, [('unlock', n['unlock'])]))
    out.append(mk(cfgR, base, [('close', n['close'])]))
    # a BaseException that is not an Exception (KeyboardInterrupt) out of the close after a failed flock /
    # out of unlock, close in release: same clean-up as for the OSError (bare except clauses l.181, l.236)
    cfgN = [[False, -1], [False, -1]]
    out.append(mk(cfgN, [A(0, 0), A(1, 1, ('plain', False, None)), A(1, 1, ('plain', False, None)), R(0, 0)], [('close', 0, 'ki')]))
    out.append(mk(cfgN, [A(0, 0), R(0, 0), A(1, 1)], [('unlock', 0, 'ki')]))
    out.append(mk(cfgR, base, [('close', n['close'], 'ki')]))
    # F9 (fixed by ad374ce): an interrupt out of flock itself must not leave the just-opened descriptor behind
    out.append(mk(cfgN, [A(0, 0), A(1, 1, ('plain', True, TSMALL)), R(0, 0), A(1, 1)], [('lock', 1, 'ki')]))
    out.append(mk(cfgN, [A(0, 0), R(0, 0), A(1, 1)], [('lock', 0, 'ki')]))
    out.append(mk(cfgN, [A(0, 0, ('with', True, None)), R(0, 0), A(1, 1)], [('open', 0, 'ki')]))
    # a contended timed acquire whose timeout spans several poll intervals: the polling stage runs to its deadline and
    # must give up within timeout + ONE poll interval (a loop that stretches its sleeps overshoots)
    out.append(mk(cfgN, [A(0, 0), A(1, 1, ('plain', True, TMID)), R(0, 0), A(1, 1, ('plain', True, TLONG)), R(1, 1)]))
    out.append(mk(cfgN, [A(0, 0), A(1, 1, ('ctx', True, TLONG)), A(1, 1, ('plain', True, TLONG)), R(0, 0)]))
    out.append(mk([[False, -1], [False, TLONG]], [A(0, 0), A(1, 1), A(0, 1, ('with', True, None)), R(0, 0)]))
    # descriptor 0 free (daemonised process): the lock file's descriptor IS 0
    out += [dict(c, fd0=True) for c in out[:4]]
    out.append(dict(mk(cfgN, [A(0, 0, ('plain', False, None)), R(0, 0), A(1, 1, ('plain', False, None)), R(1, 1)]), fd0=True))
    # nested with on a reentrant object: the inner block is left through a BaseException that is not an Exception
    # (second and fourth context-manager exit of a run are exceptional: ValueError, then the harness BaseException)
    W = ('with', True, None)
    out.append(mk(cfgR, [A(0, 0, W), R(0, 0), A(0, 0, W), A(0, 0, W), R(0, 0), A(1, 1, ('plain', False, None)), R(0, 0)]))
    out.append(mk(cfgR, [A(0, 0, W), A(0, 0, ('ctx', True, None)), R(0, 0), A(0, 0, W), R(0, 0),
                         A(1, 1, ('plain', False, None)), R(0, 0), R(0, 0)]))
    return out


def _fault_cases(args):
    cfg, ops, double_seed, n_double, alternate = args
    n = _counts(mk(cfg, ops))
    sites = [(k, i) for k in ('open', 'lock', 'unlock', 'close') for i in range(n[k])]
    if alternate:
        # quick tier, longest fault shapes: every site gets ONE of the two flavours (OSError / interrupt), alternating
        # along the sites and with the seed, so two consecutive seeds cover both; thorough: both flavours everywhere
        out = [mk(cfg, ops, [s if (j + double_seed) % 2 else s + ('ki',)]) for j, s in enumerate(sites)]
    else:
        out = [mk(cfg, ops, [s]) for s in sites]
        # the same fault in the interrupt flavour (a BaseException that is not an Exception: KeyboardInterrupt)
        out += [mk(cfg, ops, [(k, i, 'ki')]) for k, i in sites]
    if n_double and len(sites) >= 2:
        rnd = random.Random(double_seed)
        pairs = list(itertools.combinations(sites, 2))
        for pr in (pairs if len(pairs) <= n_double else rnd.sample(pairs, n_double)):
            out.append(mk(cfg, ops, list(pr)))
    return out


def gen_exhaustive(tier, seed):
    Lmax = 4 if tier == 'quick' else 5
    out, k = [], 0
    for L in range(1, Lmax + 1):
        for sh in shapes(L):
            cfg = CFGS[k % len(CFGS)]
            ops = concretise(sh, cfg, k)
            k += 1
            if ops is None:
                continue
            # a shape is kept at length L < Lmax only if its last call is the interesting end
            # (longer shapes contain every prefix): here, when it ends in a forever-blocking call
            last = ops[-1]
            if L < Lmax and not (last[1] == 'acq' and forever(cfg, last[2], (last[3], last[4], last[5]))):
                continue
            out.append(mk(cfg, ops))
    # fault injection
    Lf = 3 if tier == 'quick' else 4
    jobs, k = [], 0
    for L in range(1, Lf + 1):
        for sh in shapes(L):
            k += 1
            cfg = CFGS[(k + 1) % len(CFGS)]
            ops = concretise(sh, cfg, k + 3)
            if ops is None:
                continue
            if tier == 'quick' and L == 3 and k % 2:
                continue
            if tier != 'quick' and L == 4 and k % 4:
                continue
            jobs.append((cfg, ops, 1001 * seed + k, 3 if tier == 'quick' else 12, tier == 'quick' and L == 3))
    with mp.get_context('fork').Pool(C.NPROC) as pool:
        for cs in pool.map(_fault_cases, jobs, chunksize=8):
            out += cs
    # a slice of all of the above once more with descriptor 0 free in the process (the first os.open gets fd 0)
    k = 12 if tier == 'quick' else 6
    out += [dict(c, fd0=True) for i, c in enumerate(out) if i % k == seed % k]
    return out


def gen_random(tier, seed):
    rnd = random.Random(seed * 7919 + 12)
    N = 600 if tier == 'quick' else 12000
    out = []
    while len(out) < N:
        L = rnd.randint(5, 12)
        cfg = rnd.choice(CFGS)
        st, sh = None, []
        for i in range(L):
            # bias towards valid, interesting letters
            if st is not None and rnd.random() < 0.45:
                o, t = st[0], st[1]
                if rnd.random() < 0.5:
                    sh.append((t, o, rnd.choice('RRF')))
                    st = spec_release(st, o, sh[-1][2] == 'F')
                    continue
            t, o = rnd.randint(0, 1), rnd.randint(0, 1)
            k = rnd.choice('AAAR')
            if k == 'R' and not may_release(st, t, o):
                k = 'A'
            sh.append((t, o, k))
            st = spec_acquire(st, t, o, cfg[o][0])[0] if k == 'A' else spec_release(st, o, False)
        ops = concretise(sh, cfg, rnd.randint(0, 11))
        if ops is None:
            continue
        faults = []
        if rnd.random() < 0.35:
            for _ in range(rnd.randint(1, 2)):
                k = rnd.choice(['open', 'lock', 'unlock', 'close'])
                f = (k, rnd.randint(0, 3 * L))
                if rnd.random() < 0.4:
                    f = f + ('ki',)
                faults.append(f)
        out.append(mk(cfg, ops, sorted(set(faults))))
    return out


def gen_search(tier, seed):
    out = gen_random('quick', seed + 101)
    k = 0
    for sh in shapes(5):
        k += 1
        if k % 7:
            continue
        cfg = CFGS[k % len(CFGS)]
        ops = concretise(sh, cfg, k)
        if ops is not None:
            out.append(mk(cfg, ops))
    return out[:6000]


def shrink_candidates(case):
    out = []
    ops = case['ops']
    for i in range(len(ops)):
        out.append(dict(case, ops=ops[:i] + ops[i + 1:]))
    for i in range(len(case['faults'])):
        out.append(dict(case, faults=case['faults'][:i] + case['faults'][i + 1:]))
    for i, op in enumerate(ops):
        if op[1] == 'acq' and (op[3], op[4], op[5]) != ('plain', False, None):
            out.append(dict(case, ops=ops[:i] + [[op[0]] + mk_acq(op[2], ('plain', False, None))] + ops[i + 1:]))
    return out


def distribution(cases, obs):
    d = dict(cases=len(cases), ops=0, acquire=0, acquire_ctx=0, with_stmt=0, release=0, release_force=0,
             nonblocking=0, timed=0, with_faults=0, double_faults=0, faults_fired=0,
             res_true=0, res_false=0, res_timeout=0, res_oserror=0, res_wouldblock=0)
    for c, o in zip(cases, obs):
        d['with_faults'] += bool(c['faults'])
        d['double_faults'] += len(c['faults']) >= 2
        for op in c['ops']:
            d['ops'] += 1
            if op[1] == 'acq':
                d[{'plain': 'acquire', 'ctx': 'acquire_ctx', 'with': 'with_stmt'}[op[3]]] += 1
                d['nonblocking'] += (not op[4]) and (op[5] is None or op[5] < 0)
                d['timed'] += op[5] is not None and op[5] >= 0
            else:
                d['release_force' if op[3] else 'release'] += 1
        if isinstance(o, dict) and 'obs' in o:
            for rec in o['obs']:
                d['faults_fired'] += rec[4] + rec[6]
                k = {'T': 'res_true', 'F': 'res_false', 'TO': 'res_timeout', 'OS': 'res_oserror',
                     'WB': 'res_wouldblock'}.get(rec[0])
                if k:
                    d[k] += 1
    return d


LEVEL_TEXT = ('FileLock (acquire / acquire_ctx / with / release / release(force) / __del__, Lock and RLock flavour, fault script '
              'of (syscall kind, index, flavour OSError | KeyboardInterrupt)) is '
              'modelled step for step (coq/theories/FLock.v); do_call runs one call to completion with its thread alone '
              '(virtual time).  props/C12.v proves (lemmas: FLockAcq.v phase invariant of a running acquire, FLockRel.v, '
              'FLockTerm.v termination measure, FLockExec.v step equations, FLockContract.v, FLockSeq.v refinement, FLockMon12.v / '
              'FLockSound.v monitors): for EVERY reachable state and EVERY fault script of both flavours (so also an interrupt '
              'inside flock / open: descriptor closed, clean-up, re-raise - fix F9) '
              'fail_no_residue (a failing acquire - False / TimeoutError / re-raised OSError - leaves every object, the table '
              'of open descriptors and the kernel holder exactly as before, caller idle and not inside), '
              'nonblocking_immediate (no virtual time passes, never blocks), timed_bound (elapsed <= T + T + poll, never '
              'blocks), timed_bound_alone (one call at a time: at most one of the two stages waits, elapsed <= T + poll - the '
              'bound the monitor checks), release_faults (a release that gives the OS lock up ends normally with descriptor closed, counter 0, '
              'lock not held through it, even if unlock/close raise); and for sequences of calls without scripted faults '
              'refines_rlock_spec (from the initial state of the correspondence runs, every contract-respecting sequence by any '
              'threads on any objects gives exactly the results of the abstract Lock/RLock spec FLockSpec.v, and the final '
              'state represents the spec state: is_locked iff held, counter = RLock depth, thread lock free iff unheld), '
              'refines_rlock_spec_procs (the same from any initial configuration with objects and threads in any number of '
              'processes, calls on own-process objects: still ONE lock) with '
              'the corollaries acquire_true_iff_holds, reacquire_after_release (F6), nonreentrant_refuses_second_acquire, '
              'only_outermost_release_frees, monitor_complete (Case_C12.ok accepts the model\'s own trace of every '
              'contract-respecting fault-free sequence) and monitor_sound (model-free: an accepted, clean, contract-respecting '
              'observed list conforms to FLockSpec step by step - result, is_locked, fd count, time clause, probes).  Tied to /repo by differential correspondence on enumerated and random call '
              'sequences with fault injection, evaluated by vm_compute.')
LEVEL_NOTE = ('trusted: Coq kernel + vm_compute; no axioms; kernel flock semantics and threading.Lock/RLock are modelled '
              'primitives (assumption, checked against the shim table on every run); the refinement theorems are about '
              'sequential calls (one call at a time, any threads / objects / processes), no scripted faults, timed acquires with poll >= 1 and fuel >= 5*((T+poll)/poll)+16 per acquire (proved '
              'sufficient); the four every-fault-script theorems are about all reachable states incl. several processes; '
              'contract: a thread releases only a lock it holds or an unheld one (ok_calls)')
TECHNIQUE = 'Coq proof (refinement of an abstract lock spec by a small-step model, big-step do_call, phase invariant + termination measure) + differential correspondence evaluated by vm_compute'
