"""C15 — drivers that run the real decorators of aiuti.asyncio in their three
forms on one scripted event list under the virtual-time loop (harness/vloop.py).

forms:  'direct'  deco(func, **opts)
        'deco'    deco(**opts)(func)
        'ctor'    the class used directly with the same options
                  (BufferAsyncCalls / AsyncBackgroundBatcher; reference)

Times are reported in fifths of a tick (T5): the default batch_timeout of the
batcher (0.05 s) is 51.2 ticks = 256 fifths, so every instant that can occur is
an integer.  Option values in a configuration are integer ticks (None = leave the
option at its default)."""
from __future__ import annotations

import asyncio
import gc
import logging

from . import vloop

TICK = vloop.TICK
EXC = 900           # a caller ended with an exception (kind irrelevant: never expected)
BADRES = 901        # a caller got something that is not a batch index of its own loop


def t5(sim):
    return round(sim.loop._vt / TICK * 5)


_frozen = []


def idle_gc():
    """one full cyclic-GC pass; everything that existed before the first pass of this process (modules,
    harness) is frozen first so that the pass only walks the objects of the running case"""
    if not _frozen:
        _frozen.append(1)
        gc.collect()
        gc.freeze()
    gc.collect()


def new_sim():
    """vloop.Sim with a clock resolution well below the 1/5-tick grid of this check.  asyncio runs a
    timer as soon as `when < now + clock_resolution`; vloop's default (1/4 tick) lets the default
    batch_timeout (51.2 ticks) fire when the clock stands at 51.0 — 0.2 tick early, which the real
    clock (resolution ~1e-9 s) never does.  1/64 tick is still far above float rounding of 0.05 s."""
    sim = vloop.Sim()
    sim.loop._clock_resolution = TICK / 64
    return sim


# ---------------------------------------------------------------------------
# buffer_until_timeout
# ---------------------------------------------------------------------------

def run_buffer(timeout, script, form):
    """script: ['sub', a] | ['adv', ticks].  Returns list of [t5, sorted args]."""
    logging.disable(logging.CRITICAL)
    from aiuti.asyncio import buffer_until_timeout, BufferAsyncCalls
    sim = new_sim()
    flushes = []
    kw = {} if timeout is None else {'timeout': timeout * TICK}
    box = {}

    async def bf(args):
        flushes.append([t5(sim), sorted(int(a) for a in args)])

    def before():
        if form == 'direct':
            box['b'] = buffer_until_timeout(bf, **kw)
        elif form == 'deco':
            box['b'] = buffer_until_timeout(**kw)(bf)
        else:
            box['b'] = BufferAsyncCalls(bf, **kw)

    def handler(ev):
        if ev[0] == 'sub':
            box['b'](ev[1])

    try:
        sim.run([tuple(e) for e in script], handler, before)
    finally:
        sim.close()
    if sim.spun:
        flushes.append([0, [EXC]])
    return flushes


def run_buffer2(timeout, script, form):
    """TWO buffered functions on one loop.  script: ['sub', j, a] | ['adv', ticks] (j = function).
    form 'direct': two direct wrappings buffer_until_timeout(f_j, timeout=...);
    form 'deco'  : ONE options-form decorator object applied to both functions.
    Returns [flushes of function 0, flushes of function 1]."""
    logging.disable(logging.CRITICAL)
    from aiuti.asyncio import buffer_until_timeout
    sim = new_sim()
    flushes = [[], []]
    kw = {} if timeout is None else {'timeout': timeout * TICK}
    box = {}

    def mk(j):
        async def bf(args):
            flushes[j].append([t5(sim), sorted(int(a) for a in args)])
        return bf

    def before():
        if form == 'direct':
            box['b'] = [buffer_until_timeout(mk(0), **kw), buffer_until_timeout(mk(1), **kw)]
        else:
            deco = buffer_until_timeout(**kw)
            box['b'] = [deco(mk(0)), deco(mk(1))]

    def handler(ev):
        if ev[0] == 'sub':
            box['b'][ev[1]](ev[2])

    try:
        sim.run([tuple(e) for e in script], handler, before)
    finally:
        sim.close()
    if sim.spun:
        flushes[0].append([0, [EXC]])
    return flushes


# ---------------------------------------------------------------------------
# async_background_batcher
# ---------------------------------------------------------------------------

OPTS = ['max_batch_size', 'max_concurrent_batches', 'batch_timeout', 'retention_timeout']


def batcher_kwargs(cfg):
    kw = {}
    for o in OPTS:
        v = cfg.get(o)
        if v is None:
            continue
        kw[o] = v * TICK if o.endswith('timeout') else v
    return kw


class LoopRec:
    """Everything observed on one loop."""

    def __init__(self):
        self.sim = new_sim()
        self.starts = []        # [t5, [keys]] in start order; index = batch index on this loop
        self.gates = {}         # batch index -> future
        self.dones = {}         # caller -> [t5, result]
        self.ncallers = 0
        self.tasks = []


class BatcherRig:
    """One decorated function (or one batcher object per loop for 'ctor'),
    any number of loops."""

    def __init__(self, cfg, form):
        from aiuti.asyncio import async_background_batcher, AsyncBackgroundBatcher
        self.kw = batcher_kwargs(cfg)
        self.form = form
        self.recs = {}          # loop id -> LoopRec
        self.by_loop = {}       # id(loop object) -> LoopRec (only while the loop is alive)
        self.cross = 0          # batch function invoked on a loop we do not know
        rig = self

        async def bf(batch):
            lp = asyncio.get_running_loop()
            rec = rig.by_loop.get(id(lp))
            if rec is None or rec.sim.loop is not lp:
                rig.cross += 1
                return
            b = len(rec.starts)
            keys = []
            for k, a in batch:
                try:
                    keys.append(int(k))
                except Exception:
                    keys.append(BADRES)
            rec.starts.append([t5(rec.sim), keys])
            fut = lp.create_future()
            rec.gates[b] = fut
            await fut
            for k, a in batch:
                yield k, ('res', id(rec), b)

        self.bf = bf
        self.ctor = {}
        if form == 'direct':
            self.wrapped = async_background_batcher(bf, **self.kw)
        elif form == 'deco':
            self.wrapped = async_background_batcher(**self.kw)(bf)
        else:
            self.wrapped = None
            self.cls = AsyncBackgroundBatcher

    def rec(self, l):
        if l not in self.recs:
            r = LoopRec()
            self.recs[l] = r
            self.by_loop[id(r.sim.loop)] = r
        return self.recs[l]

    def _call(self, rec, arg):
        if self.form == 'ctor':
            if id(rec) not in self.ctor:
                self.ctor[id(rec)] = self.cls(self.bf, **self.kw)
            return self.ctor[id(rec)](arg)
        return self.wrapped(arg)

    def run_segment(self, l, script):
        rec = self.rec(l)
        sim = rec.sim
        rig = self

        async def caller(c, k):
            try:
                r = await rig._call(rec, k)
            except asyncio.CancelledError:
                raise
            except BaseException:
                rec.dones[c] = [t5(sim), EXC]
                return
            if isinstance(r, tuple) and len(r) == 3 and r[0] == 'res' and r[1] == id(rec):
                rec.dones[c] = [t5(sim), r[2]]
            else:
                rec.dones[c] = [t5(sim), BADRES]

        def handler(ev):
            if ev[0] == 'call':
                # a cyclic-GC pass at the quiescent point before every call: an idle batcher (no request in
                # flight) must survive it — a registry that holds its batchers weakly would silently build a
                # fresh one here and lose the retained results (harmless on the unchanged tree)
                if len(rec.dones) == rec.ncallers:      # idle: every earlier caller has been answered
                    idle_gc()
                c = rec.ncallers
                rec.ncallers += 1
                rec.tasks.append(sim.loop.create_task(caller(c, ev[1])))
            elif ev[0] == 'fin':
                f = rec.gates.get(ev[1])
                if f is not None and not f.done():
                    f.set_result(None)

        sim.run([tuple(e) for e in script], handler)
        if sim.spun:
            rec.dones[rec.ncallers] = [0, EXC]
            rec.ncallers += 1

    def close(self, l, keep=None):
        rec = self.recs[l]
        self.by_loop.pop(id(rec.sim.loop), None)
        if keep is not None:
            # the application keeps a reference to its closed loop (keep = hook for is_closed, see run_loops_par)
            rec.sim.loop.is_closed = keep(rec.sim.loop)
            self.kept = getattr(self, 'kept', []) + [rec.sim.loop]
            rec.sim.close()
            rec.tasks = []
            rec.gates = {}
            rec.sim = None
            return
        rec.sim.close()
        # drop every reference to the loop so that its memory can be reused
        rec.tasks = []
        rec.gates = {}
        rec.sim.loop = None
        rec.sim = None
        gc.collect()

    def obs(self, l):
        rec = self.recs[l]
        return dict(starts=rec.starts,
                    dones=[rec.dones.get(c) for c in range(rec.ncallers)])

    def shutdown(self):
        for l, rec in self.recs.items():
            if rec.sim is not None:
                try:
                    self.by_loop.pop(id(rec.sim.loop), None)
                    rec.sim.close()
                except BaseException:
                    pass


def run_batcher(cfg, script, form):
    logging.disable(logging.CRITICAL)
    rig = BatcherRig(cfg, form)
    try:
        rig.run_segment(0, script)
        o = rig.obs(0)
        o['cross'] = rig.cross
        return o
    finally:
        rig.shutdown()


def run_batcher2(cfg, script, form):
    """TWO batch functions on one loop.  script: ['call', j, key] | ['fin', j, b] | ['adv', ticks]
    (j = function; b = batch index of THAT function).  form 'direct': two direct wrappings
    async_background_batcher(bf_j, **opts); form 'deco': ONE options-form decorator object applied to
    both.  Returns [obs of function 0, obs of function 1] (starts / dones as in run_batcher)."""
    logging.disable(logging.CRITICAL)
    from aiuti.asyncio import async_background_batcher
    kw = batcher_kwargs(cfg)
    sim = new_sim()
    recs = [dict(starts=[], gates={}, dones={}, n=0) for _ in range(2)]
    tasks = []

    def mk(j):
        rec = recs[j]

        async def bf(batch):
            b = len(rec['starts'])
            keys = []
            for k, a in batch:
                try:
                    keys.append(int(k))
                except Exception:
                    keys.append(BADRES)
            rec['starts'].append([t5(sim), keys])
            fut = sim.loop.create_future()
            rec['gates'][b] = fut
            await fut
            for k, a in batch:
                yield k, ('res', j, b)
        return bf

    if form == 'direct':
        ws = [async_background_batcher(mk(0), **kw), async_background_batcher(mk(1), **kw)]
    else:
        deco = async_background_batcher(**kw)
        ws = [deco(mk(0)), deco(mk(1))]

    async def caller(j, c, k):
        rec = recs[j]
        try:
            r = await ws[j](k)
        except asyncio.CancelledError:
            raise
        except BaseException:
            rec['dones'][c] = [t5(sim), EXC]
            return
        if isinstance(r, tuple) and len(r) == 3 and r[0] == 'res' and r[1] == j:
            rec['dones'][c] = [t5(sim), r[2]]
        else:
            rec['dones'][c] = [t5(sim), BADRES]

    def handler(ev):
        if ev[0] == 'call':
            rec = recs[ev[1]]
            if len(rec['dones']) == rec['n']:       # see BatcherRig.run_segment
                idle_gc()
            c = rec['n']
            rec['n'] += 1
            tasks.append(sim.loop.create_task(caller(ev[1], c, ev[2])))
        elif ev[0] == 'fin':
            f = recs[ev[1]]['gates'].get(ev[2])
            if f is not None and not f.done():
                f.set_result(None)

    try:
        sim.run([tuple(e) for e in script], handler)
        if sim.spun:
            recs[0]['dones'][recs[0]['n']] = [0, EXC]
            recs[0]['n'] += 1
        return [dict(starts=r['starts'], dones=[r['dones'].get(c) for c in range(r['n'])]) for r in recs]
    finally:
        sim.close()


def run_loops(cfg, plan, form='deco'):
    """plan: list of ['seg', l, script] | ['close', l].  Returns {l: obs} (as a list
    ordered by loop id) and the number of batch-function calls on unknown loops."""
    logging.disable(logging.CRITICAL)
    rig = BatcherRig(cfg, form)
    out = {}
    try:
        for step in plan:
            if step[0] == 'seg':
                rig.run_segment(step[1], step[2])
            else:
                if step[1] in rig.recs and rig.recs[step[1]].sim is not None:
                    out[step[1]] = rig.obs(step[1])
                    rig.close(step[1])
        for l in rig.recs:
            if l not in out:
                out[l] = rig.obs(l)
        return dict(loops=[[l, out[l]] for l in sorted(out)], cross=rig.cross)
    finally:
        rig.shutdown()


def run_loops_par(cfg, plan, form='deco'):
    """Same observation as run_loops, but the loops are driven by one real thread each, all at once.
    The plan up to and including its last 'close' step is first run sequentially (as run_loops does) — those
    closed loops STAY REFERENCED, like an application that keeps its old loop object around; the segments after
    it are then run concurrently, one thread per loop, started behind a barrier.
    Each loop's trace is a function of its own script alone iff the loops are independent, which is what is
    being checked.
    To make "concurrently" bite on code that inspects other loops from a caller's thread, `is_closed()` of the
    kept closed loops is harness-owned: when a worker thread asks a closed loop whether it is closed (asyncio
    never does that from a foreign thread; only library code walking a registry of loops can), the thread is
    parked until every worker thread has asked too (or 3 s passed) — all of them have then seen the same
    snapshot before any acts on it.  Never touched on the unchanged tree."""
    import threading
    logging.disable(logging.CRITICAL)
    rig = BatcherRig(cfg, form)
    last_close = max((i for i, st in enumerate(plan) if st[0] == 'close'), default=-1)
    prefix, rest = plan[:last_close + 1], plan[last_close + 1:]
    per = {}
    for step in rest:
        if step[0] == 'seg':
            per.setdefault(step[1], []).append(step[2])
    racers, parked = set(), set()
    gate = threading.Barrier(len(per)) if per else None

    def hook(loop):
        real = type(loop).is_closed

        def is_closed():
            closed = real(loop)
            th = threading.current_thread()
            if closed and th in racers and th not in parked:
                parked.add(th)
                try:
                    gate.wait(3)
                except threading.BrokenBarrierError:
                    pass
            return closed
        return is_closed

    out = {}
    for step in prefix:
        if step[0] == 'seg':
            rig.run_segment(step[1], step[2])
        elif step[1] in rig.recs and rig.recs[step[1]].sim is not None:
            out[step[1]] = rig.obs(step[1])
            rig.close(step[1], keep=hook)
    for l in per:
        rig.rec(l)                      # loops are created up front, in the main thread
    barrier = threading.Barrier(len(per)) if per else None
    errs = []

    def work(l):
        try:
            barrier.wait(timeout=10)
            for sc in per[l]:
                rig.run_segment(l, sc)
        except BaseException as e:      # pragma: no cover
            errs.append(repr(e))
            rec = rig.recs[l]
            rec.dones[rec.ncallers] = [0, EXC]
            rec.ncallers += 1

    try:
        ths = [threading.Thread(target=work, args=(l,)) for l in sorted(per)]
        racers.update(ths)
        for t in ths:
            t.start()
        for t in ths:
            t.join(60)
        hung = any(t.is_alive() for t in ths)
        for l in rig.recs:
            if l not in out:
                out[l] = rig.obs(l)
        return dict(loops=[[l, out[l]] for l in sorted(out)], cross=rig.cross + (1 if hung or errs else 0))
    finally:
        rig.shutdown()
