"""Shared driver for C03 / C07 / C08: runs the REAL aiuti.asyncio.BufferAsyncCalls
under the virtual-time loop (harness/vloop.py) on an explicit event list and
records the canonical trace that coq/theories/Buffer.v predicts.

case  = {'T': timeout_ticks, 'evs': [event, ...]}
event = ['sub', pid, 'plain', x] | ['sub', pid, 'list', [x..]] | ['sub', pid, 'iter', [x..], failpos|None]
      | ['sub', pid, 'aw'] | ['sub', pid, 'async']
      | ['py', pid, x] | ['pf', pid] | ['pe', pid]            scripted yield / failure / end of an async producer
      | ['adv', dt] | ['wait', w, cancel] | ['ok'] | ['fail'] | ['shutdown']
      | ['fclear'] | ['fput', pid, kind...] | ['okfclear']     foreign-thread halves of _put
      | ['fputl', pid, kind...]                like 'fput', but the foreign thread runs an event loop of its own and
                                               submits from inside a coroutine on it; unmatched (no pending first half)
                                               it is a whole ungated submission through the public API (model: FClear ; FPut)
      | ['burst', pid0, n, x0]                 n plain submissions buffer(x0), .., buffer(x0+n-1) (producer ids pid0..) made
                                               back to back in ONE step, no loop iteration in between
                                               (model: Submit pid0 (Plain x0) ; .. ; Submit (pid0+n-1) (Plain (x0+n-1)))
      | ['subwait', pid, w, cancel, kind...]   submit and `await wait(cancel=..)` in ONE step of one task, with no
                                               loop iteration in between (model: Submit pid kind ; Wait w cancel)
      | ['fputwait', pid, w, cancel, kind...]  second half of a foreign submission immediately followed, in the same
                                               foreign thread, by `await wait_from_anywhere(cancel=..)` run in that
                                               thread's own event loop (model: FPut pid kind ; Wait w cancel)
obs   = one list per event, entries
        ['start', callno, sorted set, tick] | ['end', callno, ok, sorted set re-read at the end]
      | ['wret', w, tick, n_successful_calls_so_far] | ['werr', w] | ['dead'] | ['hang'] | ['late', ...]

case['vals'] (optional) = {argument id: tag}: the argument id stands for an unusual Python VALUE instead of the small
integer itself — tags 'none' (None), 'zero' (0), 'false' (False), 'fzero' (0.0), 'str' (''), 'tuple' (()), 'bytes' (b''),
'fset' (frozenset()).  The id is replaced by the value wherever the script hands it to the library (plain call, list,
iterator, awaitable result, async yield) and the value is mapped back to the id in every observed set; the model only
ever sees ids.  At most one of 'zero' / 'false' / 'fzero' per case (they are equal as set elements).

case['fn'] (optional) = how the harness-owned buffered function is handed to BufferAsyncCalls: 'method' (a bound async
method), 'object' (an instance of a class with `async def __call__` — no __name__ / __qualname__), 'partial' (a
functools.partial of the method).  case['failwith'] (optional) = what a scripted ['fail'] makes the function raise: 'exc' (an
ordinary Exception), 'cancel' (asyncio.CancelledError raised by the function itself — nobody cancels the buffer's task, so
it is a failed call like any other), 'alt' / 'alt2' (alternating by call number, starting with the Exception / the
CancelledError).  case['aiter'] (optional) = what an 'async' producer is: 'gen' (an async generator) or 'class' (an object
with only __aiter__ / __anext__ — no aclose / asend / athrow).  When absent all three are derived from a checksum of the event list (fn_kind / fail_kind), so every generator
layer covers all combinations; the shrinker writes them into the case so that they stay fixed.  The model's event is FnFail.

Everything the buffered function / the producers do is scripted: the function
logs `start` with a COPY of the set and parks on a harness future resolved by
the next ['ok'] / ['fail']; asynchronous producers take their yields / failure /
end from the script (actions that arrive before the library iterates the
producer are kept and handed over as soon as it does).  Events after the first
['shutdown'] are not applied (the model does the same).

Producer failures come in two flavours, chosen by the parity of the producer id:
an ordinary Exception (even ids) and asyncio.CancelledError raised by the producer
itself / a cancelled awaitable (odd ids) — the buffer must treat both as "this
producer failed", its own task is not being cancelled.

Foreign-thread submissions.  A matched pair ['fclear'] ... ['fput', pid, kind..]
(and ['okfclear'] ... ['fput', ..]) is ONE real foreign thread calling the public
API (buffer(x) / map / await_ / amap): the thread is parked in front of each of
the two shared-state operations of BufferAsyncCalls._put — `self.event.clear()`
and `self.loop.call_soon_threadsafe(...)`, both reached through the public
attributes `event` / `loop`, which the driver swaps for gated stand-ins — and the
first event of the pair lets it perform the FIRST operation it reaches, the
second event the SECOND.  The model says the first is the clear and the second
the put.  An unmatched 'fclear' / 'fput' is performed directly as before.
"""
from __future__ import annotations

import asyncio
import functools
import logging
import threading
import zlib

from .vloop import Sim, TICK


VALUE_TAGS = {'none': None, 'zero': 0, 'false': False, 'fzero': 0.0, 'str': '', 'tuple': (), 'bytes': b'',
              'fset': frozenset()}
ZERO_FAMILY = ('zero', 'false', 'fzero')
SENTINEL = 4999


FN_KINDS = ('method', 'object', 'partial')
FAIL_KINDS = ('exc', 'cancel', 'alt', 'alt2')


def _checksum(case):
    return zlib.crc32(repr([list(e) for e in case['evs']]).encode())


def fn_kind(case):
    return case.get('fn') or FN_KINDS[(_checksum(case) // 4) % 3]


def fail_kind(case):
    return case.get('failwith') or FAIL_KINDS[_checksum(case) % 4]


def aiter_kind(case):
    return case.get('aiter') or ('gen', 'class')[(_checksum(case) // 12) % 2]


class _ClassAIter:
    """a class-based asynchronous iterator: __aiter__ / __anext__ only (no aclose, asend, athrow)"""

    def __init__(self, run, p):
        self._run, self._p = run, p

    def __aiter__(self):
        return self

    async def __anext__(self):
        p = self._p
        while not p.acts:
            p.waiter = self._run.sim.loop.create_future()
            try:
                await p.waiter
            finally:
                p.waiter = None
        a = p.acts.pop(0)
        if a[0] == 'y':
            return a[1]
        if a[0] == 'f':
            if p.pid % 2:
                raise asyncio.CancelledError()
            raise ProdErr(f'producer {p.pid} failed')
        raise StopAsyncIteration


class _FnObject:
    """a callable object: no __name__, no __qualname__"""

    def __init__(self, run):
        self._run = run

    async def __call__(self, inputs):
        await self._run.fn(inputs)


class ProdErr(Exception):
    pass


class FnErr(Exception):
    pass


class _Prod:
    __slots__ = ('pid', 'single', 'closed', 'acts', 'fut', 'waiter')

    def __init__(self, pid, single):
        self.pid, self.single, self.closed = pid, single, False
        self.acts = []          # scripted actions not yet consumed
        self.fut = None         # Aw: the awaited harness future
        self.waiter = None      # Async: future the generator is parked on


class _FailingIter:
    """Synchronous *iterator* (goes through to_async_iter's helper thread)
    yielding xs and raising at position failpos (None = never)."""

    def __init__(self, xs, failpos):
        self.xs, self.failpos, self.i = list(xs), failpos, 0

    def __iter__(self):
        return self

    def __next__(self):
        if self.failpos is not None and self.i >= self.failpos:
            raise ProdErr('sync producer failed')
        if self.i >= len(self.xs):
            raise StopIteration
        x = self.xs[self.i]
        self.i += 1
        return x


def _pool_threads_alive():
    return any(t.name.startswith('ThreadPoolExecutor') for t in threading.enumerate())


def in_own_loop(thunk):
    """run thunk from inside a coroutine on an event loop owned by the calling (foreign) thread"""
    def run():
        lp = asyncio.new_event_loop()
        try:
            async def co():
                thunk()
            lp.run_until_complete(co())
        finally:
            lp.close()
    return run


def match_foreign(evs):
    """pair every foreign first half ('fclear' / 'okfclear') with the next unused second half
    ('fput' / 'fputl' / 'fputwait', fresh pid) in FIFO order, up to the first shutdown;
    returns {index of first half: (index, event) of second half}"""
    used_pids, open_firsts, m = set(), [], {}
    for i, e in enumerate(evs):
        if e[0] in ('sub', 'subwait'):
            used_pids.add(e[1])
        elif e[0] == 'burst':
            used_pids.update(range(e[1], e[1] + e[2]))
        elif e[0] in ('fclear', 'okfclear'):
            open_firsts.append(i)
        elif e[0] in ('fput', 'fputl', 'fputwait'):
            if e[1] not in used_pids and open_firsts:
                m[open_firsts.pop(0)] = (i, e)
            used_pids.add(e[1])
        elif e[0] == 'shutdown':
            break
    return m


class _ForeignPut:
    """One foreign thread going through BufferAsyncCalls._put, parked before each gated operation."""

    def __init__(self, thunk):
        import queue
        self.reached = queue.Queue()
        self.done = queue.Queue()
        self.go = threading.Semaphore(0)
        self.err = []
        self.ended = False
        self.nops = 0           # gated operations of _put performed so far
        self.wid = None         # wait id when the thread goes on to wait_from_anywhere()
        self.wait_called = False
        self.loop2 = None
        self.task2 = None

        def body():
            try:
                thunk()
            except BaseException as e:      # e.g. loop closed at the very end
                self.err.append(e)
            finally:
                self.reached.put('end')
        self.thread = threading.Thread(target=body, name='foreign-put') if thunk is not None else None

    def gate(self, opname, do):
        if self.nops >= 2:
            # not part of _put any more (e.g. run_coroutine_threadsafe of wait_from_anywhere):
            # perform it, then tell the driver that something was scheduled on the owning loop
            try:
                return do()
            finally:
                self.reached.put('sched')
        self.reached.put(opname)
        self.go.acquire()
        try:
            return do()
        finally:
            self.nops += 1
            self.done.put(opname)

    def start_and_first(self):
        """start the thread and let it perform the first gated operation it reaches"""
        self.thread.start()
        self._one()

    def second(self):
        self._one()

    def _one(self):
        if self.ended:
            return
        op = self.reached.get()
        if op == 'end':
            self.ended = True
            self.thread.join()
            return
        self.go.release()
        self.done.get()

    def until_scheduled_or_end(self):
        """after the second half: let the thread run on until it has either scheduled its wait() on
        the owning loop or returned"""
        if self.ended:
            return 'end'
        op = self.reached.get()
        if op == 'end':
            self.ended = True
            self.thread.join()
        return op

    def drain(self):
        """an ungated thread: wait until it has ended"""
        while not self.ended:
            if self.reached.get() == 'end':
                self.ended = True
                self.thread.join()

    def finish(self):
        if self.wid is not None and self.nops >= 2:
            return              # a waiter: ends when its wait() does (see abandon)
        while not self.ended:
            self._one()

    def abandon(self):
        """end of the run: a foreign waiter whose wait() never returned"""
        if self.ended or not self.thread.is_alive():
            return
        self.thread.join(0.5)
        if self.thread.is_alive() and self.loop2 is not None and self.task2 is not None:
            try:
                self.loop2.call_soon_threadsafe(self.task2.cancel)
            except BaseException:
                pass
            self.thread.join(1.0)


def _current_fp(run):
    t = threading.current_thread()
    for fp in run.fputs:
        if fp.thread is t:
            return fp
    return None


class _GatedEvent(asyncio.Event):
    _run = None

    def clear(self):
        fp = _current_fp(self._run) if self._run is not None else None
        if fp is None:
            return super().clear()
        return fp.gate('clear', super().clear)


class _LoopProxy:
    def __init__(self, loop, run):
        object.__setattr__(self, '_loop', loop)
        object.__setattr__(self, '_run', run)

    def __getattr__(self, name):
        return getattr(self._loop, name)

    def call_soon_threadsafe(self, *a, **kw):
        fp = _current_fp(self._run)
        if fp is None:
            return self._loop.call_soon_threadsafe(*a, **kw)
        return fp.gate('put', lambda: self._loop.call_soon_threadsafe(*a, **kw))


class Run:
    SHUTDOWN_TAIL = 3       # after a shutdown: advance 3*T+3 ticks to expose a daemon that lives on

    def __init__(self, case):
        self.case = case
        self.T = int(case['T'])
        self.sim = Sim()
        self.sim.external_pending = self._helpers_pending
        self._polls = 0
        self.buffer = None
        self.prods = {}
        self.running = []       # [(callno, live set, future)]
        self.callno = 0
        self.nok = 0
        self.tasks = []         # tasks in creation order (for the deterministic shutdown)
        self.shut = False
        self.wtasks = {}
        self.fputs = []         # foreign threads going through _put
        self.unsafe_calls = 0   # plain call_soon() on the owning loop from a foreign thread
        self.fsecond = set()
        self.fmatch = {}        # script index of a 'fclear'/'okfclear' -> (script index, event) of the matching 'fput'
        self.fthread = {}       # script index of a 'fput' -> the thread parked before its second operation
        self.idx = -1
        self.vals = {int(k): v for k, v in (case.get('vals') or {}).items()}
        self.fn_kind = fn_kind(case)
        self.fail_kind = fail_kind(case)
        self.aiter_kind = aiter_kind(case)

    def aprod(self, p):
        return _ClassAIter(self, p) if self.aiter_kind == 'class' else self.agen(p)

    def wrapped(self):
        if self.fn_kind == 'object':
            return _FnObject(self)
        if self.fn_kind == 'partial':
            return functools.partial(self.fn)
        return self.fn

    def fails_with_cancel(self, k):
        return {'exc': False, 'cancel': True, 'alt': k % 2 == 1, 'alt2': k % 2 == 0}[self.fail_kind]

    # -- argument ids <-> Python values ------------------------------------------
    def enc(self, x):
        tag = self.vals.get(x)
        return x if tag is None else VALUE_TAGS[tag]

    def dec(self, obj):
        for i, tag in self.vals.items():
            v = VALUE_TAGS[tag]
            if tag in ZERO_FAMILY:
                if type(obj) in (int, bool, float) and obj == 0:
                    return i
            elif type(obj) is type(v) and obj == v:
                return i
        if type(obj) is int and 0 <= obj < SENTINEL:
            return obj
        return SENTINEL

    def frozen(self, inputs):
        try:
            return sorted(self.dec(x) for x in inputs)
        except BaseException:
            return [SENTINEL]

    PATIENCE = 100          # polls of 5 ms: a helper thread that is still there after 0.5 s is parked for good

    def _helpers_pending(self):
        """a to_async_iter helper thread is still forwarding elements: wait for it before declaring
        quiescence — but not forever: a helper that stays (its generator was abandoned, e.g. by a daemon
        that swallowed its cancellation) must not stall the run"""
        if not _pool_threads_alive():
            self._polls = 0
            return False
        self._polls += 1
        return self._polls < self.PATIENCE

    # -- harness-owned user code -------------------------------------------
    async def fn(self, inputs):
        k = self.callno
        self.callno += 1
        fut = self.sim.loop.create_future()
        self.running.append((k, inputs, fut))
        self.sim.obs('start', k, self.frozen(inputs), self.sim.ticks())
        ok = await fut
        if not ok:
            if self.fails_with_cancel(k):
                raise asyncio.CancelledError()      # the function's own failure: nobody cancelled the buffer's task
            raise FnErr(f'call {k} failed')

    async def agen(self, p):
        while True:
            while not p.acts:
                p.waiter = self.sim.loop.create_future()
                try:
                    await p.waiter
                finally:
                    p.waiter = None
            a = p.acts.pop(0)
            if a[0] == 'y':
                yield a[1]
            elif a[0] == 'f':
                if p.pid % 2:
                    raise asyncio.CancelledError()      # the producer's own failure, nobody cancels the buffer
                raise ProdErr(f'producer {p.pid} failed')
            else:
                return

    # -- event handler -------------------------------------------------------
    def make_producer(self, ev):
        """Returns a thunk performing the submission through the public API, and
        (for the foreign FPut) the async iterable itself."""
        pid, kind = ev[1], ev[2]
        b = self.buffer
        if kind == 'plain':
            x = self.enc(ev[3])
            return (lambda: b(x)), (lambda: _obj_to_aiter()(x))
        if kind == 'list':
            xs = [self.enc(x) for x in ev[3]]
            return (lambda: b.map(xs)), (lambda: _to_async_iter()(xs))
        if kind == 'iter':
            it = _FailingIter([self.enc(x) for x in ev[3]], ev[4])
            return (lambda: b.map(it)), (lambda: _to_async_iter()(it))
        if kind == 'aw':
            p = _Prod(pid, True)
            p.fut = self.sim.loop.create_future()
            self.prods[pid] = p
            return (lambda: b.await_(p.fut)), (lambda: _awaitable_to_aiter()(p.fut))
        if kind == 'async':
            p = _Prod(pid, False)
            self.prods[pid] = p
            return (lambda: b.amap(self.aprod(p))), (lambda: self.aprod(p))
        raise ValueError(kind)

    def handler(self, ev):
        self.idx = self.sim.step
        self._polls = 0
        if self.shut:
            return
        k = ev[0]
        sim, b = self.sim, self.buffer
        if k == 'subwait':
            pid, w, cancel = ev[1], ev[2], bool(ev[3])
            if pid in self.seen:
                submit = None
            else:
                self.seen.add(pid)
                submit = self.make_producer(['sub', pid] + list(ev[4:]))[0]

            async def subwaiter():
                if submit is not None:
                    submit()
                try:
                    await b.wait(cancel=cancel)
                except asyncio.CancelledError:
                    raise
                except BaseException:
                    sim.obs('werr', w)
                    return
                sim.obs('wret', w, sim.ticks(), self.nok)
            self.wtasks[w] = sim.loop.create_task(subwaiter())
            return
        if k == 'sub':
            if ev[1] in self.seen:
                return
            self.seen.add(ev[1])
            self.make_producer(ev)[0]()
        elif k == 'burst':
            for i in range(ev[2]):
                if ev[1] + i in self.seen:
                    continue
                self.seen.add(ev[1] + i)
                b(self.enc(ev[3] + i))
        elif k in ('py', 'pf', 'pe'):
            p = self.prods.get(ev[1])
            if p is None or p.closed:
                return
            if p.single:
                if k == 'pe':
                    return
                p.closed = True
                if k == 'py':
                    p.fut.set_result(self.enc(ev[2]))
                elif p.pid % 2:
                    p.fut.cancel()         # a cancelled awaitable: CancelledError out of the producer
                else:
                    p.fut.set_exception(ProdErr(f'awaitable {p.pid} failed'))
                    p.fut.exception()      # mark retrieved: no "never retrieved" logging noise
                return
            if k == 'py':
                p.acts.append(('y', self.enc(ev[2])))
            else:
                p.closed = True
                p.acts.append(('f',) if k == 'pf' else ('e',))
            if p.waiter is not None and not p.waiter.done():
                p.waiter.set_result(None)
        elif k == 'wait':
            w, cancel = ev[1], bool(ev[2])

            async def waiter():
                try:
                    await b.wait(cancel=cancel)
                except asyncio.CancelledError:
                    raise
                except BaseException:
                    sim.obs('werr', w)
                    return
                sim.obs('wret', w, sim.ticks(), self.nok)
            self.wtasks[w] = sim.loop.create_task(waiter())
        elif k in ('ok', 'fail', 'okfclear'):
            if not self.running:
                return
            kno, live, fut = self.running.pop(0)
            ok = k != 'fail'
            sim.obs('end', kno, ok, self.frozen(live))
            if ok:
                self.nok += 1
            fut.set_result(ok)
            if k == 'okfclear':
                # foreign event.clear() landing between event.set() (in _run_func) and the
                # is_set() test of the round loop: run from a real second thread as soon as
                # the daemon has set the event, i.e. from the Event's own set()
                ev_obj = b.event
                orig_set = ev_obj.set
                here = self.idx

                def set_then_foreign_clear():
                    orig_set()
                    ev_obj.set = orig_set
                    self._first_half(here)
                ev_obj.set = set_then_foreign_clear
        elif k == 'fclear':
            self._first_half(self.idx)
        elif k == 'fputwait':
            pid, w, cancel = ev[1], ev[2], bool(ev[3])
            fp = self.fthread.pop(self.idx, None)
            if fp is None:
                # no first half is pending: a foreign thread that only puts (no clear), then waits
                if pid in self.seen:
                    return
                self.seen.add(pid)
                it = self.make_producer(['fput', pid] + list(ev[4:]))[1]()
                fp = _ForeignPut(None)
                fp.nops = 2
                fp.thread = threading.Thread(
                    target=self._waiter_body(fp, lambda: self._real_loop.call_soon_threadsafe(b.q.put_nowait, it), w, cancel),
                    name='foreign-put')
                self.fputs.append(fp)
                fp.wid = w
                fp.thread.start()
            else:
                fp.second()
            op = fp.until_scheduled_or_end()
            if op == 'end' and not fp.wait_called:
                # wait_from_anywhere() came back without ever calling wait() on the owning loop
                if fp.err:
                    sim.obs('werr', w)
                else:
                    sim.obs('wret', w, sim.ticks(), self.nok)
        elif k in ('fput', 'fputl'):
            fp = self.fthread.pop(self.idx, None)
            if fp is not None:
                # second half of a foreign thread that is parked inside _put
                fp.second()
                fp.finish()
                return
            if ev[1] in self.seen:
                return
            self.seen.add(ev[1])
            if k == 'fputl' and self.idx not in self.fsecond:
                # a whole submission through the public API, from a coroutine on the foreign thread's own loop
                fp = _ForeignPut(in_own_loop(self.make_producer(ev)[0]))
                fp.nops = 2
                self.fputs.append(fp)
                fp.thread.start()
                fp.drain()
                return
            it = self.make_producer(ev)[1]()
            put = lambda: self._real_loop.call_soon_threadsafe(b.q.put_nowait, it)
            self._foreign(in_own_loop(put) if k == 'fputl' else put)
        elif k == 'shutdown':
            self.shut = True
            # what asyncio.runners._cancel_all_tasks(loop) does, in creation order
            known = [t for t in self.tasks if not t.done()]
            extra = [t for t in asyncio.all_tasks(sim.loop) if t not in known and not t.done()]
            self.to_cancel = known + sorted(extra, key=lambda t: t.get_name())
            for t in self.to_cancel:
                t.cancel()
        else:
            raise ValueError(ev)

    def _first_half(self, idx):
        """first half of a foreign submission: through the real _put when a later 'fput' completes
        it, else a bare foreign event.clear()"""
        m = self.fmatch.get(idx)
        if m is None:
            self._foreign(lambda: asyncio.Event.clear(self.buffer.event))
            return
        j, pev = m
        self.seen.add(pev[1])
        if pev[0] == 'fputwait':
            submit = self.make_producer(['fput', pev[1]] + list(pev[4:]))[0]
            fp = _ForeignPut(None)
            fp.wid = pev[2]
            fp.thread = threading.Thread(target=self._waiter_body(fp, submit, pev[2], bool(pev[3])), name='foreign-put')
        elif pev[0] == 'fputl':
            fp = _ForeignPut(in_own_loop(self.make_producer(pev)[0]))
        else:
            fp = _ForeignPut(self.make_producer(pev)[0])
        self.fputs.append(fp)
        self.fthread[j] = fp
        fp.start_and_first()

    def _waiter_body(self, fp, submit, w, cancel):
        """body of a foreign thread that submits and then awaits wait_from_anywhere() in its own loop"""
        b = self.buffer

        def body():
            try:
                submit()
                loop2 = asyncio.new_event_loop()
                fp.loop2 = loop2
                try:
                    fp.task2 = loop2.create_task(b.wait_from_anywhere(cancel=cancel))
                    loop2.run_until_complete(fp.task2)
                except asyncio.CancelledError:
                    pass
                finally:
                    loop2.close()
            except BaseException as e:
                fp.err.append(e)
            finally:
                fp.reached.put('end')
        return body

    def _foreign(self, thunk):
        """Run thunk in a real second thread while the loop thread is parked here."""
        box = []

        def body():
            try:
                thunk()
            except BaseException as e:      # pragma: no cover
                box.append(e)
        t = threading.Thread(target=body, name='foreign')
        t.start()
        t.join()
        if box:
            raise box[0]

    # -- run -------------------------------------------------------------------
    def run(self):
        from aiuti.asyncio import BufferAsyncCalls
        sim = self.sim
        evs = [list(e) for e in self.case['evs']]
        n = len(evs)
        script = []
        shut_at = None
        for i, e in enumerate(evs):
            script.append(tuple(e) if e[0] == 'adv' else e)
            if e[0] == 'shutdown':
                shut_at = i
                break
        n_applied = len(script)
        if shut_at is not None:
            script.append(('adv', self.SHUTDOWN_TAIL * self.T + 3))
        self.seen = set()
        self.fmatch = match_foreign(script[:n_applied])
        self.fsecond = {j for j, _ in self.fmatch.values()}

        def before():
            loop = sim.loop
            # a real loop asleep in select() is not woken by a plain call_soon() made from another
            # thread (only call_soon_threadsafe writes to the self-pipe): such a callback is never run
            owner = threading.get_ident()
            plain_call_soon = loop.call_soon

            def call_soon(cb, *a, context=None):
                if threading.get_ident() != owner:
                    self.unsafe_calls += 1
                    return asyncio.Handle(cb, a, loop, context)
                return plain_call_soon(cb, *a, context=context)
            loop.call_soon = call_soon

            def factory(lp, coro, **kw):
                t = asyncio.Task(coro, loop=lp, **kw)
                self.tasks.append(t)
                return t
            loop.set_task_factory(factory)
            loop.set_exception_handler(lambda lp, ctx: None)
            self.buffer = BufferAsyncCalls(self.wrapped(), timeout=self.T * TICK)
            # gated stand-ins for the two public attributes _put goes through
            self._real_loop = self.buffer.loop
            ge = _GatedEvent()
            ge._run = self
            if self.buffer.event.is_set():
                ge.set()
            self.buffer.event = ge
            self.buffer.loop = _LoopProxy(self._real_loop, self)
            orig_wait = self.buffer.wait

            def wait_entry(*, cancel=True):
                # wait_from_anywhere() of a foreign waiter builds its wait() coroutine here (in the foreign
                # thread); the coroutine itself runs on the owning loop, where the return is logged
                fp = _current_fp(self)
                if fp is None or fp.wid is None:
                    return orig_wait(cancel=cancel)
                fp.wait_called = True
                w = fp.wid

                async def co():
                    try:
                        await orig_wait(cancel=cancel)
                    except asyncio.CancelledError:
                        raise
                    except BaseException:
                        sim.obs('werr', w)
                        return
                    sim.obs('wret', w, sim.ticks(), self.nok)
                return co()
            self.buffer.wait = wait_entry
            d = self.buffer._waiting
            self.tasks.insert(0, d)
            d.add_done_callback(lambda t: (sim.obs('dead'), self._consume(t)))

        prev = logging.root.manager.disable
        logging.disable(logging.CRITICAL)
        try:
            sim.run(script, self.handler, before=before)
            out = [[] for _ in range(n)]
            for rec in sim.log:
                st = rec[0]
                if st < 0:
                    st = 0
                if shut_at is not None and st > shut_at:
                    st = shut_at
                if st >= n:
                    st = n - 1
                out[st].append(list(rec[1:]))
            if sim.spun:
                out[min(n_applied, n) - 1].append(['spin'])
            if shut_at is not None:
                if any(not t.done() for t in self.to_cancel) or not self.buffer._waiting.done():
                    out[shut_at].append(['hang'])
            return out
        finally:
            try:
                for fp in self.fputs:
                    fp.finish()
                for _, _, fut in self.running:
                    if not fut.done():
                        fut.cancel()
                sim.close()
                for fp in self.fputs:
                    fp.abandon()
            finally:
                logging.disable(prev)

    @staticmethod
    def _consume(t):
        if not t.cancelled():
            t.exception()


def _obj_to_aiter():
    import aiuti.asyncio as A
    return A._obj_to_aiter


def _awaitable_to_aiter():
    import aiuti.asyncio as A
    return A._awaitable_to_aiter


def _to_async_iter():
    import aiuti.asyncio as A
    return A.to_async_iter


def run_case(case):
    """Total: returns {'obs': [[...], ...]}."""
    if not case['evs']:
        return dict(obs=[])
    return dict(obs=Run(case).run())


# ---------------------------------------------------------------------------
# Shared by harness/props/C03.py, C07.py, C08.py: Coq literals, shrinking,
# letter-programs for the enumerators, distribution counters.
# ---------------------------------------------------------------------------
from . import common as C   # noqa: E402

HEADER = ('From Coq Require Import List NArith Bool. Import ListNotations.\n'
          'Require Import Aiuti.Buffer Aiuti.Case_Buffer.')


def _nats(l):
    return C.coq_list([C.coq_nat(int(x)) for x in l])


def _obs_nats(l):
    """elements of an observed set: anything that is not one of the small integers the script uses
    (a foreign object the implementation slipped in) becomes the sentinel 4999"""
    out = []
    for x in l:
        try:
            v = int(x)
        except BaseException:
            v = 4999
        out.append(C.coq_nat(v if 0 <= v < 4999 else 4999))
    return C.coq_list(out)


def kind_coq(ev, off):
    k = ev[off]
    if k == 'plain':
        return f'(Plain {C.coq_nat(ev[off + 1])})'
    if k == 'list':
        return f'(SyncList {_nats(ev[off + 1])})'
    if k == 'iter':
        fp = ev[off + 2]
        return f'(SyncIter {_nats(ev[off + 1])} {C.coq_opt(fp, C.coq_nat)})'
    return {'aw': 'Aw', 'async': 'Async'}[k]


def ev_coq(ev):
    k = ev[0]
    if k == 'sub':
        return f'Submit {ev[1]} {kind_coq(ev, 2)}'
    if k == 'fput':
        return f'FPut {ev[1]} {kind_coq(ev, 2)}'
    if k == 'py':
        return f'PYield {ev[1]} {C.coq_nat(ev[2])}'
    if k == 'pf':
        return f'PFail {ev[1]}'
    if k == 'pe':
        return f'PEnd {ev[1]}'
    if k == 'adv':
        return f'Advance {C.coq_N(ev[1])}'
    if k == 'wait':
        return f'Wait {ev[1]} {C.coq_bool(ev[2])}'
    return {'ok': 'FnOk', 'fail': 'FnFail', 'shutdown': 'Shutdown', 'fclear': 'FClear',
            'okfclear': 'FnOkThenFClear'}[k]


def ob_coq(o):
    k = o[0]
    if k == 'start':
        return f'FnStart {o[1]} {_obs_nats(o[2])} {C.coq_N(o[3])}'
    if k == 'end':
        return f'FnEnd {o[1]} {C.coq_bool(o[2])} {_obs_nats(o[3])}'
    if k == 'wret':
        return f'WaitRet {o[1]} {C.coq_N(o[2])} {o[3]}'
    if k == 'dead':
        return 'DaemonEnded'
    return 'Hang'          # hang, werr, spin: nothing the model ever produces


def expand(evs, obs=None):
    """driver events -> model events (a 'subwait' is Submit ; Wait), observations re-aligned: the
    Submit half of a subwait shows nothing (the model never observes anything in a Submit step)"""
    out_e, out_o = [], []
    second = {j for j, _ in match_foreign(evs).values()}
    for i, e in enumerate(evs):
        o = obs[i] if obs is not None and i < len(obs) else []
        if e[0] == 'fputl':
            if i not in second:
                out_e.append(['fclear'])
                out_o.append([])
            out_e.append(['fput'] + list(e[1:]))
            out_o.append(o)
        elif e[0] == 'burst':
            if e[2] <= 0:
                out_e.append(['adv', 0])        # an empty burst: a step in which nothing happens
                out_o.append(o)
            for j in range(e[2]):
                out_e.append(['sub', e[1] + j, 'plain', e[3] + j])
                out_o.append(o if j == e[2] - 1 else [])
        elif e[0] in ('subwait', 'fputwait'):
            out_e.append(['sub' if e[0] == 'subwait' else 'fput', e[1]] + list(e[4:]))
            out_o.append([])
            out_e.append(['wait', e[2], e[3]])
            out_o.append(o)
        else:
            out_e.append(e)
            out_o.append(o)
    return out_e, out_o


def to_coq(case, obs):
    mevs, mobs = expand(case['evs'], obs['obs'])
    evs = C.coq_list([ev_coq(e) for e in mevs])
    ob = C.coq_list([C.coq_list([ob_coq(o) for o in step]) for step in mobs])
    return f"Case {C.coq_N(case['T'])} {evs} {ob}"


def error_obs(case, o):
    return dict(obs=[[['hang']] for _ in case['evs']])


def explain_exprs(case, obs):
    evs = C.coq_list([ev_coq(e) for e in expand(case['evs'])[0]])
    return [f"trace {C.coq_N(case['T'])} {evs}"]


BIG_BURST = 512     # a case with a burst this large costs about a minute in Coq: reported as it is, not shrunk


def shrink_candidates(case):
    evs = case['evs']
    if any(e[0] == 'burst' and e[2] >= BIG_BURST for e in evs):
        return []
    case = dict(case, fn=fn_kind(case), failwith=fail_kind(case), aiter=aiter_kind(case))     # keep the flavours of the original while shrinking
    out = []
    for i in range(len(evs)):
        out.append(dict(case, evs=evs[:i] + evs[i + 1:]))
    for i, e in enumerate(evs):
        if e[0] == 'adv' and e[1] > 0:
            for v in {0, e[1] // 2, e[1] - 1}:
                if v != e[1]:
                    out.append(dict(case, evs=evs[:i] + [['adv', v]] + evs[i + 1:]))
        if e[0] == 'burst' and e[2] > 1:
            n = e[2]
            for v in sorted({n // 2, n - n // 4, n - n // 16, n - n // 64, n - 1}):
                if 0 < v < n:
                    out.append(dict(case, evs=evs[:i] + [['burst', e[1], v, e[3]]] + evs[i + 1:]))
        if e[0] in ('sub', 'fput') and e[2] in ('list', 'iter') and len(e[3]) > 1:
            e2 = list(e)
            e2[3] = e[3][:-1]
            out.append(dict(case, evs=evs[:i] + [e2] + evs[i + 1:]))
    if case['T'] > 8:
        # rescale the clock
        T, T2 = case['T'], 8
        def sc(e):
            if e[0] != 'adv':
                return e
            d = e[1]
            near = min([(abs(d - m * T), m) for m in range(0, 6)])
            return ['adv', max(0, near[1] * T2 + (d - near[1] * T if abs(d - near[1] * T) < 3 else 0))]
        out.append(dict(case, T=T2, evs=[sc(e) for e in evs]))
    return out


def signature(case, obs):
    return None


def arg_ids(evs):
    """argument ids a script hands to the library, in order of first appearance"""
    out = []
    for e in evs:
        k = e[0]
        off = {'sub': 2, 'fput': 2, 'fputl': 2, 'subwait': 4, 'fputwait': 4}.get(k)
        xs = []
        if off is not None:
            if e[off] == 'plain':
                xs = [e[off + 1]]
            elif e[off] in ('list', 'iter'):
                xs = list(e[off + 1])
        elif k == 'py':
            xs = [e[2]]
        for x in xs:
            if x not in out:
                out.append(x)
    return out


def with_vals(case, rnd, kmax=3):
    """let up to kmax of the case's argument ids stand for unusual values (None, 0, '', (), ...)"""
    ids = arg_ids(case['evs'])
    if not ids:
        return case
    tags = list(VALUE_TAGS)
    vals, zero_used = {}, False
    for x in rnd.sample(ids, min(len(ids), rnd.randint(1, kmax))):
        t = 'none' if rnd.random() < 0.5 else rnd.choice(tags)
        if t in ZERO_FAMILY:
            if zero_used:
                continue
            zero_used = True
        if t in vals.values() and t not in ZERO_FAMILY:
            continue            # one id per value: two ids for the same value would be one set element
        vals[str(x)] = t
    return dict(case, vals=vals) if vals else case


def value_cases(T=8):
    """unusual argument values at the beginning / in the middle / at the end of every producer kind, most of all of
    a real iterator (drained by to_async_iter's helper thread): None, and falsy values that are not None"""
    out = []

    def add(evs, vals):
        out.append(dict(T=T, evs=evs + settle_tail(T, evs), vals={str(k): v for k, v in vals.items()}))
    for tag in VALUE_TAGS:
        for pos in (0, 1, 3):
            add([['sub', 0, 'iter', [1, 2, 3, 4], None]], {pos + 1: tag})
            add([['sub', 0, 'list', [1, 2, 3, 4]]], {pos + 1: tag})
        add([['sub', 0, 'iter', [1, 2, 3, 4], 3]], {2: tag})                    # .. then the iterator fails
        add([['sub', 0, 'iter', [1, 2, 3, 2, 5], None]], {2: tag})              # the value twice
        add([['sub', 0, 'iter', [1, 2, 3], None], ['sub', 1, 'iter', [4, 5, 6], None]], {2: tag})
        add([['sub', 0, 'iter', [1, 2, 3, 4], None], ['wait', 0, True], ['ok']], {2: tag})
        add([['sub', 0, 'iter', [1, 2, 3, 4], None], ['wait', 0, False], ['adv', T + 1], ['ok']], {3: tag})
        add([['sub', 0, 'iter', [1, 2, 3], None], ['adv', T + 1], ['fail'], ['sub', 1, 'iter', [4, 2, 5], None]], {2: tag})
        add([['sub', 0, 'plain', 1], ['sub', 1, 'plain', 2], ['sub', 2, 'plain', 3]], {2: tag})
        add([['sub', 0, 'plain', 2]], {2: tag})
        add([['sub', 0, 'async'], ['py', 0, 1], ['py', 0, 2], ['py', 0, 3], ['pe', 0]], {2: tag})
        add([['sub', 0, 'aw'], ['py', 0, 2], ['sub', 1, 'plain', 3]], {2: tag})
        add([['fputl', 0, 'iter', [1, 2, 3, 4], None]], {2: tag})
        add([['fclear'], ['fput', 0, 'iter', [1, 2, 3], None]], {2: tag})
    # several unusual values in one iterator (at most one of 0 / False / 0.0: equal as set elements)
    others = [t for t in VALUE_TAGS if t not in ZERO_FAMILY]
    for z in ZERO_FAMILY:
        tags = others + [z]
        add([['sub', 0, 'iter', list(range(1, len(tags) + 3)), None]], {i + 2: t for i, t in enumerate(tags)})
        add([['sub', 0, 'iter', list(range(1, len(tags) + 3)), None]], {i + 2: t for i, t in enumerate(reversed(tags))})
    return out


def burst_case(n, shape='A', T=8):
    """n plain submissions in ONE loop pass, then waits"""
    if shape == 'A':        # wait(cancel=True) flushes the burst; a second wait after the call
        evs = [['burst', 0, n, 1], ['wait', 0, True], ['ok'], ['wait', 1, False]]
    elif shape == 'B':      # the timer delivers the burst; wait afterwards, one more submission, wait again
        evs = [['burst', 0, n, 1], ['adv', T + 1], ['ok'], ['wait', 0, False], ['sub', n, 'plain', n + 1], ['wait', 1, True]]
    elif shape == 'D':      # the plain debounce: one call with the whole burst, timeout after it
        evs = [['burst', 0, n, 1], ['adv', T + 1], ['ok']]
    else:                   # the burst arrives while a call is running
        evs = [['sub', 0, 'plain', 1], ['adv', T + 1], ['burst', 1, n, 2], ['ok'], ['wait', 0, True], ['ok'], ['wait', 1, True]]
    return dict(T=T, evs=evs + settle_tail(T, evs))


def settle_tail(T, evs):
    """closers for every producer still open + [FnOk; Advance T+1; FnOk]"""
    open_ = {}
    for e in evs:
        if e[0] == 'subwait':
            e = ['sub', e[1]] + list(e[4:])
        if e[0] in ('sub', 'fput', 'fputl') and e[2] in ('aw', 'async') and e[1] not in open_:
            open_[e[1]] = e[2]
        elif e[0] == 'py' and open_.get(e[1]) == 'aw':
            open_[e[1]] = None
        elif e[0] == 'pf' and e[1] in open_:
            open_[e[1]] = None
        elif e[0] == 'pe' and open_.get(e[1]) == 'async':
            open_[e[1]] = None
    tail = []
    for p, k in open_.items():
        if k == 'aw':
            tail.append(['pf', p])
        elif k == 'async':
            tail.append(['pe', p])
    return tail + [['ok'], ['adv', T + 1], ['ok']]


class Prog:
    """Builds an event list from letters with automatic numbering."""

    def __init__(self, T):
        self.T = T
        self.evs = []
        self.pid = 0
        self.arg = 1
        self.wid = 0
        self.open = []     # [(pid, kind)]

    def fresh(self, n=1):
        r = list(range(self.arg, self.arg + n))
        self.arg += n
        return r

    def add(self, ch):
        """returns False when the letter is not applicable (prune)"""
        T, e = self.T, None
        if ch == 'S':
            e = ['sub', self.pid, 'plain', self.fresh()[0]]
        elif ch == 'D':                      # re-submit an argument value used before
            e = ['sub', self.pid, 'plain', max(1, self.arg - 1)]
        elif ch == 'L':
            e = ['sub', self.pid, 'list', self.fresh(2)]
        elif ch == 'E':
            e = ['sub', self.pid, 'list', []]
        elif ch == 'I':
            e = ['sub', self.pid, 'iter', self.fresh(2), None]
        elif ch == 'J':
            e = ['sub', self.pid, 'iter', self.fresh(3), 1]
        elif ch == 'Z':
            e = ['sub', self.pid, 'iter', self.fresh(1), 0]
        elif ch == 'a':
            e = ['sub', self.pid, 'aw']
            self.open.append((self.pid, 'aw'))
        elif ch == 'g':
            e = ['sub', self.pid, 'async']
            self.open.append((self.pid, 'async'))
        elif ch in 'yY':
            if not self.open:
                return False
            p, k = self.open[0 if ch == 'y' else -1]
            e = ['py', p, self.fresh()[0]]
            if k == 'aw':
                self.open.remove((p, k))
        elif ch in 'fx':
            if not self.open:
                return False
            p, k = self.open[0 if ch == 'f' else -1]
            e = ['pf', p]
            self.open.remove((p, k))
        elif ch == 'e':
            cand = [o for o in self.open if o[1] == 'async']
            if not cand:
                return False
            e = ['pe', cand[0][0]]
            self.open.remove(cand[0])
        elif ch == 'z':
            e = ['adv', 0]
        elif ch == 'h':
            e = ['adv', max(1, T // 2)]
        elif ch == 'm':
            e = ['adv', T - 1]
        elif ch == 't':
            e = ['adv', T]
        elif ch == 'p':
            e = ['adv', T + 1]
        elif ch == 'P':
            e = ['adv', 2 * T + 1]
        elif ch == 'K':
            e = ['ok']
        elif ch == 'F':
            e = ['fail']
        elif ch == 'W':
            e = ['wait', self.wid, True]
            self.wid += 1
        elif ch == 'w':
            e = ['wait', self.wid, False]
            self.wid += 1
        elif ch in 'Bb':                     # buffer(x); await wait(cancel=..) with no loop iteration in between
            e = ['subwait', self.pid, self.wid, ch == 'B', 'plain', self.fresh()[0]]
            self.wid += 1
        elif ch == 'n':                      # foreign submission from inside the foreign thread's own event loop
            e = ['fputl', self.pid, 'plain', self.fresh()[0]]
        elif ch in 'UV':                     # second half of a foreign _put, then wait_from_anywhere() in that thread
            e = ['fputwait', self.pid, self.wid, ch == 'U', 'plain', self.fresh()[0]]
            self.wid += 1
        elif ch == 'X':
            e = ['shutdown']
        elif ch == 'c':
            e = ['fclear']
        elif ch == 'u':
            e = ['fput', self.pid, 'plain', self.fresh()[0]]
        elif ch == 'k':
            e = ['okfclear']
        else:
            raise ValueError(ch)
        if e[0] in ('sub', 'fput', 'fputl', 'subwait', 'fputwait'):
            self.pid += 1
        self.evs.append(e)
        return True


def letters_case(T, word, tail=True):
    pr = Prog(T)
    for ch in word:
        if not pr.add(ch):
            return None
    evs = pr.evs
    if tail and not any(e[0] == 'shutdown' for e in evs):
        evs = evs + settle_tail(T, evs)
    return dict(T=T, evs=evs)


def words(alphabet, maxlen, prune=None):
    """all words over the alphabet up to maxlen (in length-lex order), skipping
    those with a prefix rejected by prune(word)"""
    level = ['']
    for _ in range(maxlen):
        nxt = []
        for w in level:
            for ch in alphabet:
                v = w + ch
                if prune is None or not prune(v):
                    nxt.append(v)
        yield from nxt
        level = nxt


def std_prune(w):
    """drop words that start with a no-op, or repeat FnOk/FnFail back to back
    (the second is a no-op), or advance twice by a non-firing amount"""
    if w[0] in 'KFkyYfxe' + 'zhmtpP':
        return True
    if len(w) >= 2 and w[-1] in 'KFk' and w[-2] in 'KFk':
        return True
    return False


def distribution(cases, obs):
    d = dict(events=0, submit_plain=0, submit_list=0, submit_iter=0, submit_aw=0, submit_async=0,
             pyield=0, pfail=0, pend=0, advance=0, wait_cancel=0, wait_nocancel=0, fnok=0, fnfail=0,
             shutdown=0, foreign=0, submit_then_wait=0, fn_starts=0, fn_ok=0, fn_failed=0, wait_returns=0,
             daemon_ended=0, hang=0, T8=0, T100=0, T1024=0, T_other=0, settled_tail=0, unusual_values=0, none_in_iterator=0,
             fn_method=0, fn_object=0, fn_partial=0, fnfail_exception=0, fnfail_cancellederror=0,
             async_generator_producers=0, class_based_async_iterators=0)
    keymap = {'py': 'pyield', 'pf': 'pfail', 'pe': 'pend', 'adv': 'advance', 'ok': 'fnok', 'fail': 'fnfail',
              'shutdown': 'shutdown', 'fclear': 'foreign', 'fput': 'foreign', 'okfclear': 'foreign',
              'fputwait': 'foreign', 'fputl': 'foreign'}
    for c, o in zip(cases, obs):
        d[{8: 'T8', 100: 'T100', 1024: 'T1024'}.get(c['T'], 'T_other')] += 1
        evs = c['evs']
        d['events'] += len(evs)
        d['fn_' + fn_kind(c)] += 1
        na = sum(1 for e in evs if 'async' in e[2:6] and e[0] in ('sub', 'fput', 'fputl', 'subwait', 'fputwait'))
        d['class_based_async_iterators' if aiter_kind(c) == 'class' else 'async_generator_producers'] += na
        fk = fail_kind(c)
        if isinstance(o, dict) and 'obs' in o:
            for st in o['obs']:
                for x in st:
                    if x[0] == 'end' and not x[2]:
                        canc = {'exc': False, 'cancel': True, 'alt': x[1] % 2 == 1, 'alt2': x[1] % 2 == 0}[fk]
                        d['fnfail_cancellederror' if canc else 'fnfail_exception'] += 1
        if c.get('vals'):
            d['unusual_values'] += 1
            nones = {int(k) for k, t in c['vals'].items() if t == 'none'}
            if any(e[0] in ('sub', 'fput', 'fputl') and e[2] == 'iter' and nones & set(e[3][:-1]) for e in evs):
                d['none_in_iterator'] += 1
        if len(evs) >= 3 and evs[-1] == ['ok'] and evs[-3] == ['ok'] and evs[-2][0] == 'adv':
            d['settled_tail'] += 1
        for e in evs:
            if e[0] == 'sub':
                d['submit_' + e[2]] += 1
            elif e[0] == 'subwait':
                d['submit_then_wait'] += 1
            elif e[0] == 'burst':
                d['submit_plain'] += e[2]
                d['bursts'] = d.get('bursts', 0) + 1
                d['largest_burst'] = max(d.get('largest_burst', 0), e[2])
            elif e[0] == 'wait':
                d['wait_cancel' if e[2] else 'wait_nocancel'] += 1
            else:
                d[keymap[e[0]]] += 1
        if isinstance(o, dict) and 'obs' in o:
            for st in o['obs']:
                for x in st:
                    if x[0] == 'start':
                        d['fn_starts'] += 1
                    elif x[0] == 'end':
                        d['fn_ok' if x[2] else 'fn_failed'] += 1
                    elif x[0] == 'wret':
                        d['wait_returns'] += 1
                    elif x[0] == 'dead':
                        d['daemon_ended'] += 1
                    else:
                        d['hang'] += 1
    return d


# ---------------------------------------------------------------------------
# generators (building blocks; each property module has its own mix)
# ---------------------------------------------------------------------------
TIMEOUTS = [8, 100, 1024]


def word_cases(alphabet, maxlen, T=8, tail=True, suffixes=('',)):
    out = []
    for w in words(alphabet, maxlen, std_prune):
        for sfx in suffixes:
            c = letters_case(T, w + sfx, tail=tail)
            if c:
                out.append(c)
    return out


def grid_cases(max_subs=4, timeouts=TIMEOUTS, kinds='S', modes=None):
    """C08 grid: k submissions separated by gaps from {0, T-1, T+1, 2T+1}; whenever a
    gap lets the timer fire, the running call is answered by one of the response
    modes (duration 0 / <T / >T, ok or fail-then-ok)."""
    import itertools
    modes = modes or ['', 'K', 'hK', 'pK', 'F', 'FpK', 'hFmK']
    out = []
    for T in timeouts:
        for k in range(1, max_subs + 1):
            for gaps in itertools.product('zmpP', repeat=k - 1):
                for mi, mode in enumerate(modes):
                    w = ''
                    for i in range(k):
                        w += kinds[(i + mi) % len(kinds)]
                        if i < k - 1:
                            g = gaps[i]
                            if g != 'z':
                                w += g
                            if g in 'pP':
                                w += mode
                    c = letters_case(T, w + 'p' + mode)
                    if c:
                        out.append(c)
    return out


def foreign_cases(base_alpha='SgyempKFWw', maxlen=3, T=8, puts='u'):
    """one foreign submission split in its two halves (FClear ... FPut) at every
    pair of quiescent points of every short own-thread program, and
    FnOkThenFClear in place of any FnOk with the FPut at any later point"""
    out = []
    for w in [''] + list(words(base_alpha, maxlen, None)):
        if w and w[0] in 'KFyYfxe':
            continue
        n = len(w)
        for i in range(n + 1):
            for j in range(i, n + 1):
                for u in puts:
                    v = w[:i] + 'c' + w[i:j] + u + w[j:]
                    c = letters_case(T, v)
                    if c:
                        out.append(c)
        for i, ch in enumerate(w):
            if ch == 'K':
                for j in range(i + 1, n + 1):
                    for u in puts:
                        v = w[:i] + 'k' + w[i + 1:j] + u + w[j:]
                        c = letters_case(T, v)
                        if c:
                            out.append(c)
    return out


def rand_case(rnd, profile):
    """One seeded-random timed program.  profile: dict of weights / switches."""
    T = rnd.choice(profile.get('timeouts', TIMEOUTS))
    n = rnd.randint(profile.get('min', 6), profile.get('max', 22))
    subs = profile.get('subs', 'SSSSLIJEZDaagg')
    waits = profile.get('waits', 'Ww')
    p_wait = profile.get('p_wait', 0.12)
    p_foreign = profile.get('p_foreign', 0.0)
    fail_mask = [rnd.random() < profile.get('p_fail', 0.3) for _ in range(6)]
    advs = profile.get('advs', 'zhmmppPt')
    pr = Prog(T)
    nsub = 0
    answered = 0
    pending_fput = 0
    while len(pr.evs) < n:
        r = rnd.random()
        if pending_fput and rnd.random() < 0.5:
            pr.add('u')
            pending_fput -= 1
            continue
        if r < 0.30 and nsub < profile.get('max_subs', 8):
            pr.add(rnd.choice(subs))
            nsub += 1
        elif r < 0.30 + p_wait:
            pr.add(rnd.choice(waits))
        elif r < 0.62:
            a = rnd.choice(advs)
            pr.add(a)
            if a in 'tpP' and rnd.random() < 0.7:
                # a call has probably started: answer it after a duration from {0, <T, >T}
                d = rnd.choice(['', '', 'h', 'm', 'p'])
                if d:
                    pr.add(d)
                fail = answered < 6 and fail_mask[answered]
                pr.add('F' if fail else 'K')
                answered += 1
        elif r < 0.72:
            fail = answered < 6 and fail_mask[answered]
            pr.add('F' if fail else 'K')
            answered += 1
        elif r < 0.90:
            if pr.open:
                pr.add(rnd.choice('yyYfxe'))
        elif r < 0.90 + p_foreign:
            x = rnd.random()
            if x < 0.6:
                pr.add('c')
                pending_fput += 1
            else:
                pr.add('k')
                pending_fput += 1
        else:
            pr.add(rnd.choice('SK' + advs))
    while pending_fput:
        pr.add('u')
        pending_fput -= 1
    evs = pr.evs
    x = rnd.random()
    if x < profile.get('p_shutdown', 0.0):
        cut = rnd.randint(1, len(evs))
        evs = evs[:cut] + [['shutdown']]
    elif x < profile.get('p_shutdown', 0.0) + profile.get('p_settle', 0.75):
        evs = evs + settle_tail(T, evs)
    case = dict(T=T, evs=evs)
    if profile.get('p_vals', 0.0) and rnd.random() < profile['p_vals']:
        case = with_vals(case, rnd)
    return case
