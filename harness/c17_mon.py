"""C17 helpers: canonical thread names, Gallina literals for the observed log, the
Python mirror of the Coq monitor (Case_C17.mon_tags) used only to name the canonical
signature of a rejected case (Coq recomputes the tags and `agree` fails when the two
differ), and the stateless DFS over the controller's enabled sets."""
from __future__ import annotations

import re

from . import common as C
from . import c17_drive as D

MODE_COQ = {'idle': 'MIdle', 'forever': 'MForever', 'race': 'MRace', 'own': 'MOwn', 'closed': 'MClosed'}
FORM_COQ = {'coro': 'FCoro', 'task': 'FTask', 'future': 'FFuture', 'donefut': 'FFuture', 'donetask': 'FTask'}
RES_NUM = {'ok': 0, 'deadlock': 1, 'steps': 2}

TAGS = {1: 'wrong-outcome', 2: 'awaitable-step-off-target-loop', 3: 'two-runners', 4: 'two-locks',
        5: 'loop_in_thread-returned-before-running', 6: 'stop-returned-while-running', 7: 'lock-discipline',
        8: 'blocked-on-concurrent-future', 10: 'xsubmit-on-borrowed-loop', 11: 'stuck-other', 12: 'step-bound',
        13: 'thread-exception'}
ALL_TAGS = [1, 2, 3, 4, 5, 6, 7, 8, 10, 11, 12, 13]
K1_SIGNATURE = 'deadlock:xsubmit-on-borrowed-loop'


def tid(name):
    """canonical thread id: 'm' | 'jm' | ('c', i) | ('j', i) | 'clk' | '?'"""
    if name in ('m', 'jm', 'clk'):
        return name
    m = re.fullmatch(r'jc(\d+)', name)
    if m and int(m.group(1)) < 50:
        return ('j', int(m.group(1)))
    m = re.fullmatch(r'c(\d+)', name)
    if m and int(m.group(1)) < 50:
        return ('c', int(m.group(1)))
    return '?'


def tid_coq(t):
    if t == 'm':
        return 'TM'
    if t == 'jm':
        return 'TJM'
    if t == 'clk':
        return 'TClk'
    if t == '?':
        return 'TOther'
    return f"({'TC' if t[0] == 'c' else 'TJ'} {t[1]})"


def _nat(x):
    return isinstance(x, int) and not isinstance(x, bool) and 0 <= x < 4000


def canon_event(e):
    """(tid, op tuple) with op in the vocabulary of XLoop.op; anything else -> ('other',)"""
    t = tid(e[0])
    op, a = e[1], list(e[2:])
    if op in ('begin', 'cst', 'exit', 'jobend', 'sleep', 'wait', 'join') and not a:
        return t, (op,)
    if op == 'chk' and len(a) == 1 and isinstance(a[0], bool):
        return t, ('chk', a[0])
    if op == 'submit' and len(a) == 1 and isinstance(a[0], str):
        return t, ('submit', tid(a[0]))
    if op == 'tbl' and len(a) == 1 and (a[0] is None or _nat(a[0])):
        return t, ('tbl', a[0])
    if op in ('acq', 'rel', 'mklock', 'enter', 'dlv') and len(a) == 1 and _nat(a[0]):
        return t, (op, a[0])
    if op in ('start', 'fin') and len(a) == 2 and _nat(a[0]) and isinstance(a[1], bool):
        return t, (op, a[0], a[1])
    if op == 'done' and len(a) == 3 and _nat(a[0]):
        if a[1] == 'ret' and _nat(a[2]):
            return t, ('done', a[0], ('KRet', a[2]))
        if a[1] == 'exc' and _nat(a[2]):
            return t, ('done', a[0], ('KExc', a[2]))
        if a[1] == 'lib':
            return t, ('done', a[0], ({'RuntimeError': 'KLibRT', 'Cancelled': 'KLibCancel'}.get(a[2], 'KLibOther'), 0))
    if op == 'litret' and len(a) == 1 and isinstance(a[0], bool):
        return t, ('litret', a[0])
    if op == 'stopret' and len(a) == 2 and all(isinstance(x, bool) for x in a):
        return t, ('stopret', a[0], a[1])
    if op == 'adv' and len(a) == 1 and isinstance(a[0], int) and a[0] >= 0:
        return t, ('adv', a[0])
    if op == 'block':
        return t, ('block',)
    return t, ('other',)


def op_coq(o):
    k = o[0]
    b = C.coq_bool
    if k == 'begin':
        return 'OBegin'
    if k == 'chk':
        return f'OChk {b(o[1])}'
    if k == 'submit':
        return f'OSubmit {tid_coq(o[1])}'
    if k == 'cst':
        return 'OCst'
    if k == 'tbl':
        return f'OTbl {C.coq_opt(o[1])}'
    if k in ('acq', 'rel', 'mklock', 'enter', 'dlv'):
        return {'acq': 'OAcq', 'rel': 'ORel', 'mklock': 'OMklock', 'enter': 'OEnter', 'dlv': 'ODlv'}[k] + f' {o[1]}'
    if k == 'exit':
        return 'OExit'
    if k in ('start', 'fin'):
        return f"{'OStart' if k == 'start' else 'OFin'} {o[1]} {b(o[2])}"
    if k == 'jobend':
        return 'OJobend'
    if k == 'done':
        return f'ODone {o[1]} ({o[2][0]}, {o[2][1]})'
    if k == 'sleep':
        return 'OSleep'
    if k == 'litret':
        return f'OLitret {b(o[1])}'
    if k == 'wait':
        return 'OWait'
    if k == 'join':
        return 'OJoin'
    if k == 'stopret':
        return f'OStopret {b(o[1])} {b(o[2])}'
    if k == 'adv':
        return f'OAdv {C.coq_N(o[1])}'
    if k == 'block':
        return 'OBlock'
    return 'OOther'


def log_coq(log):
    return C.coq_list([f'({tid_coq(t)}, {op_coq(o)})' for t, o in map(canon_event, log)])


def aws_coq(case):
    return C.coq_list([f"({C.coq_bool(k.startswith('raise'))}, {C.coq_opt(d, C.coq_N)}, {FORM_COQ[f]})"
                       for (k, d), f in zip(case['scripts'], case['forms'])])


# --------------------------------------------------------------------------------
# Python mirror of Case_C17.mon_tags
# --------------------------------------------------------------------------------

def mon_tags(case, obs):
    mode = case['mode']
    n = len(case['scripts'])
    ins, own, lock, xb, done, tags = [], [], None, [], [], []

    def expected(i):
        return ('KExc', i) if (i < n and case['scripts'][i][0].startswith('raise')) else ('KRet', i)

    for e in obs['log']:
        t, o = canon_event(e)
        k = o[0]
        if k == 'enter':
            if o[1] != 0 or ins:
                tags.append(3)
            if t in ('jm',) or (isinstance(t, tuple) and t[0] == 'j'):
                if not any(l != 0 and h == t for l, h in own):
                    tags.append(7)
            ins.append(t)
        elif k == 'exit':
            if t in ins:
                ins.remove(t)
        elif k == 'acq':
            if any(l == o[1] for l, _ in own):
                tags.append(7)
            own.insert(0, (o[1], t))
        elif k == 'rel':
            if t in ins and o[1] != 0:
                tags.append(7)
            for j, (l, _) in enumerate(own):
                if l == o[1]:
                    del own[j]
                    break
        elif k == 'mklock':
            if lock is None:
                lock = o[1]
            else:
                tags.append(4)
        elif k == 'tbl':
            if o[1] is not None and lock != o[1]:
                tags.append(4)
        elif k in ('start', 'fin'):
            if not o[2] or t not in ins:
                tags.append(2)
        elif k == 'done':
            i, oc = o[1], o[2]
            good = (oc[0] == 'KLibRT') if mode == 'closed' else (oc == expected(i))
            if i in done or not good:
                tags.append(1)
            done.append(i)
        elif k == 'chk':
            if o[1] and isinstance(t, tuple) and t[0] == 'c' and ins and isinstance(ins[0], tuple) and ins[0][0] == 'j':
                xb.append(t[1])
        elif k == 'litret':
            if not o[1] or not ins:
                tags.append(5)
        elif k == 'stopret':
            if not o[2] or 'jm' in ins or (o[1] and mode != 'race'):
                tags.append(6)
        elif k == 'block':
            tags.append(8)
    res = RES_NUM.get(obs['res'], 2)
    stuck = [i for i in range(n) if i not in done]
    if res == 0:
        fin = [11] if stuck else []
    elif res == 1:
        fin = [10 if i in xb else 11 for i in stuck] or [11]
    else:
        fin = [12]
    raw = ([13] if obs.get('texc') else []) + fin + tags
    return [t for t in ALL_TAGS if t in raw]


def signature_of(tags):
    if tags == [10]:
        return K1_SIGNATURE
    if not tags:
        return 'none'
    return 'tags:' + '+'.join(TAGS[t] for t in tags)


# --------------------------------------------------------------------------------
# running and exploring
# --------------------------------------------------------------------------------

def run(case):
    import random
    from . import gate
    if case.get('rseed') is not None and not case.get('sched'):
        ch = gate.random_chooser(random.Random(case['rseed']), stay=case.get('stay', 0.0))
        o = D.run_case(case, chooser=ch)
    else:
        o = D.run_case(case)
    o.pop('choices', None)
    return o


def explore(case, pbound=2, max_runs=4000):
    """All schedules of the implementation's decision tree with at most `pbound` preemptions
    (pbound=None: all schedules), by stateless DFS over the controller's enabled sets: each run
    follows a prefix, then the non-preemptive default; every alternative at every later decision
    becomes a new prefix.  Returns the list of realised schedules (thread names)."""
    out, stack, seen = [], [[]], set()
    while stack and len(out) < max_runs:
        prefix = stack.pop()
        o = D.run_case(dict(case, sched=prefix, rseed=None))
        dec = o['choices']
        sched = [ch for _, ch in dec]
        key = tuple(sched)
        if key in seen:
            continue
        seen.add(key)
        out.append(sched)
        pre = [0] * (len(dec) + 1)
        for i, (en, ch) in enumerate(dec):
            last = dec[i - 1][1] if i else None
            pre[i + 1] = pre[i] + (1 if (last is not None and ch != last and last in en) else 0)
        for i in range(len(prefix), len(dec)):
            en, ch = dec[i]
            last = dec[i - 1][1] if i else None
            for alt in en:
                if alt == ch:
                    continue
                cost = pre[i] + (1 if (last is not None and alt != last and last in en) else 0)
                if pbound is None or cost <= pbound:
                    stack.append(sched[:i] + [alt])
    return out
