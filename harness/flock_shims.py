"""Substitutes for the primitives used by aiuti/filelock.py (DESIGN §3.1, §5.0b).

    aiuti.filelock.threading  -> Lock/RLock = gate.GLock/GRLock  (ops '<tl>.try/.acq/.reacq/.rel')
    aiuti.filelock.time       -> time() = controller's virtual clock, sleep = gate in virtual time
    aiuti.filelock.os         -> open/close are gates and are REALLY executed on a real file
    aiuti.filelock.fcntl      -> flock is a gate and is REALLY executed, except that
        (a) a blocking flock is executed as LOCK_NB and is *enabled* only when the shim's holder
            table says the lock is free (so no managed thread ever blocks in the kernel);
        (b) the n-th call of a kind (open / lock / unlock / close) raises OSError when the case's
            fault script contains (kind, n).  A faulting close still closes the descriptor.
            An entry (kind, n, 'ki') raises a KeyboardInterrupt subclass instead (a BaseException
            that is not an Exception; the model's interrupt flavour): the library swallows an OSError
            of os.open but not this one, closes the descriptor and goes on polling after an OSError of
            flock but closes and re-raises after this one, and treats both alike at unlock / close.
    The shim keeps its own table (open descriptions, who holds EX/SH) and compares it with every
    answer of the kernel: a difference is recorded in ``env.kernel_mismatch`` (this is the
    validation of the model's flock assumption).

One model step (coq/theories/FLock.v) per gate; canonical op codes see OPCODES.
Line-level runs (flock_drv.run_line) add, from outside, a gate at every source line of aiuti/filelock.py
(sys.settrace in the managed threads) and, with ``env.gate_mklock``, at threading.Lock()/RLock() construction.
Patch with ``env.install()`` / ``env.restore()`` (module attributes of aiuti.filelock only).
"""
from __future__ import annotations

import errno
import fcntl as real_fcntl
import logging
import os as real_os
import shutil
import tempfile
import threading as real_threading
import time as real_time

from . import gate

TICK = gate.TICK
DEFAULT_POLL_TICKS = 51          # round(0.05 / TICK): the library's default poll_interval

# canonical op codes = FLock.opcode
OPCODES = {'start': 0, 'call': 1, 'try': 2, 'acq': 2, 'reacq': 2, 'open': 3, 'lock': 4,
           'close': 5, 'sleep': 6, 'rel': 7, 'unlock': 8}


def opcode(op: str) -> int:
    return OPCODES.get(op.rsplit('.', 1)[-1], 99)


class Interrupt(KeyboardInterrupt):
    """Injected non-Exception BaseException (what a signal handler raises inside a system call)."""


class Env:
    """Everything one case needs: controller, real lock file, fault script, tables."""

    def __init__(self, ctl=None, faults=(), tmpdir=None):
        self.ctl = ctl
        self.own_dir = tmpdir is None
        self.dir = tmpdir or tempfile.mkdtemp(prefix='flock-')
        self.path = real_os.path.join(self.dir, 'x.lock')
        self.faults = {(f[0], int(f[1])) for f in faults}
        self.ki = {(f[0], int(f[1])) for f in faults if len(f) > 2 and f[2] == 'ki'}
        self.nsys = dict(open=0, lock=0, unlock=0, close=0)
        self.fired = 0
        self.open_fds = {}            # real fd -> ofd serial
        self.nopened = 0
        self.holders = {}             # real fd -> 'EX' | 'SH'
        self.kernel_mismatch = []
        self.ntl = 0
        self.gate_mklock = False      # line-level runs: constructing a thread lock is a gate of its own
        self.saved = None
        self.threading = _Threading(self)
        self.time = _Time(self)
        self.os = _Os(self)
        self.fcntl = _Fcntl(self)

    # ---- patching --------------------------------------------------------------
    def install(self):
        import aiuti.filelock as F
        self.saved = (F.threading, F.time, F.os, F.fcntl)
        F.threading, F.time, F.os, F.fcntl = self.threading, self.time, self.os, self.fcntl
        logging.disable(logging.CRITICAL)
        return F

    def restore(self):
        import aiuti.filelock as F
        if self.saved is not None:
            F.threading, F.time, F.os, F.fcntl = self.saved
            self.saved = None
        logging.disable(logging.NOTSET)

    def close(self, locks=()):
        """Tear down: forget every descriptor (really closing it) so __del__ is a no-op."""
        for lk in locks:
            try:
                lk._lock_file_fd = None
            except Exception:
                pass
        for fd in list(self.open_fds):
            try:
                real_os.close(fd)
            except OSError:
                pass
        self.open_fds.clear()
        self.holders.clear()
        self.restore()
        if self.own_dir:
            shutil.rmtree(self.dir, ignore_errors=True)

    # ---- helpers ---------------------------------------------------------------
    def gate(self, op, enabled=None, when=None):
        if self.ctl is not None:
            self.ctl.gate(op, enabled=enabled, when=when)

    def fault(self, kind):
        """Count one syscall of this kind; True if the script says it raises."""
        n = self.nsys[kind]
        self.nsys[kind] = n + 1
        if (kind, n) in self.faults:
            self.fired += 1
            return Interrupt if (kind, n) in self.ki else OSError
        return None

    def fault_pending(self, kind):
        return (kind, self.nsys[kind]) in self.faults

    def table_allows(self, fd, want):
        others = {f: m for f, m in self.holders.items() if f != fd}
        if want == 'EX':
            return not others
        return all(m == 'SH' for m in others.values())

    def proc_fd_count(self):
        """Descriptors of this process that point at the lock file (kernel's view)."""
        n = 0
        for e in real_os.listdir('/proc/self/fd'):
            try:
                if real_os.readlink(f'/proc/self/fd/{e}') == self.path:
                    n += 1
            except OSError:
                pass
        return n

    def fd_count(self):
        """Table count, or 999 when the kernel's view differs."""
        a, b = len(self.open_fds), self.proc_fd_count()
        return a if a == b else 999

    def ticks(self):
        return self.ctl.ticks() if self.ctl is not None else 0


class _Threading:
    def __init__(self, env):
        self.env = env

    def __getattr__(self, name):
        return getattr(real_threading, name)

    def Lock(self):
        if self.env.gate_mklock:
            self.env.gate('mklock')
        self.env.ntl += 1
        return gate.GLock(self.env.ctl, name=f'tl{self.env.ntl - 1}')

    def RLock(self):
        if self.env.gate_mklock:
            self.env.gate('mklock')
        self.env.ntl += 1
        return gate.GRLock(self.env.ctl, name=f'tl{self.env.ntl - 1}')


class _Time:
    def __init__(self, env):
        self.env = env

    def __getattr__(self, name):
        return getattr(real_time, name)

    def time(self):
        ctl = self.env.ctl
        return ctl.vt if ctl is not None else 0.0

    def sleep(self, dt):
        ctl = self.env.ctl
        if ctl is None or ctl.me() is None:
            return
        ticks = max(0, round(dt / TICK))               # whole ticks: the clock stays exact
        deadline = (ctl.ticks() + ticks) * TICK
        ctl.gate('sleep', enabled=lambda: ctl.vt >= deadline - gate.EPS, when=lambda: deadline)


class _Os:
    def __init__(self, env):
        self.env = env

    def __getattr__(self, name):
        return getattr(real_os, name)

    def open(self, path, flags, *a, **kw):
        env = self.env
        env.gate('open')
        bad = env.fault('open')
        if bad:
            raise bad(errno.EIO, 'injected fault: open')
        fd = real_os.open(path, flags, *a, **kw)
        env.open_fds[fd] = env.nopened
        env.nopened += 1
        return fd

    def close(self, fd):
        env = self.env
        env.gate('close')
        bad = env.fault('close')
        real_os.close(fd)
        if fd not in env.open_fds:
            env.kernel_mismatch.append(('close-unknown-fd', fd))
        env.open_fds.pop(fd, None)
        env.holders.pop(fd, None)
        if bad:
            raise bad(errno.EIO, 'injected fault: close')


class _Fcntl:
    LOCK_EX = real_fcntl.LOCK_EX
    LOCK_SH = real_fcntl.LOCK_SH
    LOCK_NB = real_fcntl.LOCK_NB
    LOCK_UN = real_fcntl.LOCK_UN

    def __init__(self, env):
        self.env = env

    def __getattr__(self, name):
        return getattr(real_fcntl, name)

    def flock(self, fd, op):
        env = self.env
        if op & real_fcntl.LOCK_UN:
            env.gate('unlock')
            bad = env.fault('unlock')
            if bad:
                raise bad(errno.EIO, 'injected fault: unlock')
            real_fcntl.flock(fd, real_fcntl.LOCK_UN)
            env.holders.pop(fd, None)
            return
        want = 'SH' if op & real_fcntl.LOCK_SH else 'EX'
        blocking = not (op & real_fcntl.LOCK_NB)
        if blocking:
            env.gate('lock', enabled=lambda: env.table_allows(fd, want) or env.fault_pending('lock'))
        else:
            env.gate('lock')
        bad = env.fault('lock')
        if bad:
            raise bad(errno.EIO, 'injected fault: lock')
        predicted = env.table_allows(fd, want)
        try:
            real_fcntl.flock(fd, (op | real_fcntl.LOCK_NB))
        except BlockingIOError:
            if predicted:
                env.kernel_mismatch.append(('kernel-refused', fd, want))
            if blocking:
                # cannot happen when table and kernel agree (the gate was enabled only when free)
                env.kernel_mismatch.append(('blocking-call-would-block', fd, want))
            raise
        if not predicted:
            env.kernel_mismatch.append(('kernel-granted', fd, want))
        env.holders[fd] = want
