"""Virtual-time asyncio loop for the single-loop (macro-step) components.

An *input* is a list of external events separated by run-to-quiescence; time
moves only by explicit ``('adv', dt)`` events (dt in integer ticks of 2**-10 s,
exact in binary floating point).  The implementation's run is then a pure
function of the list (DESIGN.md §3.1).

    sim = Sim()
    sim.run(events, handler)      # handler(ev) applies one non-'adv' event
    sim.log                       # observations appended by the driver via sim.obs(...)

Quiescence = the loop has no ready callback and no I/O event.  At quiescence the
next scripted event is applied; during an ``adv`` the clock jumps from timer to
timer (each timer batch runs to quiescence before time moves again) and finally
to the target instant.  When the script is exhausted the loop stops; what is
still pending then is an observation of the driver (``Hang``), not a timeout.
"""
from __future__ import annotations

import asyncio
import selectors
from collections import deque

TICK = 1.0 / 1024


class _VSel(selectors.DefaultSelector):
    sim = None

    def select(self, timeout=None):
        ev = super().select(0)
        if ev or timeout == 0:
            return ev
        sim = self.sim
        if sim is None or not sim.active:
            # outside a scripted run (e.g. shutdown epilogue): jump to next timer
            if timeout is not None and timeout > 0:
                sim.loop._vt += timeout
            elif timeout is None:
                raise RuntimeError('virtual loop idle forever outside a script')
            return []
        return sim._quiescent(timeout)


class VLoop(asyncio.SelectorEventLoop):
    def __init__(self, sim):
        sel = _VSel()
        super().__init__(sel)
        sel.sim = sim
        self._vt = 0.0
        self._clock_resolution = TICK / 4

    def time(self):
        return self._vt

    def ticks(self) -> int:
        return round(self._vt / TICK)


class SpinError(RuntimeError):
    pass


class Sim:
    MAX_ITER_PER_STEP = 20000

    def __init__(self):
        self.loop = VLoop(self)
        self.active = False
        self.events = deque()
        self.handler = None
        self.log = []          # observations, grouped per macro step by ('step', i) markers
        self.step = -1
        self._adv_target = None
        self._iters = 0
        self.external_pending = lambda: False   # drivers with helper threads override
        self.spun = False

    # -- observations ------------------------------------------------------
    def ticks(self) -> int:
        return self.loop.ticks()

    def obs(self, *rec):
        self.log.append((self.step,) + tuple(rec))

    # -- scripted run ------------------------------------------------------
    def run(self, events, handler, before=None):
        """Apply ``events`` one macro step at a time; returns when exhausted."""
        self.events = deque(events)
        self.handler = handler
        asyncio.set_event_loop(self.loop)
        self.active = True
        if before is not None:
            before()
        # count loop iterations per macro step to detect spinning
        orig_run_once = self.loop._run_once

        def counted():
            self._iters += 1
            if self._iters > self.MAX_ITER_PER_STEP:
                self.spun = True
                self.loop.stop()
                self.events.clear()
            orig_run_once()
        self.loop._run_once = counted
        try:
            self.loop.run_forever()
        finally:
            self.active = False
            self.loop._run_once = orig_run_once

    def _next_timer(self):
        sched = self.loop._scheduled
        # skip cancelled handles at the top (asyncio does it lazily)
        while sched and sched[0]._cancelled:
            import heapq
            h = heapq.heappop(sched)
            h._scheduled = False
            self.loop._timer_cancelled_count = max(0, self.loop._timer_cancelled_count - 1)
        return sched[0]._when if sched else None

    def _quiescent(self, timeout):
        """Called by the selector when nothing is ready."""
        if self.external_pending():
            # a helper thread of the implementation is still working: really wait
            return selectors.DefaultSelector.select(self.loop._selector, 0.005)
        loop = self.loop
        while True:
            if self._adv_target is not None:
                nt = self._next_timer()
                if nt is not None and nt <= self._adv_target + 1e-12:
                    if nt > loop._vt:
                        loop._vt = nt
                    return []                       # let the due timers run
                loop._vt = max(loop._vt, self._adv_target)
                self._adv_target = None
                # the advance is complete: fall through to the next event
            if not self.events:
                loop.stop()
                return []
            ev = self.events.popleft()
            self.step += 1
            self._iters = 0
            if ev[0] == 'adv':
                self._adv_target = loop._vt + ev[1] * TICK
                # round to the tick grid to stay exact
                self._adv_target = round(self._adv_target / TICK) * TICK
                continue
            self.handler(ev)
            return []

    def close(self):
        """Cancel what is left (as asyncio.run's epilogue would) and close."""
        loop = self.loop
        try:
            tasks = [t for t in asyncio.all_tasks(loop) if not t.done()]
            for t in tasks:
                t.cancel()
            if tasks:
                self.active = False
                loop.run_until_complete(asyncio.gather(*tasks, return_exceptions=True))
        except BaseException:
            pass
        finally:
            try:
                loop.close()
            except BaseException:
                pass
            asyncio.set_event_loop(None)
