"""MANIFEST.setup_cmd: regenerate translator output, full .vo build, hygiene grep."""
import glob
import importlib
import os
import sys

from . import common as C


def main():
    # translator-generated files must exist before coq_makefile lists them
    for f in sorted(glob.glob(os.path.join(C.VERIF, 'harness', 'props', 'C*.py'))):
        mod = importlib.import_module('harness.props.' + os.path.basename(f)[:-3])
        if hasattr(mod, 'translate'):
            mod.translate()
    bad = C.hygiene()
    if bad:
        print('forbidden constructs in the Coq development:', bad)
        return 1
    targets = []
    for f in sorted(glob.glob(os.path.join(C.VERIF, 'harness', 'props', 'C*.py'))):
        mod = importlib.import_module('harness.props.' + os.path.basename(f)[:-3])
        if getattr(mod, 'READY', False):
            targets += list(mod.MODEL_TARGETS) + [f'props/{mod.PROPS_MODULE}.vo']
    ok, out = C.coq_make(sorted(set(targets)), timeout=3000, keep_going=True)
    print(out[-3000:])
    if not ok:
        print('SETUP: coq build failed')
        return 1
    print('SETUP OK')
    return 0
