"""C16 — case generators: exhaustive schedule exploration (stateless DFS over the
implementation's own enabled sets) and seeded random cases."""
from __future__ import annotations

import itertools
import random

from . import c16_drv as D


def explore(base, limit=200000):
    """All complete schedules of `base` (a case without 'sched'): depth-first over the
    enabled sets the controller reports.  Returns the list of schedules (lists of names)."""
    out = []
    stack = [[]]
    while stack and len(out) < limit:
        prefix = stack.pop()
        o = D.run_gated(dict(base, sched=prefix))
        names = [t[0] for t in o['trace']]
        out.append(names)
        for i in range(len(prefix), len(o['trace'])):
            for alt in o['trace'][i][3]:
                if alt != names[i]:
                    stack.append(names[:i] + [alt])
    return out
