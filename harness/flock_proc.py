"""Stand-alone worker processes for the FileLock checks (run with /venv/bin/python and
PYTHONPATH=$AIUTI_REPO; imports nothing from the harness).

  contend LOCK MARKER ROUNDS FLAVOUR
      free-running contender (C02 F-runs): ROUNDS times acquire the lock, create MARKER with
      O_EXCL inside the critical section (FileExistsError = two holders), remove it, release.
      Prints a JSON object {completed, collisions, errors}.

  crash LOCK PROGRAM N LOGFILE
      C13: run a short FileLock PROGRAM under sys.settrace and SIGKILL this process at its N-th
      line event inside aiuti/filelock.py.  Every primitive that completes (thread-lock
      acquire/release, open, flock, close, sleep) and every API call boundary is appended to
      LOGFILE (O_APPEND, unbuffered) before the next line runs, so the parent knows how far the
      victim got.  If the program ends before N line events: logs 'END <events>' and exits 0.
      Programs *_helper start a long-lived helper program while inside the critical section; programs
      refork* os.fork() a long-lived bystander between two uses of the lock, while it is free.

  forkhold LOCK ROUNDS
      C02 F-run: ROUNDS times acquire LOCK, os.fork() a child that exits at once (it only inherits
      the descriptor), wait for it, check that a second FileLock object of this process is still
      refused (collision otherwise), release, check that the lock is obtainable again.

  hold LOCK READY GO [blocking]
      C13 contender: acquire LOCK (blocking), create the file READY, wait until the file GO
      exists, release, exit 0.  With a 4th argument 'nb': try non-blocking once, report
      'HELD'/'BUSY' in READY, then proceed the same way if held.
"""
import json
import logging
import os
import signal
import sys
import time

logging.disable(logging.CRITICAL)


def contend(lock, marker, rounds, flavour):
    from aiuti.filelock import FileLock
    done = coll = err = 0
    lk = FileLock(lock, timeout=(60 if flavour == 3 else -1), reentrant=(flavour == 4))

    def section():
        nonlocal coll
        try:
            fd = os.open(marker, os.O_CREAT | os.O_EXCL | os.O_WRONLY)
        except FileExistsError:
            coll += 1
            return
        for _ in range(50):
            pass
        os.close(fd)
        os.unlink(marker)

    for _ in range(rounds):
        try:
            if flavour == 0 or flavour == 3:
                with lk:
                    section()
            elif flavour == 1:
                if lk.acquire():
                    try:
                        section()
                    finally:
                        lk.release()
                else:
                    err += 1
                    continue
            elif flavour == 2:
                with lk.acquire_ctx(True, 60, 0.002):
                    section()
            elif flavour == 4:
                with lk:
                    with lk:
                        section()
            else:
                while not lk.acquire(False):
                    time.sleep(0.0005)
                try:
                    section()
                finally:
                    lk.release()
            done += 1
        except Exception:
            err += 1
    print(json.dumps(dict(completed=done, collisions=coll, errors=err)))


def forkhold(lock, rounds):
    from aiuti.filelock import FileLock
    done = coll = err = 0
    lk, other = FileLock(lock), FileLock(lock)
    for _ in range(rounds):
        try:
            if not lk.acquire():
                err += 1
                continue
            pid = os.fork()
            if pid == 0:
                os._exit(0)
            os.waitpid(pid, 0)
            if other.acquire(False):            # the holder forked: it must still be the holder
                coll += 1
                other.release()
            lk.release()
            if other.acquire(False):
                other.release()
            else:
                err += 1
            done += 1
        except Exception:
            err += 1
    print(json.dumps(dict(completed=done, collisions=coll, errors=err)))


# ---- C13 victim -------------------------------------------------------------------

TICK = 1.0 / 1024

PROGRAMS = {
    # name: (constructor kwargs, list of steps); times are whole ticks of the victim's fake clock
    'blocking': (dict(), [('acq', dict()), ('rel', dict())]),
    'with': (dict(), [('with', None)]),
    'timed': (dict(timeout=20 * TICK), [('acq', dict(poll_interval=5 * TICK)), ('rel', dict())]),
    'ctx_timed': (dict(), [('ctx', dict(timeout=20 * TICK, poll_interval=5 * TICK))]),
    'nested': (dict(reentrant=True), [('acq', dict()), ('acq', dict()), ('rel', dict()), ('rel', dict())]),
    'nested_force': (dict(reentrant=True), [('acq', dict()), ('acq', dict()), ('rel', dict(force=True))]),
    'nonblocking': (dict(), [('acq', dict(blocking=False)), ('rel', dict())]),
    # the same FileLock programs, but the holder starts a long-lived helper process (a plain child program
    # that keeps every inheritable descriptor) as soon as it is inside the critical section
    'blocking_helper': (dict(), [('acq', dict()), ('rel', dict())]),
    'nested_helper': (dict(reentrant=True), [('acq', dict()), ('acq', dict()), ('rel', dict()), ('rel', dict())]),
    # a multi-step history of one FileLock object: use the lock once, then, while the lock is FREE, os.fork() a
    # long-lived bystander child (it shares every open file description the victim has at that moment), then
    # acquire again.  A victim killed while holding for the second time must not leave the lock behind the bystander.
    'refork': (dict(), [('acq', dict()), ('rel', dict()), ('fork', None), ('acq', dict()), ('rel', dict())]),
    'refork_nested': (dict(reentrant=True), [('acq', dict()), ('acq', dict()), ('rel', dict(force=True)), ('fork', None),
                                             ('acq', dict()), ('rel', dict())]),
}


def crash(lock, program, n, logfile, resume=None):
    import aiuti.filelock as F
    log_fd = os.open(logfile, os.O_WRONLY | os.O_CREAT | os.O_APPEND)

    def log(s):
        os.write(log_fd, (s + '\n').encode())

    real_os, real_fcntl, real_threading, real_time = F.os, F.fcntl, F.threading, F.time

    class Os:
        def __getattr__(self, k):
            return getattr(real_os, k)

        def open(self, *a, **kw):
            fd = real_os.open(*a, **kw)
            log('open')
            return fd

        def close(self, fd):
            real_os.close(fd)
            log('close')

    class Fcntl:
        def __getattr__(self, k):
            return getattr(real_fcntl, k)

        def flock(self, fd, op):
            un = bool(op & real_fcntl.LOCK_UN)
            try:
                real_fcntl.flock(fd, op)
            except OSError:
                log('lockfail')
                raise
            log('unlock' if un else 'lock')

    class TL:
        def __init__(self, inner):
            self.inner = inner

        def acquire(self, *a, **kw):
            r = self.inner.acquire(*a, **kw)
            log('tlacq' if r else 'tlfail')
            return r

        def release(self):
            self.inner.release()
            log('tlrel')

    class Threading:
        def __getattr__(self, k):
            return getattr(real_threading, k)

        def Lock(self):
            return TL(real_threading.Lock())

        def RLock(self):
            return TL(real_threading.RLock())

    class Time:
        # the victim's clock is virtual (advanced by sleep only), so its polling loop is deterministic
        now = 0.0

        def __getattr__(self, k):
            return getattr(real_time, k)

        def time(self):
            return self.now

        def sleep(self, dt):
            real_time.sleep(0.0005)
            self.now += dt
            log('sleep')

    waited = [False]
    helper = [program.endswith('_helper')]

    def spawn_helper():
        # runs OUTSIDE aiuti/filelock.py (no line events counted): a child program that inherits whatever
        # descriptors are inheritable (close_fds=False) and outlives the victim
        import subprocess
        p = subprocess.Popen([sys.executable, '-c', 'import os, time; os.write(1, b"x"); time.sleep(4)'],
                             close_fds=False, stdin=subprocess.DEVNULL, stdout=subprocess.PIPE,
                             stderr=subprocess.DEVNULL)
        with open(logfile + '.helper', 'w') as f:
            f.write(str(p.pid))
        # wait until the helper program is really running: only then has its exec() closed the
        # close-on-exec descriptors it had copied at fork time (vfork/posix_spawn return earlier)
        p.stdout.read(1)

    def fork_bystander():
        # runs OUTSIDE aiuti/filelock.py (tracing off, nothing logged): a forked child that does nothing but
        # stay alive, holding copies of whatever descriptors this process has open right now
        pid = real_os.fork()
        if pid == 0:
            try:
                real_time.sleep(6)
            finally:
                real_os._exit(0)
        with open(logfile + '.helper', 'w') as f:
            f.write(str(pid))

    def after_success():
        if helper[0]:
            helper[0] = False
            sys.settrace(None)
            try:
                spawn_helper()
            finally:
                sys.settrace(tracer)
        # waiter scenarios: stay inside the critical section until the parent has started the waiter
        if resume and not waited[0]:
            waited[0] = True
            t0 = real_time.time()
            while not real_os.path.exists(resume) and real_time.time() - t0 < 10:
                real_time.sleep(0.001)

    F.os, F.fcntl, F.threading, F.time = Os(), Fcntl(), Threading(), Time()
    kwargs, steps = PROGRAMS[program]
    lk = F.FileLock(lock, **kwargs)
    fname = F.__file__
    count = [0]

    def tracer(frame, event, arg):
        if frame.f_code.co_filename != fname:
            return None
        if event == 'line':
            count[0] += 1
            if n < 0:
                log(f'L {count[0]}')            # dry run: report every line event
            if count[0] == n:
                log(f'KILL {count[0]} {frame.f_code.co_name} {frame.f_lineno}')
                os.kill(os.getpid(), signal.SIGKILL)
                time.sleep(10)
        return tracer

    sys.settrace(tracer)
    try:
        for kind, kw in steps:
            if kind != 'fork':
                log('call')
            if kind == 'acq':
                r = lk.acquire(**kw)
                log('ret ' + ('T' if r else 'F'))
                if r:
                    after_success()
            elif kind == 'rel':
                lk.release(**kw)
                log('ret N')
            elif kind == 'fork':
                sys.settrace(None)
                try:
                    fork_bystander()
                finally:
                    sys.settrace(tracer)
            elif kind == 'with':
                with lk:
                    log('ret T')
                    after_success()
                    log('call')
                log('ret N')
            elif kind == 'ctx':
                with lk.acquire_ctx(**kw):
                    log('ret T')
                    after_success()
                    log('call')
                log('ret N')
    except TimeoutError:
        log('ret TO')
    finally:
        sys.settrace(None)
    log(f'END {count[0]}')
    os._exit(0)


def hold(lock, ready, go, mode='blocking'):
    from aiuti.filelock import FileLock
    lk = FileLock(lock)
    if mode == 'nb':
        got = lk.acquire(False)
    else:
        got = lk.acquire()
    with open(ready + '.tmp', 'w') as f:
        f.write('HELD' if got else 'BUSY')
    os.rename(ready + '.tmp', ready)
    t0 = time.time()
    while not os.path.exists(go) and time.time() - t0 < 30:
        time.sleep(0.001)
    if got:
        lk.release()
    os._exit(0)


if __name__ == '__main__':
    cmd = sys.argv[1]
    if cmd == 'contend':
        contend(sys.argv[2], sys.argv[3], int(sys.argv[4]), int(sys.argv[5]))
    elif cmd == 'crash':
        crash(sys.argv[2], sys.argv[3], int(sys.argv[4]), sys.argv[5], *(sys.argv[6:7]))
    elif cmd == 'hold':
        hold(*sys.argv[2:])
    elif cmd == 'forkhold':
        forkhold(sys.argv[2], int(sys.argv[3]))
