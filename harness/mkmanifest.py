"""Regenerates /verif/MANIFEST.json from the per-property modules.
Usage: /venv/bin/python -m harness.mkmanifest   (cwd=/verif)"""
import importlib
import json
import os

from . import common as C

ALL = [f'C{i:02d}' for i in range(1, 21)]


def main():
    checks, na, served = [], [], []
    for pid in ALL:
        path = os.path.join(C.VERIF, 'harness', 'props', pid + '.py')
        if not os.path.exists(path):
            na.append(dict(property_id=pid, reason='check not built yet in this round; planned per DESIGN.md §9 (not a limitation of the technique)'))
            continue
        mod = importlib.import_module('harness.props.' + pid)
        if not getattr(mod, 'READY', False):
            na.append(dict(property_id=pid, reason='check under construction in this round (model/driver exist, not yet validated); planned per DESIGN.md §9'))
            continue
        if getattr(mod, 'NOT_CLAIMED', None):
            na.append(dict(property_id=pid, reason=mod.NOT_CLAIMED))
            continue
        served.append(pid)
        checks.append({
            'property_id': pid,
            'quick_cmd': f'cd /verif && ./check {pid} --tier quick',
            'thorough_cmd': f'cd /verif && ./check {pid} --tier thorough',
            'evidence_file': f'/verif/evidence/{pid}.json',
            'replay_cmd_template': f'cd /verif && ./check {pid} --replay {{path}}',
            'engine': 'coq-proof+correspondence',
            'level_claimed': {'category': getattr(mod, 'LEVEL', 'proof'), 'text': mod.LEVEL_TEXT,
                              'design_ref': f'DESIGN.md §5 {pid}'},
            'level_note': mod.LEVEL_NOTE,
            'technique': mod.TECHNIQUE,
        })
    m = {
        'version': 1,
        'setup_cmd': 'cd /verif && ./check setup',
        'hooks': {
            'guard': 'AIUTI_VERIF',
            'enable': 'no source hooks: the harness substitutes primitives from outside (module attributes, public parameters); AIUTI_VERIF=1 is exported by ./check for completeness',
            'baseline_off_cmd': 'cd /repo && env -u AIUTI_VERIF /venv/bin/python -m pytest -ra -q -p no:cacheprovider --timeout=900 --continue-on-collection-errors',
            'source_commits': [],
            'add_only': True,
        },
        'engines': [{
            'name': 'coq-proof+correspondence', 'path': '/verif/check', 'serves_properties': served,
            'kind_free_text': 'Coq 8.16.1 theorems about hand-written executable Gallina models (coq/theories, coq/props), tied to /repo on every run by differential correspondence: the real code is run under a deterministic harness (virtual-time loop, gated threads, logging user code) and the model + trace monitor are evaluated by vm_compute on the same inputs (harness/); a small fail-closed ast translator regenerates the syntactic facts (coq/gen/T_*.v)'}],
        'checks': checks,
        'not_applicable': na,
        'notes': 'See DESIGN.md. Fixed defects and known findings: known-findings.txt. Seeded regressions: seeded/.',
    }
    with open(os.path.join(C.VERIF, 'MANIFEST.json'), 'w') as f:
        json.dump(m, f, indent=1)
    print('checks:', served, ' not claimed:', [x['property_id'] for x in na])


if __name__ == '__main__':
    main()
