"""cache_gen — case generators, Coq serialisation and shrinking shared by C01 / C05 / C06
(threadsafe_async_cache).  The driver is harness/cache_drv.py, the model coq/theories/Cache.v."""
from __future__ import annotations

import copy
import multiprocessing as mp
import random

from . import common as C
from . import cache_drv as D

HEADER = ('From Coq Require Import List NArith. Import ListNotations.\n'
          'Require Import Aiuti.Cache Aiuti.CacheMon Aiuti.Case_Cache {case_mod}.')
SAFETY = D.SAFETY

OPS = {'get': 'Get', 'miss': 'Miss', 'acq': 'Acq', 'rel': 'Rel', 'set': 'SetC', 'xsub': 'XSub'}


def _n(x):
    return str(min(int(x), 4999)) if int(x) >= 0 else None


def ev_coq(e):
    k = e[0]
    try:
        if k == 'op':
            if e[2] < 0 or e[3] not in OPS:
                return 'Bad 2'
            return f'{OPS[e[3]]} {_n(e[1])} {_n(e[2])}'
        if k in ('idle', 'har'):
            return None
        if k == 'adv':
            return f'Adv {C.coq_N(e[1])}'
        if k == 'istart':
            if e[2] < 0:
                return 'Bad 3'
            return f'IStart {_n(e[1])} {_n(e[2])} {C.coq_N(e[3])}'
        if k == 'iend':
            return f'IEnd {_n(e[1])} {_n(e[2])} {C.coq_N(e[3])}'
        if k == 'cancel':
            return f'Cancel {_n(e[1])} {C.coq_N(e[2])}'
        if k == 'done':
            return f'Done {_n(e[1])} {_n(e[2])} {_n(e[3])} {C.coq_N(e[4])}'
        if k == 'proxy':
            if e[2] < 0:
                return 'Bad 4'
            return f'Proxy {_n(e[1])} {_n(e[2])} {_n(e[3])}'
        if k == 'loop':
            return f'LoopEv {_n(e[1])} {_n(e[2])}'
        if k == 'end':
            return f'End {_n(e[1])}'
    except Exception:
        return 'Bad 9'
    return 'Bad 1'


def to_coq(case, obs):
    tbl = [(t, k) for (_, t, k, _, _) in D.caller_table(case)]
    evs = [x for x in (ev_coq(e) for e in obs['tr']) if x is not None]
    if not obs.get('plain_same', True):
        evs.append('Bad 7')
    return (f"Case {len(case['thr'])} {C.coq_list([f'({t},{k})' for t, k in tbl])} "
            f"{C.coq_list(evs)}")


def error_obs(case, o):
    return {'tr': [['thread_exc', 0, str(o)[:100]], ['end', 3]], 'plain_same': True}


def explain_exprs(case, obs):
    return [f'Case_Cache.explain ({to_coq(case, obs)})']


# ----------------------------------------------------------------------------------------------
# case construction
# ----------------------------------------------------------------------------------------------

def thr(callers, stop=-1, epi=(('shut', 0), ('close', 0))):
    return {'callers': [list(c) for c in callers], 'stop': stop, 'epi': [list(e) for e in epi]}


def mk(threads, invs, sched=(), plain=None, cache='dict', none=0, aw=0):
    # plain: the default-dict re-run is comparable exactly when the schedule is the non-preemptive default
    if plain is None:
        plain = 0 if list(sched) else 1
    return {'thr': threads, 'invs': [list(i) for i in invs], 'sched': list(sched), 'plain': plain, 'cache': cache,
            'none': none, 'aw': aw}


FULL = (('shut', 0), ('close', 0))


def scenarios():
    """Named scenarios (DESIGN §6 F1, F2, F2b, the seeded demonstrations, basics)."""
    out = []
    # one thread, three callers of one key: one computes, two wait on the same loop
    out.append(mk([thr([[0, 0, -1], [0, 0, -1], [0, 1, -1]])], [[3, 1]], plain=1))
    # two loops, second arrives while the first computes (cross-loop wait, prompt wake-up)
    out.append(mk([thr([[0, 0, -1]]), thr([[0, 1, -1]])], [[5, 1]], [0] * 12 + [1] * 12))
    # failure is not cached: first invocation raises, the waiter recomputes
    out.append(mk([thr([[0, 0, -1]]), thr([[0, 1, -1]])], [[5, 0], [2, 1]], [0] * 12 + [1] * 12))
    # F1: loop 0 stops with its computation pending; 1 takes over; 0 is shut down; 2 arrives
    out.append(mk([thr([[0, 0, -1]], stop=1, epi=(('shut', 20), ('close', 20))),
                   thr([[0, 5, -1]]), thr([[0, 30, -1]])], [[50, 1], [50, 1], [50, 1]]))
    out.append(mk([thr([[0, 0, -1]], stop=1, epi=(('shut', 20), ('close', 40))),
                   thr([[0, 5, -1]]), thr([[0, 30, -1], [0, 31, -1]])], [[50, 1], [50, 0], [5, 1]]))
    # F2: 1 waits cross-loop on 0; 0's main ends, the epilogue cancels 1's proxy wait
    out.append(mk([thr([[0, 0, -1]], stop=200, epi=(('shut', 200), ('close', 200))),
                   thr([[0, 50, -1]])], [[500, 1], [5, 1]]))
    out.append(mk([thr([[0, 0, -1]], stop=200, epi=(('shutrev', 200), ('close', 300))),
                   thr([[0, 50, -1], [0, 60, -1]]), thr([[0, 70, -1]])], [[500, 1], [5, 1]]))
    # computing loop stops and is never shut down: the other loop recovers at +60 s (C05 rescue)
    out.append(mk([thr([[0, 0, -1]], stop=1, epi=(('shut', 70000), ('close', 70000))),
                   thr([[0, 0, -1]])], [[5, 1], [2, 1]],
                  [0] * 8 + [1] * 8 + [0] * 4))
    # computing caller cancelled while others wait (C05-m2 / C06): waiters recompute at once
    out.append(mk([thr([[0, 0, 3], [0, 1, -1], [0, 2, -1]])], [[10, 1], [4, 1]]))
    out.append(mk([thr([[0, 0, 3]]), thr([[0, 1, -1]]), thr([[0, 2, -1]])], [[10, 1], [4, 1]]))
    # waiting caller cancelled: nobody else is disturbed
    out.append(mk([thr([[0, 0, -1], [0, 1, 3]]), thr([[0, 1, 4], [0, 2, -1]])], [[10, 1]]))
    # closed computing loop: run_coroutine_threadsafe raises RuntimeError -> retry (C06-m1)
    out.append(mk([thr([[0, 0, -1]], stop=1, epi=(('close', 1),)), thr([[0, 0, -1]])],
                  [[50, 1], [2, 1]], [0] * 8 + [1] * 6 + [0] * 6))
    # a computation longer than the 60 s safety window on a LIVE loop with waiters on the same loop and
    # on another loop: the waiters time out, look again, find the marker alive and wait again (C01-m4)
    out.append(mk([thr([[0, 0, -1], [0, 1, -1]]), thr([[0, 2, -1]])], [[70000, 1], [5, 1], [5, 1]]))
    out.append(mk([thr([[0, 0, -1]]), thr([[0, 1, -1], [0, 61441, -1]])], [[130000, 0], [3, 1], [3, 1]]))
    # the wrapped callable raises synchronously (before returning its awaitable): nothing is cached,
    # the marker is retired, a later caller computes afresh (C05-m3)
    out.append(mk([thr([[0, 0, -1], [0, 1, -1], [0, 5, -1]]), thr([[0, 3, -1]])], [[-2, 0], [4, 1], [4, 1]]))
    # the wrapped function returns None: a cached None is a hit like any other value (C01-m9)
    out.append(mk([thr([[0, 0, -1], [0, 1, -1], [0, 9, -1]]), thr([[0, 2, -1], [0, 12, -1]])], [[5, 1], [5, 1], [5, 1]], none=1))
    out.append(mk([thr([[0, 0, -1], [1, 0, -1]]), thr([[1, 4, -1], [0, 4, -1]])], [[-1, 1], [0, 1], [2, 1], [2, 1]], none=1,
                  cache='map'))
    # the wrapped function returns a reusable awaitable object: cached like any other value (C01-m10)
    out.append(mk([thr([[0, 0, -1], [0, 1, -1], [0, 9, -1]]), thr([[0, 2, -1], [0, 12, -1]])], [[5, 1], [5, 1], [5, 1]], aw=1))
    # two keys, zero-duration computations
    out.append(mk([thr([[0, 0, -1], [1, 0, -1]]), thr([[1, 0, -1], [0, 0, -1]])],
                  [[-1, 1], [0, 1], [0, 0], [-1, 1]], [0, 1] * 30))
    return out


# F2b (proxy task cancelled before its first step) and the narrow windows of the seeded changes
# need particular schedules; they are found by exploration once and pinned here.
PINNED = [
    # F2b: loop 0's computation ends in the tick its main returns; caller 1 registers its proxy wait
    # in loop 0's last iteration; the shutdown cancels the proxy task before its first step
    mk([thr([[0, 0, -1]], stop=3, epi=(('shut', 0),)), thr([[0, 3, -1]], epi=())], [[3, 1]],
       [0] * 7 + [1] * 8 + [0, 0, 0, 1]),
    # C06-m1 window: the computing loop is closed between the waiter leaving the lock and its
    # run_coroutine_threadsafe
    mk([thr([[0, 0, -1]]), thr([[0, 0, -1]], epi=())], [[-1, 1]], [0] * 7 + [1] * 7 + [0]),
    # C01-m1 window: second caller does its whole lookup between the marker removal and the store
    mk([thr([[0, 0, -1]], epi=()), thr([[0, 0, -1]], epi=())], [[-1, 1]], [0] * 9 + [1]),
    # C01-m2 window: second caller between its locked re-probe (miss) and the marker lookup while
    # the first publishes and retires its marker
    mk([thr([[0, 0, -1]], epi=()), thr([[0, 0, -1]], epi=())], [[-1, 1]], [0] * 7 + [1] * 5 + [0]),
    # C05-m1: computing loop stops and stays stopped; the other caller must take over
    mk([thr([[0, 0, -1]], stop=1, epi=()), thr([[0, 0, -1]], epi=())], [[5, 1]]),
    # C05-m2: computing caller cancelled, a later caller of the same loop must not wait for nothing
    mk([thr([[0, 0, 3], [0, 2, -1]], epi=())], [[10, 1]]),
]


def corpus():
    return scenarios() + [copy.deepcopy(c) for c in PINNED]


# ----------------------------------------------------------------------------------------------
# exhaustive layer: the implementation's own decision tree, preemption-bounded DFS
# ----------------------------------------------------------------------------------------------

def explore(case, pbound=2, max_runs=2000):
    """All schedules of the implementation's decision tree with at most ``pbound`` preemptions
    (switching away from a thread that is still enabled).  Stateless DFS: each run follows a prefix
    and then the non-preemptive default; every alternative at every later decision is a new prefix."""
    out, stack, seen = [], [[]], set()
    while stack and len(out) < max_runs:
        prefix = stack.pop()
        _, ch = D.run_once(dict(case, sched=prefix, plain=0), want_choices=True)
        sched = [c for _, c in ch]
        key = tuple(sched)
        if key in seen:
            continue
        seen.add(key)
        out.append(sched)
        pre = [0] * (len(ch) + 1)
        for i, (en, c) in enumerate(ch):
            last = ch[i - 1][1] if i else None
            pre[i + 1] = pre[i] + (1 if (last is not None and c != last and last in en) else 0)
        for i in range(len(prefix), len(ch)):
            en, c = ch[i]
            last = ch[i - 1][1] if i else None
            for alt in en:
                if alt == c:
                    continue
                cost = pre[i] + (1 if (last is not None and alt != last and last in en) else 0)
                if cost <= pbound:
                    stack.append(sched[:i] + [alt])
    return out


def _explore_job(args):
    case, pb, cap = args
    return [dict(case, sched=s, plain=0) for s in explore(case, pb, cap)]


def exhaustive_bases(tier):
    """2 threads x 1 caller of one key, every combination of computation duration, outcome and
    epilogue of the first thread; 2 threads x (1+1) callers."""
    bases = []
    for dur in (-1, 0, 2):
        for ok in (1, 0):
            bases.append(mk([thr([[0, 0, -1]]), thr([[0, 0, -1]])], [[dur, ok], [dur, 1]]))
    # first loop stops with the computation pending, then shutdown (+close)
    bases.append(mk([thr([[0, 0, -1]], stop=1, epi=FULL), thr([[0, 0, -1]])], [[4, 1], [2, 1]]))
    bases.append(mk([thr([[0, 0, -1]], stop=1, epi=(('close', 0),)), thr([[0, 0, -1]])], [[4, 1], [2, 1]]))
    # the computation ends in the very tick in which its loop's main returns, the other caller arrives
    # in that tick too (F2b: a proxy wait can be registered but never started before the shutdown)
    bases.append(mk([thr([[0, 0, -1]], stop=3, epi=FULL), thr([[0, 3, -1]])], [[3, 1], [2, 1]]))
    bases.append(mk([thr([[0, 0, -1]], stop=3, epi=FULL), thr([[0, 3, -1]])], [[3, 0], [2, 1]]))
    # the computing caller is cancelled in the very tick in which its computation ends (its main woke
    # for a later arrival in between, so the computation's timer fires first), a waiter sits on its
    # loop and a caller of another loop goes through the locked section in that tick (C05-m7: a
    # suspension point inside the completion bookkeeping)
    bases.append(mk([thr([[0, 0, 3], [0, 1, -1]]), thr([[0, 3, -1]])], [[3, 1], [2, 1], [2, 1]]))
    bases.append(mk([thr([[0, 0, 3], [0, 1, -1]]), thr([[0, 3, -1]])], [[3, 0], [2, 1], [2, 1]]))
    # computing caller cancelled / waiting caller cancelled
    bases.append(mk([thr([[0, 0, 1]]), thr([[0, 0, -1]])], [[3, 1], [2, 1]]))
    bases.append(mk([thr([[0, 0, -1]]), thr([[0, 0, 1]])], [[3, 1], [2, 1]]))
    # 2 threads x (1+1) callers
    bases.append(mk([thr([[0, 0, -1], [0, 0, -1]]), thr([[0, 0, -1], [0, 0, -1]])], [[1, 1], [1, 1]]))
    bases.append(mk([thr([[0, 0, -1]]), thr([[0, 0, -1]])], [[0, 1], [0, 1]], none=1))
    bases.append(mk([thr([[0, 0, -1]]), thr([[0, 0, -1]])], [[0, 1], [0, 1]], aw=1))
    bases.append(mk([thr([[0, 0, -1], [0, 0, -1]]), thr([[0, 0, -1], [0, 0, -1]])], [[0, 0], [1, 1], [1, 1]]))
    return bases


def gen_exhaustive(tier, seed):
    pb = 2 if tier == 'quick' else 3
    cap = 220 if tier == 'quick' else 5000
    jobs = [(b, pb, cap) for b in exhaustive_bases(tier)]
    with mp.get_context('fork').Pool(C.NPROC) as pool:
        return [c for cs in pool.map(_explore_job, jobs, chunksize=1) for c in cs]


# ----------------------------------------------------------------------------------------------
# random layer
# ----------------------------------------------------------------------------------------------

def rand_case(rnd, big=False):
    nT = rnd.choice([2, 3, 3, 4] if not big else [3, 4, 4])
    nK = rnd.choice([1, 1, 2])
    horizon = rnd.choice([0, 3, 8, 20])
    threads = []
    for t in range(nT):
        nC = rnd.choice([1, 1, 2, 3])
        callers = []
        for _ in range(nC):
            at = rnd.randint(0, horizon) if horizon else 0
            cn = -1
            if rnd.random() < 0.2:
                # half of the cancellations land in the very tick in which a computation started at the
                # arrival would end (cancel / shutdown racing the completion bookkeeping)
                cn = at + (rnd.choice([1, 2, 5, 12]) if rnd.random() < 0.5 else rnd.randint(1, 8))
            callers.append([rnd.randrange(nK), at, cn])
        callers.sort(key=lambda c: c[1])
        r = rnd.random()
        if r < 0.55:
            stop = -1
        elif r < 0.7 and callers:
            # tie: main returns in the tick in which a computation started at arrival would end
            stop = rnd.choice(callers)[1] + rnd.choice([0, 1, 2, 5])
        else:
            stop = rnd.randint(0, max(2, horizon + 6))
        e = rnd.random()
        if stop < 0:
            epi = FULL if e < 0.8 else ()
        else:
            t1 = stop + rnd.choice([0, 0, 1, 5, 20])
            t2 = t1 + rnd.choice([0, 0, 3])
            sh = rnd.choice(['shut', 'shut', 'shutrev'])
            if e < 0.45:
                epi = ((sh, t1), ('close', t2))
            elif e < 0.6:
                epi = ((sh, t1),)
            elif e < 0.75:
                epi = (('close', t1),)
            elif e < 0.85:
                epi = ((sh, SAFETY + t1), ('close', SAFETY + t2))
            else:
                epi = ()
        threads.append(thr(callers, stop, epi))
    invs = []
    for _ in range(rnd.randint(2, 8)):
        d = rnd.choice([-1, 0, 0, 1, 2, 5, 12])
        ok = 1 if rnd.random() < 0.7 else 0
        x = rnd.random()
        if x < 0.04:
            d, ok = -2, 0                               # raises synchronously at call time
        elif x < 0.10:
            d = SAFETY + rnd.choice([1, 500, 9000, SAFETY + 7])   # outlives the 60 s safety window
        invs.append([d, ok])
    stay = rnd.choice([0.0, 0.3, 0.6, 0.85])
    sched, last = [], rnd.randrange(nT)
    for _ in range(rnd.choice([60, 150, 400])):
        if rnd.random() >= stay:
            last = rnd.randrange(nT)
        sched.append(last)
    r = rnd.random()
    if r < 0.12:
        sched = []                       # non-preemptive default schedule: compared with the default-dict run
    return mk(threads, invs, sched, cache='map' if rnd.random() < 0.25 else 'dict',
              none=1 if rnd.random() < 0.15 else 0, aw=1 if rnd.random() < 0.12 else 0)


def gen_random(tier, seed, n_quick=2400, n_thorough=30000):
    rnd = random.Random(0xCAC4E + 7919 * seed)
    n = n_quick if tier == 'quick' else n_thorough
    return [rand_case(rnd) for _ in range(n)]


def gen_search(tier, seed):
    rnd = random.Random(0x5EA2C4 + 104729 * seed)
    n = 6000 if tier == 'quick' else 40000
    out = [rand_case(rnd, big=(i % 3 == 0)) for i in range(n)]
    jobs = [(b, 3, 1500 if tier == 'quick' else 8000) for b in exhaustive_bases(tier)]
    with mp.get_context('fork').Pool(C.NPROC) as pool:
        out += [c for cs in pool.map(_explore_job, jobs, chunksize=1) for c in cs]
    return out


# ----------------------------------------------------------------------------------------------
# shrinking, distribution
# ----------------------------------------------------------------------------------------------

def shrink_candidates(case):
    out = []
    th = case['thr']
    # drop a thread (schedule indices are renumbered)
    if len(th) > 1:
        for i in range(len(th)):
            c = copy.deepcopy(case)
            del c['thr'][i]
            c['sched'] = [x - 1 if x > i else x for x in c['sched'] if x != i]
            out.append(c)
    # drop a caller
    for i, t in enumerate(th):
        if len(t['callers']) > 1:
            for j in range(len(t['callers'])):
                c = copy.deepcopy(case)
                del c['thr'][i]['callers'][j]
                out.append(c)
    # remove cancellations, epilogue entries
    for i, t in enumerate(th):
        for j, cl in enumerate(t['callers']):
            if cl[2] >= 0:
                c = copy.deepcopy(case)
                c['thr'][i]['callers'][j][2] = -1
                out.append(c)
        if t['epi']:
            c = copy.deepcopy(case)
            c['thr'][i]['epi'] = c['thr'][i]['epi'][:-1]
            out.append(c)
    # shorten the schedule
    s = case['sched']
    if s:
        for cut in (len(s) // 2, len(s) - 1):
            c = copy.deepcopy(case)
            c['sched'] = s[:cut]
            out.append(c)
        c = copy.deepcopy(case)
        c['sched'] = []
        out.append(c)
    # simplify invocation script
    for i, (d, ok) in enumerate(case['invs']):
        if d > 1:
            c = copy.deepcopy(case)
            c['invs'][i][0] = 1
            out.append(c)
    if len(case['invs']) > 1:
        c = copy.deepcopy(case)
        c['invs'] = c['invs'][:-1]
        out.append(c)
    return out


def distribution(cases, obs):
    d = dict(threads={}, callers={}, keys={}, events=0, proxies=0, cancels=0, failures=0, loop_stops_pending=0,
             timeouts_60s=0, ends={}, default_dict_reruns=0, default_dict_same=0, mutablemapping_cache=0, returns_none=0, returns_awaitable=0,
             sync_raises=0, longer_than_60s=0)
    for c, o in zip(cases, obs):
        if not isinstance(o, dict) or 'tr' not in o:
            continue
        nt = len(c['thr'])
        d['threads'][nt] = d['threads'].get(nt, 0) + 1
        nc = sum(len(t['callers']) for t in c['thr'])
        d['callers'][nc] = d['callers'].get(nc, 0) + 1
        nk = len({cl[0] for t in c['thr'] for cl in t['callers']})
        d['keys'][nk] = d['keys'].get(nk, 0) + 1
        tr = o['tr']
        if c.get('plain'):
            d['default_dict_reruns'] += 1
            d['default_dict_same'] += 1 if o.get('plain_same') else 0
        d['mutablemapping_cache'] += 1 if c.get('cache') == 'map' else 0
        d['returns_none'] += 1 if c.get('none') else 0
        d['returns_awaitable'] += 1 if c.get('aw') else 0
        d['sync_raises'] += sum(1 for (dur, _) in c['invs'] if dur == -2)
        d['longer_than_60s'] += sum(1 for (dur, _) in c['invs'] if dur > SAFETY)
        d['events'] += len(tr)
        d['proxies'] += sum(1 for e in tr if e[0] == 'proxy')
        d['cancels'] += sum(1 for e in tr if e[0] == 'cancel')
        d['failures'] += sum(1 for e in tr if e[0] == 'iend' and e[2] == 1)
        d['timeouts_60s'] += sum(1 for e in tr if e[0] == 'adv' and e[1] >= SAFETY)
        d['loop_stops_pending'] += sum(1 for t in c['thr'] if t['stop'] >= 0)
        en = tr[-1][1] if tr and tr[-1][0] == 'end' else 9
        d['ends'][en] = d['ends'].get(en, 0) + 1
    return d


RULE = ('case = (2..4 threads each owning one virtual-time event loop, 1..3 callers per loop on 1..2 keys with arrival '
        'ticks and optional cancellation ticks, per-thread epilogue {join all callers | main returns at tick T with calls '
        'pending} followed by any of {asyncio.run-style shutdown (cancel leftovers in creation or reverse order), close} at '
        'given ticks, script of invocation durations (-2 the wrapped callable raises synchronously, -1 no suspension, 0, '
        'd ticks incl. d > 61440 = longer than the 60 s safety window) and outcomes (return/raise), schedule = '
        'thread chosen at every gate).  The REAL threadsafe_async_cache runs under the gated-thread controller (gates: lock '
        'acquire/release, cache lookup, second gate after a miss, cache store, run_coroutine_threadsafe, loop idle, '
        'epilogue actions); the recorded '
        'event trace must be a complete run of the Coq model Cache.step (every event enabled in the model state, including '
        'which thread ran, hit/miss consequences, who may be woken, proxy results, clock) and is judged by the trace '
        'monitor.  non-trivial is decided in Coq per property (see Case_Cxx.nontrivial).')
EXHAUSTIVE_NOTE = ('all schedules of the implementation\'s own decision tree with <= 2 (quick, capped per base) / <= 3 '
                   '(thorough) preemptions for 2 threads x 1 caller of one key over {no-suspension, sleep(0), timed} x '
                   '{return, raise} computations, loop stop with the computation pending + shutdown/close, cancellation '
                   'of the computing / the waiting caller, and 2 threads x (1+1) callers')
ASSUMPTIONS = ['asyncio (Event, wait_for, shield, Task.cancel, run_coroutine_threadsafe, wrap_future, the asyncio.run '
               'epilogue), threading.Lock and dict are modelled primitives',
               'code between two gates touches only thread-local state or state protected by the gated lock',
               'each invocation of the wrapped function finishes, raises or is cancelled; loops are not restarted after '
               'stopping with a call pending (the properties\' own assumptions)',
               'virtual time: 1 tick = 2^-10 s, the 60 s safety timeout is 61440 ticks']
TRUSTED = ['harness/gate.py, harness/cache_drv.py, harness/cache_gen.py, coq/theories/Case_Cache.v, Case_C01/C05/C06.v']
TECHNIQUE = ('event-labelled small-step model (Cache.v) + inductive invariants over all accepted event lists; '
             'differential correspondence: the trace of the real code under gated threads must be a run of the model; '
             'trace monitors evaluated in Coq on the observed traces')
