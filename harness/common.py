"""Shared infrastructure of the /verif checks (see DESIGN.md §2).

Everything here is generic: building the Coq development, evaluating generated
``cases_*.v`` files with ``vm_compute``, collecting ``Print Assumptions``,
writing evidence / replay files, matching known findings.
"""
from __future__ import annotations

import fcntl
import glob
import hashlib
import json
import os
import re
import subprocess
import sys
import time
from concurrent.futures import ThreadPoolExecutor

VERIF = os.path.dirname(os.path.dirname(os.path.abspath(__file__)))
REPO = os.environ.get('AIUTI_REPO', '/repo')
COQ = os.path.join(VERIF, 'coq')
GEN = os.path.join(COQ, 'gen')
EVID = os.path.join(VERIF, 'evidence')
REPLAYS = os.path.join(VERIF, 'replays')
PY = '/venv/bin/python'
GUARD = 'AIUTI_VERIF'
COQ_FLAGS = ['-R', 'theories', 'Aiuti', '-R', 'props', 'AiutiProps',
             '-R', 'gen', 'AiutiGen']
NPROC = min(16, os.cpu_count() or 4)


def log(*a):
    print(*a, file=sys.stderr, flush=True)


# --------------------------------------------------------------------------
# Coq build
# --------------------------------------------------------------------------

class BuildLock:
    """Serialises every make/coq_makefile in coq/ (checks may run in parallel)."""

    def __enter__(self):
        os.makedirs(GEN, exist_ok=True)
        self.f = open(os.path.join(COQ, '.build.lock'), 'w')
        fcntl.flock(self.f, fcntl.LOCK_EX)
        return self

    def __exit__(self, *a):
        fcntl.flock(self.f, fcntl.LOCK_UN)
        self.f.close()


def write_if_changed(path: str, content: str) -> bool:
    try:
        with open(path) as f:
            if f.read() == content:
                return False
    except FileNotFoundError:
        pass
    os.makedirs(os.path.dirname(path), exist_ok=True)
    with open(path, 'w') as f:
        f.write(content)
    return True


def project_files():
    fs = sorted(glob.glob(os.path.join(COQ, 'theories', '*.v')))
    fs += sorted(glob.glob(os.path.join(COQ, 'props', '*.v')))
    fs += sorted(glob.glob(os.path.join(GEN, 'T_*.v')))  # translator output
    return [os.path.relpath(f, COQ) for f in fs]


def refresh_makefile():
    """(Re)generate _CoqProject / Makefile when the file list changed."""
    lines = ['-R theories Aiuti', '-R props AiutiProps', '-R gen AiutiGen',
             '-arg -w', '-arg -all'] + project_files()
    changed = write_if_changed(os.path.join(COQ, '_CoqProject'), '\n'.join(lines) + '\n')
    if changed or not os.path.exists(os.path.join(COQ, 'Makefile')):
        subprocess.run(['coq_makefile', '-f', '_CoqProject', '-o', 'Makefile'],
                       cwd=COQ, check=True, stdout=subprocess.DEVNULL,
                       stderr=subprocess.DEVNULL)


def coq_make(targets, timeout=1700, jobs=NPROC, keep_going=False):
    """Full .vo build of the given targets (never -vos). Returns (ok, output)."""
    with BuildLock():
        refresh_makefile()
        cmd = ['timeout', str(timeout), 'make', '-j', str(jobs)]
        if keep_going:
            cmd.append('-k')
        cmd += list(targets)
        p = subprocess.run(cmd, cwd=COQ, stdout=subprocess.PIPE,
                           stderr=subprocess.STDOUT, text=True)
        return p.returncode == 0, p.stdout


def coqc_file(path, timeout=600):
    """Compile one ad-hoc file (cases / assumptions) and return (rc, stdout+stderr)."""
    cmd = ['timeout', str(timeout), 'coqc', '-w', '-all'] + COQ_FLAGS + [path]
    p = subprocess.run(cmd, cwd=COQ, stdout=subprocess.PIPE,
                       stderr=subprocess.STDOUT, text=True)
    return p.returncode, p.stdout


FORBIDDEN = re.compile(
    r'\b(Admitted|admit|Axiom|Axioms|Parameter|Parameters|Conjecture|'
    r'Admit Obligations|Unset Guard Checking|Unset Positivity Checking|'
    r'Unset Universe Checking|bypass_check|native_compute)\b')


def strip_comments(src: str) -> str:
    out, depth, i = [], 0, 0
    while i < len(src):
        if src.startswith('(*', i):
            depth += 1
            i += 2
        elif src.startswith('*)', i) and depth:
            depth -= 1
            i += 2
        else:
            if not depth:
                out.append(src[i])
            i += 1
    return ''.join(out)


def closure(rel_files):
    """Transitive closure of project files over 'Require ... Aiuti(.|Props.|Gen.)X'."""
    seen, todo = [], list(rel_files)
    dirs = {'Aiuti': 'theories', 'AiutiProps': 'props', 'AiutiGen': 'gen'}
    while todo:
        f = todo.pop()
        if f in seen or not os.path.exists(os.path.join(COQ, f)):
            continue
        seen.append(f)
        src = strip_comments(open(os.path.join(COQ, f)).read())
        for m in re.finditer(r'\b(AiutiProps|AiutiGen|Aiuti)\.([A-Za-z_][\w]*)', src):
            todo.append(f'{dirs[m.group(1)]}/{m.group(2)}.v')
        for m in re.finditer(r'From\s+(AiutiProps|AiutiGen|Aiuti)\s+Require\s+(?:Import|Export)?\s*([^.]*)\.', src):
            for name in m.group(2).split():
                todo.append(f'{dirs[m.group(1)]}/{name}.v')
    return sorted(seen)


def hygiene(files=None):
    """grep of DESIGN §7: no Admitted/admit/Axiom/Parameter/... in the development
    (restricted to the dependency closure of ``files`` when given)."""
    bad = []
    for f in (closure(files) if files is not None else project_files()):
        src = strip_comments(open(os.path.join(COQ, f)).read())
        for m in FORBIDDEN.finditer(src):
            bad.append((f, m.group(0)))
        for m in re.finditer(r'^\s*(Variable|Variables|Hypothesis|Hypotheses|Context)\b',
                             src, re.M):
            # allowed only inside a Section
            pre = src[:m.start()]
            opened = len(re.findall(r'^\s*Section\s+\w+', pre, re.M))
            closed = 0
            for sm in re.finditer(r'^\s*Section\s+(\w+)', pre, re.M):
                if re.search(r'^\s*End\s+' + sm.group(1) + r'\s*\.', pre[sm.end():], re.M):
                    closed += 1
            if opened - closed <= 0:
                bad.append((f, m.group(1) + ' outside a section'))
    return bad


def theorems_of(props_file: str):
    src = strip_comments(open(props_file).read())
    return re.findall(r'^\s*Theorem\s+([A-Za-z_][\w\']*)', src, re.M)


def print_assumptions(prop_id: str, module: str, theorems):
    """Run Print Assumptions on every theorem of props/<prop>.v.
    Returns dict theorem -> 'closed' | [axiom names]."""
    path = os.path.join(GEN, f'assm_{prop_id}.v')
    body = [f'Require Import AiutiProps.{module}.']
    for t in theorems:
        body.append(f'Goal True. idtac "@@BEGIN {t}". exact I. Qed.')
        body.append(f'Print Assumptions {t}.')
        body.append(f'Goal True. idtac "@@END". exact I. Qed.')
    write_if_changed(path, '\n'.join(body) + '\n')
    rc, out = coqc_file(path, timeout=600)
    res = {}
    if rc != 0:
        return None, out
    for m in re.finditer(r'@@BEGIN (\S+)\n(.*?)@@END', out, re.S):
        name, txt = m.group(1), m.group(2)
        if 'Closed under the global context' in txt:
            res[name] = 'closed'
        else:
            axs = [a for a in re.findall(r'^([A-Za-z_][\w\.\']*)\s*:', txt, re.M)
                   if a not in ('Axioms', 'Section', 'Variables', 'Opaque', 'Transparent')]   # header lines of the output
            res[name] = axs or [txt.strip()]
    return res, out


# --------------------------------------------------------------------------
# Correspondence: cases files evaluated inside Coq
# --------------------------------------------------------------------------

def coq_list(items):
    return '[' + '; '.join(items) + ']'


def coq_nat(n: int) -> str:
    assert 0 <= n < 5000, n
    return str(n)


def coq_N(n: int) -> str:
    assert n >= 0
    return f'{n}%N'


def coq_bool(b) -> str:
    return 'true' if b else 'false'


def coq_opt(x, f=str):
    return 'None' if x is None else f'(Some {f(x)})'


def _parse_idx_lists(out: str, k: int):
    """Parse '= ([..], [..], ..)' printed by Eval vm_compute (k lists of nat)."""
    m = re.search(r'=\s*(\(.*?\))\s*:\s', out, re.S)
    if not m:
        return None
    txt = re.sub(r'\s+', '', m.group(1))
    lists = re.findall(r'\[([0-9;]*)\]', txt)
    if len(lists) != k:
        return None
    return [[int(x) for x in l.split(';') if x] for l in lists]


def run_cases(prop_id: str, header: str, case_type: str, verdict_fn: str,
              literals, chunk=400, tag='', timeout=900):
    """Evaluate ``verdict_fn cases`` in Coq for all literals.

    ``verdict_fn : list case -> list nat * list nat * list nat`` returns the
    indices (within the file) of cases where (model <> observed), where the
    monitor rejects the observed trace, and which are non-trivial.
    Returns dict(mismatch=[global idx], bad=[...], nontrivial=[...], errors=[...]).
    """
    os.makedirs(GEN, exist_ok=True)
    # file names carry the pid: several runs of one property's check (unchanged tree, scratch
    # copies with AIUTI_REPO) may evaluate cases at the same time without disturbing each other
    me = f'p{os.getpid()}'
    for old in glob.glob(os.path.join(GEN, f'cases_{prop_id}{tag}_*')):
        try:
            if f'_{me}_' in old or time.time() - os.path.getmtime(old) > 7200:
                os.unlink(old)
        except OSError:
            pass
    files = []
    for ci, start in enumerate(range(0, len(literals), chunk)):
        part = literals[start:start + chunk]
        path = os.path.join(GEN, f'cases_{prop_id}{tag}_{me}_{ci:04d}.v')
        with open(path, 'w') as f:
            f.write(header + '\n')
            f.write(f'Definition cases : list ({case_type}) :=\n  [\n   ')
            f.write(';\n   '.join(part))
            f.write('\n  ].\n')
            f.write(f'Eval vm_compute in ({verdict_fn} cases).\n')
        files.append((start, path))
    res = dict(mismatch=[], bad=[], nontrivial=[], errors=[], files=len(files))

    def one(sp):
        start, path = sp
        rc, out = coqc_file(path, timeout=timeout)
        return start, path, rc, out

    with ThreadPoolExecutor(NPROC) as ex:
        for start, path, rc, out in ex.map(one, files):
            lists = _parse_idx_lists(out, 3) if rc == 0 else None
            if lists is None:
                res['errors'].append((path, out[-2000:]))
                continue
            res['mismatch'] += [start + i for i in lists[0]]
            res['bad'] += [start + i for i in lists[1]]
            res['nontrivial'] += [start + i for i in lists[2]]
    # keep the directory small: compiled cases are not needed afterwards (VERIF_KEEP_CASES=1 keeps the .v)
    exts = ('.vo', '.vok', '.vos', '.glob') + (() if os.environ.get('VERIF_KEEP_CASES') or res['errors'] else ('.v',))
    for _, path in files:
        base = path[:-2]
        for ext in exts:
            try:
                os.unlink(base + ext)
            except FileNotFoundError:
                pass
        try:
            os.unlink(os.path.join(os.path.dirname(path), '.' + os.path.basename(base) + '.aux'))
        except FileNotFoundError:
            pass
    return res


def coq_eval(header: str, exprs, name='eval_tmp', timeout=300):
    """Evaluate expressions with vm_compute, return Coq's printed text for each."""
    path = os.path.join(GEN, f'{name}_{os.getpid()}.v')
    with open(path, 'w') as f:
        f.write(header + '\n')
        for i, e in enumerate(exprs):
            f.write(f'Goal True. idtac "@@BEGIN {i}". exact I. Qed.\n')
            f.write(f'Eval vm_compute in ({e}).\n')
            f.write('Goal True. idtac "@@END". exact I. Qed.\n')
    rc, out = coqc_file(path, timeout=timeout)
    for ext in ('.v', '.vo', '.vok', '.vos', '.glob'):
        try:
            os.unlink(path[:-2] + ext)
        except FileNotFoundError:
            pass
    try:
        os.unlink(os.path.join(GEN, '.' + os.path.basename(path)[:-2] + '.aux'))
    except FileNotFoundError:
        pass
    if rc != 0:
        return None, out
    res = []
    for m in re.finditer(r'@@BEGIN (\d+)\n(.*?)@@END', out, re.S):
        res.append(re.sub(r'\s+', ' ', m.group(2)).strip())
    return res, out


# --------------------------------------------------------------------------
# Known findings, replays, evidence
# --------------------------------------------------------------------------

def known_findings(prop_id: str):
    """Lines 'known: property=<id> id=<K> signature=<sig> :: <text>' of known-findings.txt."""
    out = []
    try:
        for line in open(os.path.join(VERIF, 'known-findings.txt')):
            line = line.strip()
            m = re.match(r'known:\s+property=(\S+)\s+id=(\S+)\s+signature=(\S+)\s*::\s*(.*)', line)
            if m and m.group(1) == prop_id:
                out.append(dict(id=m.group(2), signature=m.group(3), text=m.group(4)))
    except FileNotFoundError:
        pass
    return out


def write_replay(prop_id: str, obj: dict) -> str:
    os.makedirs(REPLAYS, exist_ok=True)
    blob = json.dumps(obj, sort_keys=True, default=str)
    h = hashlib.sha1(blob.encode()).hexdigest()[:10]
    path = os.path.join(REPLAYS, f'{prop_id}-{h}.json')
    with open(path, 'w') as f:
        json.dump(obj, f, indent=1, sort_keys=True, default=str)
    return path


def write_evidence(prop_id: str, tier: str, seed: int, coverage: dict,
                   assumptions, wall_s: float, violations: int, level='proof'):
    os.makedirs(EVID, exist_ok=True)
    ev = dict(property_id=prop_id, tier=tier, seed=seed, level=level,
              coverage=coverage, assumptions=list(assumptions),
              wall_s=round(wall_s, 2), violations=violations)
    with open(os.path.join(EVID, f'{prop_id}.json'), 'w') as f:
        json.dump(ev, f, indent=1, default=str)
    return ev
