"""C17 driver: runs the REAL ensure_aw / run_aw_threadsafe / loop_in_thread of
aiuti.asyncio under the gated-thread controller (harness/gate.py).

One case = (mode, awaitable scripts+forms of 2..3 callers, schedule).  The run is
a pure function of the case.  The observation is the totally ordered log of
visible operations (one entry per gate passed / per event on the target loop)
plus the controller's verdict (ok / deadlock / steps) — see run_case().

Substituted from outside, restored afterwards:
  aiuti.asyncio._CROSS_LOOP_POOL        -> JExecutor   (pool jobs = managed threads)
  aiuti.asyncio.Lock                    -> TLock factory (gated, numbered)
  aiuti.asyncio.sleep                   -> yield gate
  aiuti.asyncio._LOOP_LOCKS             -> TTable      (dict, gated __getitem__)
  aiuti.asyncio._LOOP_LOCKS_CREATE_LOCK -> TLock #0
"""
from __future__ import annotations

import asyncio
import logging
import sys
import threading
import warnings

from . import gate

TICK = gate.TICK


def _quiet_unraisable(unraisable):
    """Coroutines the library created for a caller that never completed (K1 runs) are collected
    un-awaited when a worker process exits; that is not an error of the check."""


sys.unraisablehook = _quiet_unraisable
MODES = ('idle', 'forever', 'race', 'own', 'closed')
FORMS = ('coro', 'task', 'future')
DONE_FORMS = ('donefut', 'donetask')


class HExc(Exception):
    """Harness exception raised by a scripted awaitable (identity matters)."""

    def __init__(self, k):
        super().__init__(k)
        self.k = k


class HRtExc(RuntimeError):
    """Scripted exception that is an instance of a RuntimeError subclass (identity matters)."""

    def __init__(self, k):
        super().__init__(k)
        self.k = k


class HNiExc(NotImplementedError):
    """Scripted exception that is a NotImplementedError (identity matters)."""

    def __init__(self, k):
        super().__init__(k)
        self.k = k


HARNESS_EXC = (HExc, HRtExc, HNiExc)
RAISE_KINDS = {'raise': HExc, 'raise_rt': HRtExc, 'raise_ni': HNiExc}
_MISSING = object()


class Val:
    """Harness return value (identity matters)."""

    def __init__(self, k):
        self.k = k


class RT:
    """Per-case runtime context."""

    def __init__(self, ctl):
        self.ctl = ctl
        self.log = []            # [thread, op, *payload]  — totally ordered (one thread runs at a time)
        self.inside = []         # threads currently inside run_forever of the target
        self.nlocks = 0
        self.moves = 0           # number of log entries by anybody (for the yield gate)
        self.frozen = False
        self.nevents = 0
        self.tpos = 0            # position in ctl.trace up to which time jumps were copied to the log

    def ev(self, *e):
        if self.frozen:
            return               # the run is over (tear-down of aborted threads / GC of coroutines)
        self.flush_adv()
        self.log.append(list(e))

    def flush_adv(self):
        """Virtual-time jumps made by the controller since the last logged event
        become ['clk', 'adv', ticks] entries (in order)."""
        tr = self.ctl.trace
        while self.tpos < len(tr):
            a, b = tr[self.tpos]
            self.tpos += 1
            if a == 'adv':
                self.log.append(['clk', 'adv', int(b)])

    def me(self):
        return self.ctl.me() or 'main'


class TLock(gate.GLock):
    """Gated lock that logs acquire/release with its small integer identity."""

    def __init__(self, rt, lid):
        super().__init__(rt.ctl, name=f'lock{lid}')
        self.rt, self.lid = rt, lid

    def acquire(self, blocking=True, timeout=-1):
        r = super().acquire(blocking, timeout)
        if r:
            self.rt.ev(self.rt.me(), 'acq', self.lid)
        else:
            self.rt.ev(self.rt.me(), 'acqfail', self.lid)
        return r

    def release(self):
        super().release()
        self.rt.ev(self.rt.me(), 'rel', self.lid)


class TTable(dict):
    """The per-loop lock table: the (unlocked) read is a scheduling point."""
    rt = None

    def __getitem__(self, k):
        rt = self.rt
        rt.ctl.gate('tbl.get')
        try:
            v = dict.__getitem__(self, k)
        except KeyError:
            rt.ev(rt.me(), 'tbl', None)
            raise
        rt.ev(rt.me(), 'tbl', getattr(v, 'lid', 99))
        return v


class JExecutor(gate.GExecutor):
    """Pool whose worker threads are named after the submitting thread: j<name>."""

    def __init__(self, rt):
        super().__init__(ctl=rt.ctl)
        self.rt = rt

    def submit(self, fn, *a, **kw):
        ctl = self.ctl
        who = self.rt.me()
        fut = gate.GFuture()
        fut.ctl = ctl
        name = 'j' + who
        k = 0
        while name in ctl.th:
            k += 1
            name = f'j{who}_{k}'

        def body():
            if not fut.set_running_or_notify_cancel():
                return
            try:
                r = fn(*a, **kw)
            except BaseException as e:
                if isinstance(e, gate._Abort):
                    raise
                fut.set_exception(e)
            else:
                fut.set_result(r)
            self.rt.ev(name, 'jobend')
        rec = ctl.spawn(name, body)
        fut.worker = name
        self.futs.append((fut, rec))
        self.rt.ev(who, 'submit', name)
        return fut


def _from_aiuti(depth=2):
    f = sys._getframe(depth)
    return f.f_code.co_filename.replace('\\', '/').endswith('aiuti/asyncio.py')


class TLoop(gate.GVLoop):
    """The target loop: is_running (when asked by aiuti), call_soon_threadsafe
    (from a thread that is not running it) and every iteration are gates; entry
    to / exit from run_forever (run_until_complete goes through it) is logged
    and counted."""
    rt = None

    def _raw_running(self):
        return asyncio.BaseEventLoop.is_running(self)

    def is_running(self):
        rt = self.rt
        if rt is not None and rt.ctl.me() is not None and _from_aiuti():
            rt.ctl.gate('is_running')
            r = self._raw_running()
            rt.ev(rt.me(), 'chk', bool(r))
            return r
        return self._raw_running()

    def call_soon_threadsafe(self, callback, *args, context=None):
        rt = self.rt
        if rt is not None and rt.ctl.me() is not None and threading.get_ident() != self._thread_id:
            rt.ctl.gate('cst')
            rt.ev(rt.me(), 'cst')
        return super().call_soon_threadsafe(callback, *args, context=context)

    def raw_cst(self, cb, *args):
        return asyncio.BaseEventLoop.call_soon_threadsafe(self, cb, *args)

    def run_forever(self):
        rt = self.rt
        me = rt.me()
        if rt.ctl.me() is not None:
            rt.ctl.gate('enter')               # taking over the loop is a visible operation
        rt.ev(me, 'enter', len(rt.inside))     # payload: how many threads are already inside
        rt.inside.append(me)
        try:
            return super().run_forever()
        finally:
            rt.inside.remove(me)
            if not rt.ctl.aborting:
                rt.ev(me, 'exit')

    def _iter_enabled(self):
        if self._ready or self._stopping:
            return True
        if self._selector._peek():
            return True
        w = self._next_when()
        return w is not None and w <= self.ctl.vt + gate.EPS

    def _run_once(self):
        rt = self.rt
        if rt is not None and rt.ctl.me() is not None:
            rt.ctl.gate('iter', enabled=self._iter_enabled, when=self._next_when)
        return super()._run_once()


class CLoop(gate.GVLoop):
    """A caller's own loop: a wake-up from a foreign thread is logged as the
    delivery of that caller's result ('dlv')."""
    rt = None
    who = None

    def call_soon_threadsafe(self, callback, *args, context=None):
        rt = self.rt
        if rt is not None and rt.ctl.me() is not None and threading.get_ident() != self._thread_id:
            rt.ev(rt.me(), 'dlv', self.who)
        return super().call_soon_threadsafe(callback, *args, context=context)


def make_awaitable(rt, L, i, script, form, vals, excs):
    """script = [kind, d]: kind 'ret'|'raise', d in (None, 0, 5, 50) ticks of sleep
    before the outcome.  Logs 'start'/'fin' with (thread, on-target-loop?)."""
    kind, d = script

    async def co():
        rt.ev(rt.me(), 'start', i, asyncio.get_running_loop() is L)
        if d is not None:
            await asyncio.sleep(d * TICK)
        rt.ev(rt.me(), 'fin', i, asyncio.get_running_loop() is L)
        if kind in RAISE_KINDS:
            raise excs[i]
        return vals[i]

    if form in DONE_FORMS:
        # the awaitable is a future / task of L that is ALREADY completed before ensure_aw is called (with its
        # scripted value or stored exception); completed outside the observed run, so no start/fin entries.
        # Used in closed mode only (the model ignores the awaitable there): a closed target still raises RuntimeError.
        if form == 'donefut':
            f = L.create_future()
            if kind in RAISE_KINDS:
                f.set_exception(excs[i])
            else:
                f.set_result(vals[i])
            return f, None

        async def quick():
            if kind in RAISE_KINDS:
                raise excs[i]
            return vals[i]
        t = L.create_task(quick())
        was, rt.frozen = rt.frozen, True
        try:
            L.run_until_complete(t)
        except HARNESS_EXC:
            pass
        finally:
            rt.frozen = was
        return t, None
    if form == 'coro':
        return co(), None
    if form == 'task':
        t = L.create_task(co())
        return t, t
    fut = L.create_future()

    async def resolver():
        try:
            r = await co()
        except HARNESS_EXC as e:
            fut.set_exception(e)
        else:
            fut.set_result(r)
    t = L.create_task(resolver())
    return fut, t


def classify(i, vals, excs, r=None, e=None):
    if e is None:
        for k, v in enumerate(vals):
            if r is v:
                return ['ret', k]
        return ['ret', 99]
    for k, x in enumerate(excs):
        if e is x:
            return ['exc', k]
    if isinstance(e, HARNESS_EXC):
        return ['exc', 99]
    if isinstance(e, RuntimeError):
        return ['lib', 'RuntimeError']
    if isinstance(e, asyncio.CancelledError):
        return ['lib', 'Cancelled']
    return ['lib', 'Other']


class JFuture(gate.GFuture):
    rt = None

    def result(self, timeout=None):
        c = self.ctl
        if c is not None and c.me() is not None:
            if not self.done():
                c.gate('join', enabled=self.done)
            if _from_aiuti():
                self.rt.ev(self.rt.me(), 'join')
        return gate.cf.Future.result(self, timeout)


class WCtl(gate.Ctl):
    """Controller with a real-time watchdog: a managed thread that keeps the baton for
    more than `patience` seconds (it blocks in a primitive the harness does not gate) ends
    the run with the verdict 'hang' instead of hanging the check."""
    patience = 2.0

    def run(self):
        import time
        step = 0
        while True:
            with self.cv:
                t0 = time.monotonic()
                while self.turn is not None:
                    self.cv.wait(0.25)
                    if self.turn is not None and time.monotonic() - t0 > self.patience:
                        self.hung = self.turn
                        self.result = 'hang'
                        return self.result
                live = [n for n in self.order if self.th[n]['state'] != 'done']
                if not live:
                    self.result = 'ok'
                    return self.result
                en = [n for n in live if self.th[n]['enabled']()]
                if not en:
                    whens = [w for w in (self.th[n]['when']() for n in live if self.th[n]['when']) if w is not None]
                    if not whens:
                        self.result = 'deadlock'
                        return self.result
                    self.vt = max(self.vt, min(whens))
                    self.trace.append(('adv', self.ticks()))
                    continue
                if step >= self.max_steps:
                    self.result = 'steps'
                    return self.result
                n = self.chooser(step, en, self)
                if n not in en:
                    n = en[0]
                self.choices.append((list(en), n))
                self.trace.append((n, self.th[n]['op']))
                step += 1
                self.turn = n
                self.cv.notify_all()

    def abort(self):
        with self.cv:
            self.aborting = True
            self.cv.notify_all()
        for n in self.order:
            self.th[n]['thread'].join(0.05 if getattr(self, 'hung', None) else 2.0)


class GEvent:
    """threading.Event with gates (only used when the library under test has one)."""

    def __init__(self, rt):
        self.rt, self.flag = rt, False
        rt.nevents += 1
        self.eid = rt.nevents

    def is_set(self):
        return self.flag

    def set(self):
        self.rt.ctl.gate('ev.set')
        self.flag = True
        self.rt.ev(self.rt.me(), 'evset', self.eid)

    def clear(self):
        self.flag = False

    def wait(self, timeout=None):
        if not self.flag:
            self.rt.ctl.gate('ev.wait', enabled=lambda: self.flag)
        self.rt.ev(self.rt.me(), 'evwait', self.eid)
        return True


class XFuture(gate.cf.Future):
    """concurrent future returned by the substituted run_coroutine_threadsafe: a
    blocking .result()/.exception() from a managed thread is a gate (and is logged:
    the library never blocks on it — it goes through asyncio.wrap_future)."""
    rt = None

    def _block(self, what):
        rt = self.rt
        c = rt.ctl if rt is not None else None
        if c is not None and c.me() is not None and not self.done():
            rt.ev(rt.me(), 'block', what)
            c.gate('xres', enabled=self.done)

    def result(self, timeout=None):
        self._block('result')
        return gate.cf.Future.result(self, timeout)

    def exception(self, timeout=None):
        self._block('exception')
        return gate.cf.Future.exception(self, timeout)


def make_run_coro_ts(rt):
    """asyncio.run_coroutine_threadsafe (3.12) verbatim, except for the class of
    the concurrent future it returns."""
    from asyncio import coroutines, futures

    def run_coroutine_threadsafe(coro, loop):
        if not coroutines.iscoroutine(coro):
            raise TypeError('A coroutine object is required')
        future = XFuture()
        future.rt = rt

        def callback():
            try:
                futures._chain_future(asyncio.ensure_future(coro, loop=loop), future)
            except (SystemExit, KeyboardInterrupt):
                raise
            except BaseException as exc:
                if future.set_running_or_notify_cancel():
                    future.set_exception(exc)
                raise
        loop.call_soon_threadsafe(callback)
        return future
    return run_coroutine_threadsafe


_HANGS = [0]


def run_case(case, chooser=None, max_steps=1500):
    """Run one case on the real library.  Returns the observation dict."""
    if _HANGS[0] >= 3:       # this process already leaked blocked threads three times: do not pile up more
        return dict(res='hang', log=[], stuck=[], texc=[], sched=[], choices=[])
    import aiuti.asyncio as A
    logging.disable(logging.CRITICAL)
    warnings.simplefilter('ignore')
    mode, scripts, forms = case['mode'], case['scripts'], case['forms']
    n = len(scripts)
    ctl = WCtl(chooser or gate.schedule_chooser(case.get('sched', [])), max_steps=max_steps)
    rt = RT(ctl)
    L = TLoop(ctl)
    L.rt = rt
    loops = [L]
    vals = [Val(k) for k in range(n)]
    excs = [RAISE_KINDS.get(scripts[k][0], HExc)(k) for k in range(n)]
    # a module attribute the implementation no longer has is still substituted (and removed again
    # afterwards): the run then simply shows no operations on it, which the model does not accept
    saved = {k: getattr(A, k, _MISSING) for k in
             ('_CROSS_LOOP_POOL', 'Lock', 'sleep', '_LOOP_LOCKS', '_LOOP_LOCKS_CREATE_LOCK', 'run_coro_ts')}
    pool = JExecutor(rt)
    gate.GFuture, saved_gf = JFuture, gate.GFuture      # JExecutor.submit builds gate.GFuture()
    JFuture.rt = rt
    tbl = TTable()
    tbl.rt = rt

    def mklock():
        ctl.gate('mklock')            # creating + storing the lock is a visible operation of its own
        rt.nlocks += 1
        lk = TLock(rt, rt.nlocks)
        rt.ev(rt.me(), 'mklock', lk.lid)
        return lk

    def ysleep(dt):
        mark = len(ctl.trace)
        ctl.gate('sleep', enabled=lambda: len(ctl.trace) > mark)
        rt.ev(rt.me(), 'sleep')

    A._CROSS_LOOP_POOL = pool
    A.Lock = mklock
    A.sleep = ysleep
    A._LOOP_LOCKS = tbl
    A._LOOP_LOCKS_CREATE_LOCK = TLock(rt, 0)
    A.run_coro_ts = make_run_coro_ts(rt)
    if getattr(A, 'Event', None) is threading.Event:       # not in the unchanged library
        saved['Event'] = A.Event
        A.Event = lambda: GEvent(rt)
    flags = dict(lit=False, done=0, others=0)
    aws, coros = [], []
    try:
        for i in range(n):
            aw, bg = make_awaitable(rt, L, i, scripts[i], forms[i], vals, excs)
            aws.append(aw)
            if asyncio.iscoroutine(aw):
                coros.append(aw)
        if mode == 'closed':
            L.close()
        own_evt = {}

        def caller(i):
            name = f'c{i}'
            own = (mode == 'own' and i == 0)
            loop = L if own else CLoop(ctl)
            if not own:
                loop.rt, loop.who = rt, i
                loops.append(loop)

            async def main():
                if own:
                    own_evt['e'] = asyncio.Event()
                try:
                    r = await A.ensure_aw(aws[i], L)
                    out = classify(i, vals, excs, r=r)
                except BaseException as e:       # noqa
                    if isinstance(e, gate._Abort):
                        raise
                    out = classify(i, vals, excs, e=e)
                rt.ev(name, 'done', i, *out)
                flags['done'] += 1
                if own:
                    while flags['others'] < n - 1:
                        own_evt['e'].clear()
                        await own_evt['e'].wait()

            def body():
                if mode == 'forever':
                    ctl.gate('begin', enabled=lambda: flags['lit'])
                elif mode == 'own' and i > 0:
                    ctl.gate('begin', enabled=L._raw_running)
                rt.ev(name, 'begin')
                loop.run_until_complete(main())
                if mode == 'own' and i > 0:
                    flags['others'] += 1
                    try:
                        L.raw_cst(lambda: own_evt['e'].set())
                    except RuntimeError:
                        pass
            return body

        def quiescent():
            for nm in ctl.order:
                rec = ctl.th[nm]
                if nm == 'm' or rec['state'] == 'done':
                    continue
                if rec['enabled']():
                    return False
                w = rec['when']
                if w is not None and w() is not None:
                    return False
            return True

        def mgr():
            stop = A.loop_in_thread(L)
            rt.ev('m', 'litret', bool(L._raw_running()))
            flags['lit'] = True
            # the user of loop_in_thread stops the loop when every caller is done; in 'race'
            # mode also when the whole system is quiescent (nothing enabled, no timer): the
            # callers that saw the loop idle are then waiting for the per-loop lock the
            # forever-thread holds, and only stop() lets them go on
            ctl.gate('m.wait', enabled=lambda: flags['done'] >= n or (mode == 'race' and quiescent()))
            rt.ev('m', 'wait')
            stop()
            jdone = all(f.done() for f, _ in pool.futs if f.worker == 'jm')
            rt.ev('m', 'stopret', bool(L._raw_running()), bool(jdone))

        if mode in ('forever', 'race'):
            ctl.spawn('m', mgr)
        for i in range(n):
            ctl.spawn(f'c{i}', caller(i))
        res = ctl.run()
        rt.flush_adv()
        rt.frozen = True
        stuck = [[nm, op] for nm, op in ctl.stuck()] if res != 'ok' else []
        texc = [[nm, type(ctl.th[nm]['exc']).__name__] for nm in ctl.order if ctl.th[nm]['exc'] is not None]
        sched = [nm for nm, _ in ctl.trace if nm != 'adv']
        if res == 'hang':
            _HANGS[0] += 1
        if res != 'ok':
            ctl.abort()
    finally:
        for k, v in saved.items():
            if v is _MISSING:
                if hasattr(A, k):
                    delattr(A, k)
            else:
                setattr(A, k, v)
        gate.GFuture = saved_gf
        for c in coros:
            try:
                c.close()
            except Exception:
                pass
        for l in loops:
            try:
                l.rt = None
                l.close()
            except Exception:
                pass
    return dict(res=res, log=rt.log, stuck=stuck, texc=texc, sched=sched,
                choices=[[en, ch] for en, ch in ctl.choices])
