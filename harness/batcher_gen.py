"""Generators shared by the batcher properties C04, C09, C10, C11.

``Mirror`` is a light Python mirror of the batcher's enabledness (which batches
are live, which keys they still owe, which callers wait, which deadlines are
armed).  It is used ONLY to bias generation towards enabled, interesting events
(DESIGN §3.1 "Generators"); it never judges anything — the verdicts come from
Coq (model ``Batcher.v`` + monitors ``Case_Batcher.v``) on the real trace.
"""
from __future__ import annotations

import itertools
import random

from .batcher_drv import drain, n_calls, EMPTY_KEY


class Mirror:
    def __init__(self, cfg):
        self.cfg = cfg
        self.now = 0
        self.maxb = cfg['mbs']
        self.coll = None            # [items, deadline]
        self.waiting = []           # item lists
        self.running = {}           # bid -> dict(un=[keys], items=[(k, f)], futs={k: f})
        self.free = cfg['conc']
        self.nbid = 0
        self.nfut = 0
        self.ret = {}               # key -> fid
        self.fdone = {}             # fid -> tick
        self.rtimers = []           # (deadline, key)
        self.callers = []           # [key, fid, done, arg, key-or-None, more]
        self.recalls = []           # (fid, cid, arg, key-or-None, more) of callers resumed in this event
        self.ended = []             # bids that ended

    # -- internal -----------------------------------------------------------
    def _start(self, its):
        b = self.nbid
        self.nbid += 1
        futs = {}
        for k, f in its:
            futs[k] = f
        self.running[b] = dict(items=list(its), futs=futs)

    def _dispatch(self, its):
        if self.free > 0:
            self.free -= 1
            self._start(its)
        else:
            self.waiting.append(its)

    def _release(self):
        if self.waiting:
            self._start(self.waiting.pop(0))
        else:
            self.free += 1

    def _resolve(self, k, f):
        if f in self.fdone:
            return
        self.fdone[f] = self.now
        if self.cfg['rt'] > 0:
            self.rtimers.append((self.now + self.cfg['rt'], k))
        else:
            self.ret.pop(k, None)
        for i, c in enumerate(self.callers):
            if c[1] == f and not c[2]:
                c[2] = True
                if c[5] > 0:
                    self.recalls.append((f, i, c[3], c[4], c[5] - 1))

    def _do_recalls(self):
        rc = sorted(self.recalls, key=lambda r: (r[0], r[1]))
        self.recalls = []
        for _, _, a, ko, more in rc:
            self._chain(a, ko, more)

    def _chain(self, a, ko, more):
        while True:
            if not self._call(a, ko, more) or more <= 0:
                return
            more -= 1

    def _call(self, a, ko, more=0):
        """returns True when the call is answered at once"""
        k = a if ko is None else ko
        if k in self.ret:
            f = self.ret[k]
            self.callers.append([k, f, f in self.fdone, a, ko, more])
            return f in self.fdone
        f = self.nfut
        self.nfut += 1
        self.ret[k] = f
        self.callers.append([k, f, False, a, ko, more])
        its = (self.coll[0] if self.coll else []) + [(k, f)]
        if len(its) < self.maxb:
            self.coll = [its, self.now + self.cfg['bt']]
        else:
            self.coll = None
            self._dispatch(its)
        return False

    def _end(self, b):
        B = self.running.pop(b)
        self.ended.append(b)
        self._release()
        for k, f in B['futs'].items():
            self._resolve(k, f)
        self._do_recalls()

    def deadlines(self):
        d = [t for t, _ in self.rtimers]
        if self.coll:
            d.append(self.coll[1])
        return sorted(set(d))

    # -- events -------------------------------------------------------------
    def apply(self, ev):
        kind = ev[0]
        if kind == 'call':
            self._call(ev[1], ev[2])
        elif kind == 'chain':
            self._chain(ev[1], ev[2], ev[3])
        elif kind in ('burst', 'burstc'):
            first = len(self.callers)
            for a, k in ev[1]:
                self._call(a, k)
            if kind == 'burstc' and 0 <= first + ev[2] < len(self.callers):
                self.callers[first + ev[2]][2] = True
        elif kind == 'adv':
            target = self.now + ev[1]
            while True:
                ds = [d for d in self.deadlines() if d <= target]
                if not ds:
                    break
                t = ds[0]
                self.now = max(self.now, t)
                for dl, k in [x for x in self.rtimers if x[0] <= t]:
                    self.ret.pop(k, None)
                self.rtimers = [x for x in self.rtimers if x[0] > t]
                if self.coll and self.coll[1] <= t:
                    its = self.coll[0]
                    self.coll = None
                    self._dispatch(its)
            self.now = max(self.now, target)
        elif kind == 'yield':
            B = self.running.get(ev[1])
            if B is None:
                return
            if ev[2] in B['futs']:
                self._resolve(ev[2], B['futs'].pop(ev[2]))
                self._do_recalls()
            else:
                self._end(ev[1])
        elif kind in ('raise', 'fin'):
            if ev[1] in self.running:
                self._end(ev[1])
        elif kind == 'cancel':
            if 0 <= ev[1] < len(self.callers):
                self.callers[ev[1]][2] = True
        elif kind == 'setmax':
            self.maxb = ev[1]

    def live(self):
        return sorted(self.running)

    def waiting_callers(self):
        return [i for i, c in enumerate(self.callers) if not c[2]]

    def all_keys_of(self, b):
        return [k for k, _ in self.running[b]['items']]


def mk(cfg, evs):
    return dict(cfg=dict(cfg), evs=[list(e) for e in evs])


def finish_all(m, evs, rnd=None, style='fin'):
    """Append events that answer everything (used after the interesting part):
    let the open batch time out, then per live batch yield values for (some of)
    its keys and finish it; repeat while batches appear (slot hand-over)."""
    cfg = m.cfg
    evs = list(evs)

    def ap(e):
        evs.append(e)
        m.apply(e)
    ap(['adv', cfg['bt'] + 1])
    guard = 0
    while (m.live() or m.coll) and guard < 64:
        guard += 1
        if not m.live():
            ap(['adv', cfg['bt'] + 1])      # tasks that called again opened a new batch
            continue
        b = m.live()[0]
        keys = list(m.running[b]['futs'])
        if style == 'values':
            for k in keys:
                ap(['yield', b, k, 'v', 100 + k])
        elif style == 'mixed' and rnd is not None:
            rnd.shuffle(keys)
            for k in keys:
                r = rnd.random()
                if r < 0.6:
                    ap(['yield', b, k, 'v', rnd.randrange(4)])
                elif r < 0.8:
                    ap(['yield', b, k, 'e', rnd.randrange(3)])
        ap(['fin', b])
    return evs


# --------------------------------------------------------------------------
# bounded-exhaustive enumeration: DFS over an alphabet of enabled events
# --------------------------------------------------------------------------

def enum_programs(cfg, alphabet, depth, max_calls, finish='blind', limit=None):
    """All event lists of length <= depth over ``alphabet(mirror, evs)`` (a function
    returning the candidate next events), each completed by a drain suffix."""
    out = []

    def rec(m_evs):
        if limit is not None and len(out) >= limit:
            return
        m = Mirror(cfg)
        for e in m_evs:
            m.apply(e)
        if m_evs:
            if finish == 'blind':
                out.append(mk(cfg, m_evs + drain(m_evs, cfg['bt'])))
            else:
                out.append(mk(cfg, finish_all(m, m_evs, style=finish)))
        if len(m_evs) >= depth:
            return
        m = Mirror(cfg)
        for e in m_evs:
            m.apply(e)
        for e in alphabet(m, m_evs):
            if e[0] in ('call', 'burst', 'burstc', 'chain') and n_calls(m_evs) + n_calls([e]) > max_calls:
                continue
            rec(m_evs + [e])
    rec([])
    return out


# --------------------------------------------------------------------------
# seeded random programs
# --------------------------------------------------------------------------

def time_grid(m, rnd):
    cfg = m.cfg
    bt, rt = cfg['bt'], cfg['rt']
    grid = [1, bt - 1, bt, bt + 1, 2 * bt + 1, 3 * bt, max(1, bt // 2)]
    if rt > 0:
        grid += [rt - 1, rt, rt + 1, max(1, rt // 2)]
    # to just before / exactly at / just after an armed deadline
    for d in m.deadlines():
        gap = d - m.now
        grid += [g for g in (gap - 1, gap, gap + 1) if g >= 1]
    return max(1, rnd.choice(grid))


def rand_program(rnd, cfg, n_events, weights, keys=3, args=3, max_calls=10, distinct_keys=False):
    """Random program biased by the mirror.  weights: dict over
    call/chain/burst/adv/yield/raise/fin/cancel/setmax/junk."""
    m = Mirror(cfg)
    evs = []
    kinds = list(weights)
    ws = [weights[k] for k in kinds]
    ncalls = 0
    fresh = [0]

    def new_call():
        if distinct_keys:
            fresh[0] += 1
            return [10 + fresh[0], None] if rnd.random() < 0.5 else [rnd.randrange(args), 10 + fresh[0]]
        a = rnd.randrange(args)
        r = rnd.random()
        if r < 0.45:
            return [a, None]                      # default key str(arg)
        if r < 0.55:
            return [a, EMPTY_KEY]                 # explicit key '' (falsy; shared by all args that use it)
        return [a, rnd.randrange(keys)]           # explicit key (may equal another arg's default key)

    for _ in range(n_events):
        kind = rnd.choices(kinds, ws)[0]
        e = None
        if kind == 'call' and ncalls < max_calls:
            a, k = new_call()
            e = ['call', a, k]
            ncalls += 1
        elif kind == 'chain' and ncalls + 2 <= max_calls:
            a, k = new_call()
            more = rnd.randint(1, min(3, max_calls - ncalls - 1))
            e = ['chain', a, k, more]
            ncalls += 1 + more
        elif kind == 'burstc' and ncalls + 2 <= max_calls:
            # a burst larger than the batcher can have in flight, one of the late members cancelled at once
            n = rnd.randint(2, min(7, max_calls - ncalls))
            l = [new_call() for _ in range(n)]
            e = ['burstc', l, rnd.randrange(n) if rnd.random() < 0.4 else n - 1 - rnd.randrange(min(2, n))]
            ncalls += n
        elif kind == 'burst' and ncalls + 2 <= max_calls:
            n = rnd.randint(2, min(5, max_calls - ncalls))
            e = ['burst', [new_call() for _ in range(n)]]
            ncalls += n
        elif kind == 'adv':
            e = ['adv', time_grid(m, rnd)]
        elif kind in ('yield', 'raise', 'fin'):
            live = m.live()
            if live:
                b = rnd.choice(live)
                if kind == 'yield':
                    un = list(m.running[b]['futs'])
                    r = rnd.random()
                    if un and r < 0.8:
                        k = rnd.choice(un)
                    elif r < 0.9:
                        k = rnd.choice(m.all_keys_of(b))       # maybe already answered -> repeated
                    else:
                        k = rnd.randrange(keys + 2) + (50 if rnd.random() < 0.3 else 0)   # maybe unknown
                    if rnd.random() < 0.7:
                        e = ['yield', b, k, 'v', rnd.randrange(4)]
                    else:
                        e = ['yield', b, k, 'e', rnd.randrange(3)]
                elif kind == 'raise':
                    e = ['raise', b, rnd.randrange(3)]
                else:
                    e = ['fin', b]
        elif kind == 'cancel':
            w = m.waiting_callers()
            if w and rnd.random() < 0.85:
                e = ['cancel', rnd.choice(w)]
            elif m.callers:
                e = ['cancel', rnd.randrange(len(m.callers) + 1)]
        elif kind == 'setmax':
            e = ['setmax', rnd.randint(1, 5)]
        elif kind == 'junk':
            # events that are no-ops in the model: ended / unknown batches
            b = rnd.choice(m.ended) if m.ended and rnd.random() < 0.6 else m.nbid + rnd.randrange(3)
            e = rnd.choice([['fin', b], ['raise', b, 1], ['yield', b, rnd.randrange(keys), 'v', 1]])
        if e is None:
            continue
        nb0 = m.nbid
        evs.append(e)
        m.apply(e)
        if (cfg['conc'] == 1 and weights.get('raise') and e[0] in ('call', 'chain', 'burst', 'adv')
                and m.nbid == nb0 + 1 and rnd.random() < 0.12):
            # the batch that just started raises at once — synchronously when called, where that is observable
            # as the model's BRaise right after the start (see batcher_drv: ['raise', b, e, 'sync'])
            e2 = ['raise', nb0, rnd.randrange(3), 'sync']
            evs.append(e2)
            m.apply(e2)
    return m, evs


def rand_cfg(rnd, rts=(0, 0, 7, 40), deco_p=0.15, setmax=False):
    bt = rnd.choice([4, 10, 10, 16])
    cfg = dict(mbs=rnd.randint(1, 5), conc=rnd.randint(1, 3), bt=bt, rt=rnd.choice(rts),
               deco=(not setmax) and rnd.random() < deco_p)
    return cfg


def avoid_setmax_with_deco(case):
    if case['cfg'].get('deco') and any(e[0] == 'setmax' for e in case['evs']):
        case['cfg']['deco'] = False
    return case
