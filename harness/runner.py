"""Generic check skeleton (DESIGN.md §2.2): proofs, correspondence + monitors,
verdict, search / shrinking on a break, known findings, evidence."""
from __future__ import annotations

import importlib
import json
import multiprocessing as mp
import os
import random
import sys
import time
import traceback

from . import common as C


def _run_one(args):
    modname, case = args
    mod = importlib.import_module(modname)
    try:
        return mod.run_impl(case)
    except BaseException as e:  # harness must never die on a mutant
        return {'harness_error': ''.join(traceback.format_exception_only(type(e), e)).strip()[:500]}


def run_impl_many(mod, cases):
    if not cases:
        return []
    par = getattr(mod, 'PARALLEL', 0)
    if par and len(cases) > 8:
        ctx = mp.get_context('fork')
        with ctx.Pool(min(C.NPROC, par), maxtasksperchild=getattr(mod, 'TASKS_PER_CHILD', None)) as pool:
            return pool.map(_run_one, [(mod.__name__, c) for c in cases],
                            chunksize=max(1, min(64, len(cases) // (4 * C.NPROC) or 1)))
    return [_run_one((mod.__name__, c)) for c in cases]


def evaluate(mod, cases, tag=''):
    """Run impl on every case, then model + monitor in Coq.
    Returns (observations, result dict from run_cases)."""
    obs = run_impl_many(mod, cases)
    lits, herr = [], []
    for i, (c, o) in enumerate(zip(cases, obs)):
        if isinstance(o, dict) and 'harness_error' in o:
            herr.append(i)
            lits.append(mod.to_coq(c, mod.error_obs(c, o)) if hasattr(mod, 'error_obs') else None)
        else:
            lits.append(mod.to_coq(c, o))
    keep = [i for i, l in enumerate(lits) if l is not None]
    res = C.run_cases(mod.PROP, mod.HEADER, mod.CASE_TYPE, mod.VERDICT,
                      [lits[i] for i in keep], chunk=getattr(mod, 'CHUNK', 400), tag=tag)
    for k in ('mismatch', 'bad', 'nontrivial'):
        res[k] = sorted(keep[i] for i in res[k])
    res['harness_errors'] = herr
    return obs, res


def shrink(mod, case, want='bad', max_rounds=40):
    """Greedy batch delta-debugging: keep the first smaller case that still
    shows the same kind of failure (monitor rejection / model mismatch)."""
    if not hasattr(mod, 'shrink_candidates'):
        return case
    cur = case
    for _ in range(max_rounds):
        cands = mod.shrink_candidates(cur)
        if not cands:
            break
        cands = cands[:200]
        obs, res = evaluate(mod, cands, tag='_shr')
        hits = res[want]
        if not hits:
            break
        cur = cands[hits[0]]
    return cur


def main(modname: str, argv=None):
    import argparse
    ap = argparse.ArgumentParser()
    ap.add_argument('--tier', default=os.environ.get('VERIF_TIER', 'quick'),
                    choices=['quick', 'thorough'])
    ap.add_argument('--replay', default=None)
    args = ap.parse_args(argv)
    seed = int(os.environ.get('VERIF_SEED', '0') or 0)
    mod = importlib.import_module(modname)
    if args.replay:
        return replay(mod, args.replay)
    return run_check(mod, args.tier, seed)


def replay(mod, path):
    rp = json.load(open(path))
    case = rp.get('case')
    if case is None:
        print(json.dumps(rp, indent=1))
        return 1
    ok, out = C.coq_make(mod.MODEL_TARGETS)
    if not ok:
        print(out[-3000:])
        return 1
    obs, res = evaluate(mod, [case], tag='_rp')
    print('case      :', json.dumps(case))
    print('impl trace:', json.dumps(obs[0]))
    if hasattr(mod, 'explain_exprs'):
        txt, _ = C.coq_eval(mod.HEADER, mod.explain_exprs(case, obs[0]), name='explain')
        print('model     :', txt)
    print('model==impl:', not res['mismatch'], ' monitor accepts impl trace:', not res['bad'])
    return 1 if (res['bad'] or res['mismatch']) else 0


def run_check(mod, tier: str, seed: int) -> int:
    t0 = time.time()
    P = mod.PROP
    os.environ.setdefault(C.GUARD, '1')
    props_file = os.path.join(C.COQ, 'props', f'{mod.PROPS_MODULE}.v')
    notes = []

    # 0. translator (regenerates coq/gen/T_*.v from /repo's source)
    if hasattr(mod, 'translate'):
        mod.translate()

    # 1. proof obligations
    theorems = C.theorems_of(props_file)
    bad_hyg = C.hygiene([f'props/{mod.PROPS_MODULE}.v'] + [t[:-1] for t in mod.MODEL_TARGETS])
    if tier == 'thorough':
        # rebuild the property's own files from scratch
        for f in getattr(mod, 'CLEAN_FOR_THOROUGH', []) + [f'props/{mod.PROPS_MODULE}.vo']:
            try:
                os.unlink(os.path.join(C.COQ, f))
            except FileNotFoundError:
                pass
    ok_model, out_model = C.coq_make(mod.MODEL_TARGETS)
    ok_proof, out_proof = C.coq_make([f'props/{mod.PROPS_MODULE}.vo'])
    assm, assm_out = ({}, '')
    if ok_proof:
        assm, assm_out = C.print_assumptions(P, mod.PROPS_MODULE, theorems)
        if assm is None:
            ok_proof, out_proof, assm = False, assm_out, {}
    allowed = set(getattr(mod, 'ALLOWED_AXIOMS', []))
    axioms = sorted({a for v in assm.values() if v != 'closed' for a in v})
    bad_axioms = [a for a in axioms if a not in allowed]
    discharged = len([t for t in theorems if t in assm]) if ok_proof else 0
    proof_broken = (not ok_proof) or bool(bad_hyg) or bool(bad_axioms)
    proof_error = None
    if not ok_proof:
        proof_error = out_proof[-3000:]
    elif bad_hyg:
        proof_error = f'forbidden constructs: {bad_hyg}'
    elif bad_axioms:
        proof_error = f'axioms outside the allowed list: {bad_axioms}'

    # 2. correspondence + monitors
    cases, layers = [], {}
    gen_errors = []
    if ok_model:
        for name, fn in (('corpus', getattr(mod, 'corpus', None)),
                         ('exhaustive', getattr(mod, 'gen_exhaustive', None)),
                         ('random', getattr(mod, 'gen_random', None))):
            if fn is None:
                continue
            try:
                cs = fn(tier, seed) if name != 'corpus' else fn()
            except BaseException as e:          # a generator that drives the real code (schedule DFS) died:
                gen_errors.append((name, ''.join(traceback.format_exception(type(e), e, e.__traceback__))[-2500:]))
                cs = []                          # the implementation cannot be driven -> reported below, never a crash
            layers[name] = len(cs)
            cases += cs
        obs, res = evaluate(mod, cases)
        for name, tb in gen_errors:
            res['errors'].append((f'generator {name} could not drive the implementation', tb))
    else:
        obs, res = [], dict(mismatch=[], bad=[], nontrivial=[], errors=[('model build', out_model[-3000:])], harness_errors=[], files=0)

    violations = []      # (kind, case, obs, extra)
    known_printed = []
    exit_code = 0

    def classify(case, ob, kind, extra=None):
        """Returns True if this is an unlisted violation."""
        sig = mod.signature(case, ob) if hasattr(mod, 'signature') else None
        for k in C.known_findings(P):
            if sig is not None and sig == k['signature']:
                line = f"KNOWN-FINDING: property={P} {k['id']} {k['text']}"
                if line not in known_printed:
                    known_printed.append(line)
                    print(line)
                return False
        return True

    def report(case, ob, kind, extra=None, nofail=False):
        rp = dict(property=P, kind=kind, tier=tier, seed=seed, case=case, impl_trace=ob,
                  replay_cmd=f'./check {P} --replay <this file>')
        if extra:
            rp.update(extra)
        if hasattr(mod, 'explain_exprs') and case is not None and ok_model:
            try:
                txt, _ = C.coq_eval(mod.HEADER, mod.explain_exprs(case, ob), name='explain')
                rp['model_trace'] = txt
            except Exception as e:  # pragma: no cover
                rp['model_trace'] = f'<unavailable: {e}>'
        path = C.write_replay(P, rp)
        print(f'VIOLATION property={P} replay={path}' + (' no-failing-input-found' if nofail else ''))

    n_viol = 0
    if res['bad']:
        # a. an observed trace violates the property
        fresh = [i for i in res['bad'] if classify(cases[i], obs[i], 'monitor')]
        if fresh:
            i = fresh[0]
            small = shrink(mod, cases[i], 'bad')
            so, _ = evaluate(mod, [small], tag='_rp')
            report(small, so[0], 'monitor rejects the implementation trace',
                   dict(original_case=cases[i], failing_cases=len(res['bad'])))
            n_viol = len(fresh)
            exit_code = 1
    if exit_code == 0 and (res['mismatch'] or proof_broken or res['errors'] or res['harness_errors']):
        # b. directed search with the monitor as oracle
        found = None
        if ok_model and hasattr(mod, 'gen_search'):
            try:
                scs = mod.gen_search(tier, seed)
            except BaseException as e:
                scs = []
                res['errors'].append(('generator search could not drive the implementation',
                                      ''.join(traceback.format_exception_only(type(e), e))[-1500:]))
            sobs, sres = evaluate(mod, scs, tag='_srch')
            fresh = [i for i in sres['bad'] if classify(scs[i], sobs[i], 'monitor')]
            if fresh:
                found = (scs[fresh[0]], len(fresh))
        if found:
            small = shrink(mod, found[0], 'bad')
            so, _ = evaluate(mod, [small], tag='_rp')
            report(small, so[0], 'monitor rejects the implementation trace (found by directed search)',
                   dict(original_case=found[0], proof_error=proof_error))
            n_viol = found[1]
        else:
            # c. nothing found: name what no longer checks
            if res['mismatch']:
                i = res['mismatch'][0]
                small = shrink(mod, cases[i], 'mismatch')
                so, _ = evaluate(mod, [small], tag='_rp')
                report(small, so[0], 'correspondence: model trace <> implementation trace (monitor accepts both)',
                       dict(broken='correspondence ' + mod.VERDICT, mismatching_cases=len(res['mismatch']),
                            proof_error=proof_error), nofail=True)
            elif res['harness_errors']:
                i = res['harness_errors'][0]
                report(cases[i], obs[i], 'harness could not run the implementation on this case',
                       dict(broken='correspondence ' + mod.VERDICT), nofail=True)
            elif res['errors']:
                report(None, None, 'correspondence could not be evaluated',
                       dict(broken='correspondence ' + mod.VERDICT, coq_error=res['errors'][0][1]), nofail=True)
            else:
                report(None, None, 'proof obligation no longer checks',
                       dict(broken=f'props/{mod.PROPS_MODULE}.v', theorems=theorems,
                            proof_error=proof_error), nofail=True)
            n_viol = 1
        exit_code = 1

    # 3. evidence
    nontriv = res['nontrivial']
    distinct = len({json.dumps([cases[i], obs[i]], sort_keys=True, default=str) for i in nontriv})
    rnd = random.Random(seed)
    sample_idx = sorted(rnd.sample(nontriv, min(3, len(nontriv)))) if nontriv else list(range(min(3, len(cases))))
    coverage = dict(
        obligations=len(theorems), discharged=discharged,
        checker_cmd=f'make -C coq props/{mod.PROPS_MODULE}.vo (coqc 8.16.1, full .vo build) + Print Assumptions on each theorem',
        theorems=theorems,
        print_assumptions=assm,
        trusted_base=['Coq 8.16.1 kernel + vm_compute (no native_compute)',
                      'axioms: ' + (', '.join(axioms) if axioms else 'none (all theorems closed under the global context)')]
                     + list(getattr(mod, 'TRUSTED', [])),
        evaluations=len(cases),
        traces_validated_against_impl=len(cases) - len(res['mismatch']) - len(res['harness_errors']),
        model_impl_mismatches=len(res['mismatch']),
        monitor_rejections=len(res['bad']),
        distinct_nontrivial=distinct,
        rule=mod.RULE,
        layers=layers,
        exhaustive=bool(getattr(mod, 'EXHAUSTIVE_NOTE', None)),
        exhaustive_note=getattr(mod, 'EXHAUSTIVE_NOTE', None),
        samples=[dict(case=cases[i], impl_trace=obs[i]) for i in sample_idx],
        distribution=mod.distribution(cases, obs) if hasattr(mod, 'distribution') else {},
        coq_case_files=res.get('files', 0),
        known_findings_reported=list(known_printed),
    )
    if tier == 'thorough' and ok_proof:
        import subprocess
        cmd = ['timeout', '900', 'coqchk', '-silent', '-o'] + C.COQ_FLAGS + [f'AiutiProps.{mod.PROPS_MODULE}']
        pr = subprocess.run(cmd, cwd=C.COQ, stdout=subprocess.PIPE, stderr=subprocess.STDOUT, text=True)
        txt = pr.stdout
        i = txt.find('CONTEXT SUMMARY')
        coverage['coqchk'] = dict(cmd=' '.join(cmd), exit=pr.returncode,
                                  summary=(txt[i:] if i >= 0 else txt[-1500:])[:3000])
        if pr.returncode != 0:
            notes.append('coqchk failed')
    if hasattr(mod, 'extra_coverage'):
        coverage.update(mod.extra_coverage())
    C.write_evidence(P, tier, seed, coverage, getattr(mod, 'ASSUMPTIONS', []),
                     time.time() - t0, n_viol)
    C.log(f'[{P}] tier={tier} theorems={discharged}/{len(theorems)} cases={len(cases)} '
          f'mismatch={len(res["mismatch"])} bad={len(res["bad"])} nontrivial={distinct} '
          f'wall={time.time() - t0:.1f}s exit={exit_code}')
    return exit_code
