"""Fail-closed Python-ast -> Gallina translator for the syntactic facts of C14
(DESIGN.md §3.2): the expression that builds the cache key of
``threadsafe_async_cache`` (aiuti/asyncio.py, ``key = args, frozenset(kwargs.items())``)
and the statement that selects the store (``_cache = cache if cache is not None else {}``).

Output: coq/gen/T_KeyExpr.v, regenerated on every run from the CURRENT source of
``common.REPO`` and content-compared (``common.write_if_changed``).

Only the node shapes listed here are understood.  Anything else makes the
corresponding plain definition (``key_expr`` / ``cache_init``) disappear from
the generated file (``translation_failed`` is defined instead and the ``_opt``
variant is ``None``), so that props/C14.v no longer compiles and the
correspondence of Case_C14.v reports a mismatch on every case, which sends the
runner into its behavioural search.
"""
from __future__ import annotations

import ast
import os

from . import common as C

OUT = os.path.join(C.GEN, 'T_KeyExpr.v')
FUNC = 'threadsafe_async_cache'


class Unsupported(Exception):
    pass


def _source():
    with open(os.path.join(C.REPO, 'aiuti', 'asyncio.py')) as f:
        return f.read()


def _public_def(tree, name):
    """The implementation (last, non-@overload) module-level def of ``name``."""
    defs = [n for n in tree.body if isinstance(n, ast.FunctionDef) and n.name == name
            and not any(isinstance(d, ast.Name) and d.id == 'overload' for d in n.decorator_list)]
    if len(defs) != 1:
        raise Unsupported(f'{len(defs)} implementations of {name}')
    return defs[0]


def _is_name(n, ident=None):
    return isinstance(n, ast.Name) and (ident is None or n.id == ident)


def _is_none(n):
    return isinstance(n, ast.Constant) and n.value is None


def _is_empty_dict(n):
    return ((isinstance(n, ast.Dict) and not n.keys)
            or (isinstance(n, ast.Call) and _is_name(n.func, 'dict') and not n.args and not n.keywords))


def cache_init(fn):
    """(store variable name, 'IfNotNone' | 'IfTruthy') from the one statement of
    the decorator body (outside the wrapper) that reads the ``cache`` parameter
    into a variable."""
    kwonly = [a.arg for a in fn.args.kwonlyargs]
    if 'cache' not in kwonly:
        raise Unsupported('no keyword-only parameter "cache"')
    found = []
    for st in fn.body:
        if isinstance(st, (ast.FunctionDef, ast.AsyncFunctionDef, ast.If, ast.Return, ast.Expr, ast.Delete)):
            # the `func is None` branch only re-binds (checked by C15); docstring; del
            continue
        if isinstance(st, ast.AnnAssign) and st.value is not None:
            tgt, val = st.target, st.value
        elif isinstance(st, ast.Assign) and len(st.targets) == 1:
            tgt, val = st.targets[0], st.value
        else:
            raise Unsupported(f'statement shape {type(st).__name__} at line {st.lineno}')
        if any(_is_name(n, 'cache') for n in ast.walk(val)):
            found.append((tgt, val))
    if len(found) != 1:
        raise Unsupported(f'{len(found)} statements read the cache parameter')
    tgt, val = found[0]
    if not _is_name(tgt):
        raise Unsupported('store target is not a plain name')
    mode = None
    if isinstance(val, ast.IfExp) and isinstance(val.test, ast.Compare) and len(val.test.ops) == 1 \
            and _is_name(val.test.left, 'cache') and _is_none(val.test.comparators[0]):
        op = val.test.ops[0]
        if isinstance(op, ast.IsNot) and _is_name(val.body, 'cache') and _is_empty_dict(val.orelse):
            mode = 'IfNotNone'
        elif isinstance(op, ast.Is) and _is_empty_dict(val.body) and _is_name(val.orelse, 'cache'):
            mode = 'IfNotNone'
    elif isinstance(val, ast.BoolOp) and isinstance(val.op, ast.Or) and len(val.values) == 2 \
            and _is_name(val.values[0], 'cache') and _is_empty_dict(val.values[1]):
        mode = 'IfTruthy'
    if mode is None:
        raise Unsupported(f'store selection expression at line {val.lineno}: {ast.dump(val)[:200]}')
    return tgt.id, mode


def key_expr(fn, store_name):
    """The key expression as a list of (wrap, iter) components."""
    wrappers = [n for n in fn.body if isinstance(n, ast.AsyncFunctionDef)]
    if len(wrappers) != 1:
        raise Unsupported(f'{len(wrappers)} async wrappers')
    w = wrappers[0]
    a = w.args
    if a.posonlyargs or a.args or a.kwonlyargs or a.vararg is None or a.kwarg is None:
        raise Unsupported('wrapper signature is not (*args, **kwargs)')
    args_name, kwargs_name = a.vararg.arg, a.kwarg.arg
    # the variable(s) used to index the store
    idx = set()
    for n in ast.walk(w):
        if isinstance(n, ast.Subscript) and _is_name(n.value, store_name):
            if not _is_name(n.slice):
                raise Unsupported(f'store indexed by a non-name at line {n.lineno}')
            idx.add(n.slice.id)
    if len(idx) != 1:
        raise Unsupported(f'store indexed by {sorted(idx)}')
    key_name = idx.pop()
    assigns = []
    for n in ast.walk(w):
        tgts = []
        if isinstance(n, ast.Assign):
            tgts = n.targets
        elif isinstance(n, (ast.AnnAssign, ast.AugAssign)):
            tgts = [n.target]
        elif isinstance(n, ast.NamedExpr):
            tgts = [n.target]
        elif isinstance(n, (ast.For, ast.AsyncFor)):
            tgts = [n.target]
        elif isinstance(n, (ast.With, ast.AsyncWith)):
            tgts = [i.optional_vars for i in n.items if i.optional_vars is not None]
        for t in tgts:
            if any(_is_name(x, key_name) and isinstance(x.ctx, (ast.Store, ast.Del)) for x in ast.walk(t)):
                assigns.append(n)
    if len(assigns) != 1 or not isinstance(assigns[0], ast.Assign) or len(assigns[0].targets) != 1 \
            or not _is_name(assigns[0].targets[0], key_name):
        raise Unsupported(f'{len(assigns)} bindings of the key variable {key_name}')
    # the arguments must not be re-bound either
    for n in ast.walk(w):
        if isinstance(n, ast.Name) and isinstance(n.ctx, (ast.Store, ast.Del)) and n.id in (args_name, kwargs_name):
            raise Unsupported(f'{n.id} is re-bound at line {n.lineno}')
    val = assigns[0].value

    def iterable(n):
        if _is_name(n, args_name):
            return 'IArgs'
        if isinstance(n, ast.Call) and isinstance(n.func, ast.Attribute) and n.func.attr == 'items' \
                and _is_name(n.func.value, kwargs_name) and not n.args and not n.keywords:
            return 'IKwItems'
        raise Unsupported(f'iterable shape at line {n.lineno}: {ast.dump(n)[:120]}')

    def comp(n):
        if _is_name(n, args_name):
            return ('WTuple', 'IArgs')
        if isinstance(n, ast.Call) and isinstance(n.func, ast.Name) and n.func.id in ('tuple', 'frozenset') \
                and len(n.args) == 1 and not n.keywords:
            return ('WTuple' if n.func.id == 'tuple' else 'WFrozenset', iterable(n.args[0]))
        raise Unsupported(f'key component shape at line {n.lineno}: {ast.dump(n)[:120]}')

    if isinstance(val, ast.Tuple):
        if not val.elts:
            raise Unsupported('empty key tuple')
        return [comp(x) for x in val.elts]
    return [comp(val)]


def facts():
    """Returns dict(key_expr=[...] | None, cache_init=str | None, errors=[...])."""
    out = dict(key_expr=None, cache_init=None, store=None, errors=[])
    try:
        tree = ast.parse(_source())
        fn = _public_def(tree, FUNC)
    except (Unsupported, SyntaxError, OSError) as e:
        out['errors'].append(f'source: {e}')
        return out
    try:
        out['store'], out['cache_init'] = cache_init(fn)
    except Unsupported as e:
        out['errors'].append(f'cache_init: {e}')
    if out['store'] is not None:
        try:
            out['key_expr'] = key_expr(fn, out['store'])
        except Unsupported as e:
            out['errors'].append(f'key_expr: {e}')
    else:
        out['errors'].append('key_expr: store variable unknown')
    return out


def render(f):
    L = ['(* GENERATED by harness/c14_translate.py from aiuti/asyncio.py (threadsafe_async_cache).',
         '   Regenerated on every run; do not edit. *)',
         'From Coq Require Import List.', 'Import ListNotations.', 'Require Import Aiuti.Keys.', '']
    for e in f['errors']:
        L.append('(* untranslatable: ' + e.replace('(*', '( *').replace('*)', '* )') + ' *)')
    if f['errors']:
        L.append('Definition translation_failed := tt.')
    if f['key_expr'] is not None:
        comps = '; '.join(f'({w}, {i})' for w, i in f['key_expr'])
        L.append(f'Definition key_expr : kexpr := [{comps}].')
        L.append('Definition key_expr_opt : option kexpr := Some key_expr.')
    else:
        L.append('Definition key_expr_opt : option kexpr := None.')
    if f['cache_init'] is not None:
        L.append(f'Definition cache_init : cache_init_mode := {f["cache_init"]}.')
        L.append('Definition cache_init_opt : option cache_init_mode := Some cache_init.')
    else:
        L.append('Definition cache_init_opt : option cache_init_mode := None.')
    return '\n'.join(L) + '\n'


def translate():
    f = facts()
    C.write_if_changed(OUT, render(f))
    return f


if __name__ == '__main__':
    print(render(facts()))
