"""Fail-closed Python-ast -> Gallina translator for the syntactic facts of C14
(DESIGN.md §3.2): the expression that builds the cache key of
``threadsafe_async_cache`` (aiuti/asyncio.py, ``key = args, frozenset(kwargs.items())``)
and the statement that selects the store (``_cache = cache if cache is not None else {}``).

Output: coq/gen/T_KeyExpr.v, regenerated on every run from the CURRENT source of
``common.REPO`` and content-compared (``common.write_if_changed``).

Only the node shapes listed here are understood.  Anything else makes the
corresponding plain definition (``key_expr`` / ``cache_init``) disappear from
the generated file (``translation_failed`` is defined instead and the ``_opt``
variant is ``None``), so that props/C14.v no longer compiles and the
correspondence of Case_C14.v reports a mismatch on every case, which sends the
runner into its behavioural search.
"""
from __future__ import annotations

import ast
import os

from . import common as C

OUT = os.path.join(C.GEN, 'T_KeyExpr.v')
FUNC = 'threadsafe_async_cache'


class Unsupported(Exception):
    pass


def _source():
    with open(os.path.join(C.REPO, 'aiuti', 'asyncio.py')) as f:
        return f.read()


def _public_def(tree, name):
    """The implementation (last, non-@overload) module-level def of ``name``."""
    defs = [n for n in tree.body if isinstance(n, ast.FunctionDef) and n.name == name
            and not any(isinstance(d, ast.Name) and d.id == 'overload' for d in n.decorator_list)]
    if len(defs) != 1:
        raise Unsupported(f'{len(defs)} implementations of {name}')
    return defs[0]


def _is_name(n, ident=None):
    return isinstance(n, ast.Name) and (ident is None or n.id == ident)


def _is_none(n):
    return isinstance(n, ast.Constant) and n.value is None


def _is_empty_dict(n):
    return ((isinstance(n, ast.Dict) and not n.keys)
            or (isinstance(n, ast.Call) and _is_name(n.func, 'dict') and not n.args and not n.keywords))


def _none_test(t, ident):
    """'is_none' / 'is_not_none' when ``t`` tests the name ``ident`` against None by identity
    (either operand order, any number of enclosing ``not``), 'truthy' / 'falsy' for the bare
    name under ``not``s, else None.  `is` is symmetric and cannot be overloaded, `not` of a
    bool is plain negation: these spellings denote the same test."""
    neg = False
    while isinstance(t, ast.UnaryOp) and isinstance(t.op, ast.Not):
        neg, t = not neg, t.operand
    if _is_name(t, ident):
        return 'falsy' if neg else 'truthy'
    if isinstance(t, ast.Compare) and len(t.ops) == 1 and isinstance(t.ops[0], (ast.Is, ast.IsNot)):
        a, b = t.left, t.comparators[0]
        if (_is_name(a, ident) and _is_none(b)) or (_is_none(a) and _is_name(b, ident)):
            is_none = isinstance(t.ops[0], ast.Is) != neg
            return 'is_none' if is_none else 'is_not_none'
    return None


def _store_mode(val):
    """'IfNotNone' | 'IfTruthy' | None for the expression that selects the store."""
    if isinstance(val, ast.IfExp):
        t = _none_test(val.test, 'cache')
        keep_then = _is_name(val.body, 'cache') and _is_empty_dict(val.orelse)     # cache if T else {}
        keep_else = _is_empty_dict(val.body) and _is_name(val.orelse, 'cache')     # {} if T else cache
        if (t == 'is_not_none' and keep_then) or (t == 'is_none' and keep_else):
            return 'IfNotNone'
        if (t == 'truthy' and keep_then) or (t == 'falsy' and keep_else):
            return 'IfTruthy'
        return None
    if isinstance(val, ast.BoolOp) and isinstance(val.op, ast.Or) and len(val.values) == 2 \
            and _is_name(val.values[0], 'cache') and _is_empty_dict(val.values[1]):
        return 'IfTruthy'
    return None


def cache_init(fn):
    """(store variable name, 'IfNotNone' | 'IfTruthy') from the one statement of
    the decorator body (outside the wrapper) that reads the ``cache`` parameter
    into a variable.  That variable must be bound exactly once in the whole
    function and the parameter itself must never be re-bound (so that the
    translated statement alone decides which mapping is the store)."""
    kwonly = [a.arg for a in fn.args.kwonlyargs]
    if 'cache' not in kwonly:
        raise Unsupported('no keyword-only parameter "cache"')
    found = []
    for pos, st in enumerate(fn.body):
        if isinstance(st, (ast.FunctionDef, ast.AsyncFunctionDef, ast.If, ast.Return, ast.Expr, ast.Delete)):
            # the `func is None` branch only re-binds (checked by C15); docstring; del
            continue
        if isinstance(st, ast.AnnAssign) and st.value is not None:
            tgt, val = st.target, st.value
        elif isinstance(st, ast.Assign) and len(st.targets) == 1:
            tgt, val = st.targets[0], st.value
        else:
            raise Unsupported(f'statement shape {type(st).__name__} at line {st.lineno}')
        if any(_is_name(n, 'cache') for n in ast.walk(val)):
            found.append((pos, tgt, val))
    if len(found) != 1:
        raise Unsupported(f'{len(found)} statements read the cache parameter')
    pos, tgt, val = found[0]
    if not _is_name(tgt):
        raise Unsupported('store target is not a plain name')
    mode = _store_mode(val)
    if mode is None:
        raise Unsupported(f'store selection expression at line {val.lineno}: {ast.dump(val)[:200]}')
    # nothing else may decide the store: the parameter is never re-bound (a `del cache` after the
    # statement is fine), the store variable is bound by that statement only, no nonlocal/global
    later_dels = {id(n) for st in fn.body[pos + 1:] if isinstance(st, ast.Delete) for n in st.targets}
    for n in ast.walk(fn):
        if isinstance(n, (ast.Nonlocal, ast.Global)):
            raise Unsupported(f'nonlocal/global at line {n.lineno}')
        if isinstance(n, ast.Name) and isinstance(n.ctx, (ast.Store, ast.Del)):
            if n.id == 'cache' and not (isinstance(n.ctx, ast.Del) and id(n) in later_dels):
                raise Unsupported(f'the cache parameter is re-bound at line {n.lineno}')
            if n.id == tgt.id and n is not tgt:
                raise Unsupported(f'the store variable {tgt.id} is re-bound at line {n.lineno}')
        if isinstance(n, ast.arg) and n is not fn.args.kwonlyargs[kwonly.index('cache')] \
                and n.arg in ('cache', tgt.id):
            raise Unsupported(f'{n.arg} is shadowed by a parameter at line {n.lineno}')
    return tgt.id, mode


def key_expr(fn, store_name):
    """The key expression as a list of (wrap, iter) components."""
    wrappers = [n for n in fn.body if isinstance(n, ast.AsyncFunctionDef)]
    if len(wrappers) != 1:
        raise Unsupported(f'{len(wrappers)} async wrappers')
    w = wrappers[0]
    a = w.args
    if a.posonlyargs or a.args or a.kwonlyargs or a.vararg is None or a.kwarg is None:
        raise Unsupported('wrapper signature is not (*args, **kwargs)')
    args_name, kwargs_name = a.vararg.arg, a.kwarg.arg
    # the variable(s) used to index the store
    idx = set()
    for n in ast.walk(w):
        if isinstance(n, ast.Subscript) and _is_name(n.value, store_name):
            if not _is_name(n.slice):
                raise Unsupported(f'store indexed by a non-name at line {n.lineno}')
            idx.add(n.slice.id)
    if len(idx) != 1:
        raise Unsupported(f'store indexed by {sorted(idx)}')
    key_name = idx.pop()
    assigns = []
    for n in ast.walk(w):
        tgts = []
        if isinstance(n, ast.Assign):
            tgts = n.targets
        elif isinstance(n, (ast.AnnAssign, ast.AugAssign)):
            tgts = [n.target]
        elif isinstance(n, ast.NamedExpr):
            tgts = [n.target]
        elif isinstance(n, (ast.For, ast.AsyncFor)):
            tgts = [n.target]
        elif isinstance(n, (ast.With, ast.AsyncWith)):
            tgts = [i.optional_vars for i in n.items if i.optional_vars is not None]
        for t in tgts:
            if any(_is_name(x, key_name) and isinstance(x.ctx, (ast.Store, ast.Del)) for x in ast.walk(t)):
                assigns.append(n)
    # exactly one binding, `key = <expr>` or `key: <annotation> = <expr>` (the annotation is not evaluated
    # for a local variable and does not change the value)
    b = assigns[0] if len(assigns) == 1 else None
    if isinstance(b, ast.Assign) and len(b.targets) == 1 and _is_name(b.targets[0], key_name):
        pass
    elif isinstance(b, ast.AnnAssign) and b.value is not None and _is_name(b.target, key_name):
        pass
    else:
        raise Unsupported(f'{len(assigns)} bindings of the key variable {key_name}')
    # the arguments must not be re-bound either
    for n in ast.walk(w):
        if isinstance(n, ast.Name) and isinstance(n.ctx, (ast.Store, ast.Del)) and n.id in (args_name, kwargs_name):
            raise Unsupported(f'{n.id} is re-bound at line {n.lineno}')
    val = assigns[0].value

    def iterable(n):
        if _is_name(n, args_name):
            return 'IArgs'
        if isinstance(n, ast.Call) and isinstance(n.func, ast.Attribute) and n.func.attr == 'items' \
                and _is_name(n.func.value, kwargs_name) and not n.args and not n.keywords:
            return 'IKwItems'
        raise Unsupported(f'iterable shape at line {n.lineno}: {ast.dump(n)[:120]}')

    def comp(n):
        if _is_name(n, args_name):
            return ('WTuple', 'IArgs')
        if isinstance(n, ast.Call) and isinstance(n.func, ast.Name) and n.func.id in ('tuple', 'frozenset') \
                and len(n.args) == 1 and not n.keywords:
            return ('WTuple' if n.func.id == 'tuple' else 'WFrozenset', iterable(n.args[0]))
        raise Unsupported(f'key component shape at line {n.lineno}: {ast.dump(n)[:120]}')

    if isinstance(val, ast.Tuple):
        if not val.elts:
            raise Unsupported('empty key tuple')
        return [comp(x) for x in val.elts]
    return [comp(val)]


def facts(src=None):
    """Returns dict(key_expr=[...] | None, cache_init=str | None, errors=[...])."""
    out = dict(key_expr=None, cache_init=None, store=None, errors=[])
    try:
        tree = ast.parse(_source() if src is None else src)
        fn = _public_def(tree, FUNC)
    except (Unsupported, SyntaxError, OSError) as e:
        out['errors'].append(f'source: {e}')
        return out
    try:
        out['store'], out['cache_init'] = cache_init(fn)
    except Unsupported as e:
        out['errors'].append(f'cache_init: {e}')
    if out['store'] is not None:
        try:
            out['key_expr'] = key_expr(fn, out['store'])
        except Unsupported as e:
            out['errors'].append(f'key_expr: {e}')
    else:
        out['errors'].append('key_expr: store variable unknown')
    return out


def render(f):
    L = ['(* GENERATED by harness/c14_translate.py from aiuti/asyncio.py (threadsafe_async_cache).',
         '   Regenerated on every run; do not edit. *)',
         'From Coq Require Import List.', 'Import ListNotations.', 'Require Import Aiuti.Keys.', '']
    for e in f['errors']:
        L.append('(* untranslatable: ' + e.replace('(*', '( *').replace('*)', '* )') + ' *)')
    if f['errors']:
        L.append('Definition translation_failed := tt.')
    if f['key_expr'] is not None:
        comps = '; '.join(f'({w}, {i})' for w, i in f['key_expr'])
        L.append(f'Definition key_expr : kexpr := [{comps}].')
        L.append('Definition key_expr_opt : option kexpr := Some key_expr.')
    else:
        L.append('Definition key_expr_opt : option kexpr := None.')
    if f['cache_init'] is not None:
        L.append(f'Definition cache_init : cache_init_mode := {f["cache_init"]}.')
        L.append('Definition cache_init_opt : option cache_init_mode := Some cache_init.')
    else:
        L.append('Definition cache_init_opt : option cache_init_mode := None.')
    return '\n'.join(L) + '\n'


# ---- self-test: spellings of the two statements that must / must not translate -------------
# A maintainer may respell either statement without changing what it denotes; the translator accepts a
# spelling only when, after the normalisations documented above (parentheses and line breaks vanish in
# the AST; an annotation on the assignment; `is`/`is not` against None with either operand order or
# under `not`; `dict()` for `{}`), it is structurally one of the whitelisted trees.  Everything else is
# rejected (fail closed), including spellings that happen to be equivalent.
_TEMPLATE = '''
def threadsafe_async_cache(func=None, *, cache=None):
    """doc"""
    if func is None:
        return partial(threadsafe_async_cache, cache=cache)
    {STORE}
    _func = func
    del cache, func
    events = {{}}
    async def _wrapper(*args, **kwargs):
        {KEY}
        try:
            return _cache[key]
        except KeyError:
            pass
        result = await _func(*args, **kwargs)
        _cache[key] = result
        return result
    return _wrapper
'''
_S0 = '_cache: _CacheMap = cache if cache is not None else {}'
_K0 = 'key = args, frozenset(kwargs.items())'
_SPEC = [('WTuple', 'IArgs'), ('WFrozenset', 'IKwItems')]
_REV = [('WFrozenset', 'IKwItems'), ('WTuple', 'IArgs')]

# key statement -> expected translation (None = must be rejected)
KEY_SPELLINGS = [
    (_K0, _SPEC),
    ('key = (args, frozenset(kwargs.items()))', _SPEC),
    ('key: Any = args, frozenset(kwargs.items())', _SPEC),
    ('key: Tuple[Any, ...] = (args, frozenset(kwargs.items()))', _SPEC),
    ('key = (\n    args,\n    frozenset(kwargs.items()),\n)', _SPEC),
    ('key = (args), (frozenset((kwargs).items(), ))', _SPEC),
    ('key = tuple(args), frozenset(kwargs.items())', _SPEC),
    ('key = frozenset(kwargs.items()), args', _REV),                    # translated; still `good`
    ('key = args', [('WTuple', 'IArgs')]),                              # translated; NOT good -> proofs fail
    ('key = args, tuple(kwargs.items())', [('WTuple', 'IArgs'), ('WTuple', 'IKwItems')]),   # translated; NOT good
    ('key = args, frozenset(kwargs)', None),
    ('key = args, frozenset(kwargs.values())', None),
    ('key = args + tuple(sorted(kwargs.items()))', None),
    ('key = (*args, frozenset(kwargs.items()))', None),
    ('key = str(args), frozenset(kwargs.items())', None),
    ('key = [args, frozenset(kwargs.items())]', None),
    ('key = args[:1], frozenset(kwargs.items())', None),
    ('key = args, frozenset(list(kwargs.items()))', None),             # equivalent, not whitelisted
    ('items = kwargs.items()\nkey = args, frozenset(items)', None),    # equivalent, not whitelisted
    ('key = args, frozenset(kwargs.items())\nkey = hash(key)', None),
    ('args = args[:1]\nkey = args, frozenset(kwargs.items())', None),
    ('key = args, frozenset(kwargs.items()) if kwargs else None', None),
]
# store statement -> expected mode (None = must be rejected)
STORE_SPELLINGS = [
    (_S0, 'IfNotNone'),
    ('_cache = cache if cache is not None else {}', 'IfNotNone'),
    ('_cache = (cache if cache is not None else {})', 'IfNotNone'),
    ('_cache = {} if cache is None else cache', 'IfNotNone'),
    ('_cache = dict() if cache is None else cache', 'IfNotNone'),
    ('_cache = cache if cache is not None else dict()', 'IfNotNone'),
    ('_cache = cache if not cache is None else {}', 'IfNotNone'),
    ('_cache = cache if None is not cache else {}', 'IfNotNone'),
    ('_cache = {} if None is cache else cache', 'IfNotNone'),
    ('_cache = {} if not (cache is not None) else cache', 'IfNotNone'),
    ('_cache = cache or {}', 'IfTruthy'),                               # translated; the proofs then fail
    ('_cache = cache if cache else {}', 'IfTruthy'),
    ('_cache = {} if not cache else cache', 'IfTruthy'),
    ('_cache = cache if cache != None else {}', None),
    ('_cache = cache if cache is None else {}', None),
    ('_cache = {} if cache is not None else cache', None),
    ('_cache = {}', None),
    ('_cache = cache if cache is not None else {1: 2}', None),
    ('_cache = cache if cache is not None else OrderedDict()', None),
    ('_cache = dict(cache) if cache is not None else {}', None),
    ('_cache = cache.copy() if cache is not None else {}', None),
    ('_cache = cache if len(cache) else {}', None),
    ('if cache is None:\n    cache = {}\n_cache = cache', None),        # equivalent, not whitelisted
    ('if not cache:\n    cache = {}\n_cache = cache if cache is not None else {}', None),
    ('_cache = cache if cache is not None else {}\n_cache = {}', None),
    ('(cache := cache or {})\n_cache = cache if cache is not None else {}', None),
]


def _spell(store, key):
    src = _TEMPLATE.format(STORE=store.replace('\n', '\n    '), KEY=key.replace('\n', '\n        '))
    f = facts(src)
    return f['cache_init'], f['key_expr']


def selftest():
    """List of failures (empty = the whitelist behaves as documented).  ~50 tiny parses, a few ms."""
    bad = []
    for k, want in KEY_SPELLINGS:
        got = _spell(_S0, k)[1]
        if got != want:
            bad.append(f'key spelling {k!r}: {got} instead of {want}')
    for st, want in STORE_SPELLINGS:
        got = _spell(st, _K0)[0]
        if got != want:
            bad.append(f'store spelling {st!r}: {got} instead of {want}')
    return bad


def translate():
    f = facts()
    bad = selftest()
    if bad:     # the translator itself is broken: nothing it says can be trusted -> fail closed
        f = dict(key_expr=None, cache_init=None, store=None,
                 errors=f['errors'] + ['translator self-test: ' + b for b in bad[:5]])
    C.write_if_changed(OUT, render(f))
    return f


if __name__ == '__main__':
    print(render(facts()))
    print('self-test failures:', selftest())
