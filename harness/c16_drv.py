"""C16 — driver for to_async_iter / to_sync_iter (aiuti/asyncio.py:146-266).

Runs the REAL bridge functions under the gated-thread controller of gate.py:
the producer worker (substituted ThreadPoolExecutor) and the consumer (a
virtual-time event loop with a ticker task, or a managed thread) are scheduled
at gates; a case carries the complete schedule.  Extensions of gate.py live
here as subclasses (BLoop: call_soon_threadsafe is a gate; BExecutor: completing
the worker's future is a gate, shutdown calls are recorded; GQueue: queue.Queue
shim whose get gates on non-empty).
"""
from __future__ import annotations

import asyncio
import collections
import logging
import sys
import threading
import types

from . import gate as G

TICK = G.TICK
MAX_STEPS = 400
MAX_STEPS_LINES = 4000
EARLY_BUDGET = 2          # early expiries of timed waits per run


# --------------------------------------------------------------------------
# values and exceptions (identities are reported as small integers)
# --------------------------------------------------------------------------

class SrcError(Exception):
    """raised by the harness source at position fail_at"""


class SrcBaseError(BaseException):
    """same, but not an Exception subclass"""


class SrcRuntimeError(RuntimeError):
    """a RuntimeError subclass raised by the source (defensive `except RuntimeError` must not eat it)"""


class SrcOSError(OSError):
    pass


class SrcLookupError(KeyError):
    pass


def _exc_classes():
    import queue
    # index = case['ekind'];  0/1 as before, then classes that defensive handlers in a bridge
    # typically catch for their OWN purposes (closed loop, empty queue, timeouts, invalid state)
    return [SrcError, SrcBaseError, SrcRuntimeError, NotImplementedError, RecursionError, RuntimeError,
            SrcOSError, TimeoutError, SrcLookupError, ValueError, queue.Empty, asyncio.InvalidStateError,
            AttributeError, TypeError,
            # the exact classes asyncio.wrap_future re-instantiates (futures._convert_future_exc; 7 is one too)
            G.cf.CancelledError, G.cf.InvalidStateError]


NEKINDS = 16


class ElemError(Exception):
    """an exception *instance* used as an ordinary element"""


class AlwaysEq:
    """equal to everything (an `== _DONE` comparison would take it for the sentinel)"""

    def __eq__(self, o):
        return True

    def __ne__(self, o):
        return False

    def __hash__(self):
        return 0


class Falsy:
    def __bool__(self):
        return False


NVALUES = 11


def make_values():
    return [None, 0, '', 'a', ElemError('element'), AlwaysEq(), False, (), 0.0, Falsy(), object()]


UNKNOWN = 99


def ident(values, x):
    for i, v in enumerate(values):
        if v is x:
            return i
    return UNKNOWN


# --------------------------------------------------------------------------
# gate.py extensions
# --------------------------------------------------------------------------

class BCtl(G.Ctl):
    """Ctl whose threads wait for their FIRST turn without handing the baton back.

    gate.Ctl._body starts with _park(), which resets `turn` when it already names the
    calling thread.  That is right for a thread that finished a step, but a freshly
    spawned thread that is slow to start may find that the controller has already
    granted it its first turn; it then gives the turn back unused and the controller
    records a second, spurious ('x', 'start') decision.  Traces (and the schedule tree
    explored from them) became timing dependent.  Here the initial wait only waits."""

    tracer = None                 # sys.settrace function for managed threads (line-level scheduling)
    early_budget = 0              # early expiries of timed waits still allowed in this run

    def _body(self, rec, fn):
        G._tls.rec = rec
        G._tls.ctl = self
        try:
            with self.cv:
                while self.turn != rec['name']:
                    if self.aborting:
                        raise G._Abort()
                    self.cv.wait(1.0)
                if self.aborting:
                    raise G._Abort()
            if self.tracer is not None:
                sys.settrace(self.tracer)
            fn()
        except G._Abort:
            pass
        except BaseException as e:       # recorded; the driver decides what it means
            rec['exc'] = e
        finally:
            with self.cv:
                rec['state'] = 'done'
                if self.turn == rec['name']:
                    self.turn = None
                self.cv.notify_all()


BRIDGE_FUNCS = ('to_async_iter', 'to_sync_iter')


def line_tracer(ctl, filename):
    """Trace function making every source LINE of the bridge functions (and of the
    functions nested in them) a gate ('line') of the executing managed thread."""
    def local(frame, event, arg):
        if event == 'line':
            ctl.gate('line')
        return local

    def glob(frame, event, arg):
        if event == 'call':
            co = frame.f_code
            if co.co_filename == filename and co.co_qualname.startswith(BRIDGE_FUNCS):
                return local
        return None
    return glob


class BLoop(G.GVLoop):
    """GVLoop whose call_soon_threadsafe, when called by a *managed foreign*
    thread, is a gate (op 'cst')."""
    owner = None

    def call_soon_threadsafe(self, callback, *args, context=None):
        me = self.ctl.me()
        if me is not None and me != self.owner:
            self.ctl.gate('cst')
        return super().call_soon_threadsafe(callback, *args, context=context)


class BFuture(G.GFuture):
    """result() is a gate only when it would block (a read of a completed
    future is not a scheduling point; asyncio.wrap_future does one)."""

    def result(self, timeout=None):
        if self.done():
            return G.cf.Future.result(self, timeout)
        return super().result(timeout)


class BExecutor(G.GExecutor):
    """GExecutor; completing the future is a gate (op 'fin'); records how it was shut down."""

    def __init__(self, max_workers=None, run=None, **kw):
        super().__init__(max_workers, **kw)
        self.run = run
        self.shutdown_calls = []          # (wait, all workers done at that moment)
        run.pools.append(self)

    def submit(self, fn, *a, **kw):
        ctl = self.ctl or G.current_ctl()
        fut = BFuture()
        fut.ctl = ctl
        name = getattr(self.run, 'wname', None) or 'w'
        if name in ctl.th:
            name = f'{name}{len(ctl.order)}'

        def body():
            if not fut.set_running_or_notify_cancel():
                return
            try:
                r = fn(*a, **kw)
            except G._Abort:
                raise
            except BaseException as e:
                ctl.gate('fin')
                fut.set_exception(e)
            else:
                ctl.gate('fin')
                fut.set_result(r)
        rec = ctl.spawn(name, body)
        fut.worker = name
        self.futs.append((fut, rec))
        return fut

    def workers_done(self):
        return all(r['state'] == 'done' for _, r in self.futs)

    def shutdown(self, wait=True, **kw):
        self.shutdown_calls.append((bool(wait), self.workers_done()))
        super().shutdown(wait=wait, **kw)
        if wait:
            self.shutdown_calls[-1] = (True, self.workers_done())


class GQueue:
    """queue.Queue shim: get gates with enabled = non-empty; put is a gate for managed threads."""
    ctl = None

    def __init__(self, maxsize=0):
        self.d = collections.deque()

    def _ctl(self):
        return G.current_ctl()

    def put(self, x, block=True, timeout=None):
        c = self._ctl()
        if c is not None:
            c.gate('put')
        self.d.append(x)

    def put_nowait(self, x):
        self.put(x)

    def get(self, block=True, timeout=None):
        c = self._ctl()
        if not block:
            return self.get_nowait()
        if c is not None and c.me() is not None:
            if timeout is None:
                c.gate('q.get', enabled=lambda: bool(self.d))
            else:
                # timed get: resolved by an item, by virtual-time expiry, or -- a bounded number of
                # times per run -- by an EARLY expiry while other threads are still enabled (a
                # wall-clock timeout races with the other threads' progress; the controller's
                # "time only advances when nobody is enabled" rule alone would hide that race)
                import queue
                deadline = c.vt + max(0.0, timeout)
                c.gate('q.tget', when=lambda: deadline,
                       enabled=lambda: bool(self.d) or c.vt >= deadline - G.EPS
                       or getattr(c, 'early_budget', 0) > 0)
                if not self.d:
                    if c.vt < deadline - G.EPS:
                        c.early_budget = getattr(c, 'early_budget', 0) - 1
                        c.vt = deadline
                    raise queue.Empty
        elif not self.d:
            import queue
            raise queue.Empty
        return self.d.popleft()

    def get_nowait(self):
        import queue
        if not self.d:
            raise queue.Empty
        return self.d.popleft()

    def empty(self):
        return not self.d

    def qsize(self):
        return len(self.d)


def queue_shim():
    import queue
    return types.SimpleNamespace(Queue=GQueue, Empty=queue.Empty, Full=queue.Full,
                                 SimpleQueue=GQueue, LifoQueue=queue.LifoQueue,
                                 PriorityQueue=queue.PriorityQueue)


# --------------------------------------------------------------------------
# one run
# --------------------------------------------------------------------------

E_SRC, E_ELEM, E_SAMECLASS, E_OTHER = 1, 2, 3, 4


class Run:
    def __init__(self, case):
        self.case = case
        self.fn = case['fn']
        self.kind = case['src']
        self.xs = list(case['xs'])
        self.fail = case.get('fail')
        self.dur = list(case.get('dur') or [])
        self.values = list(range(len(self.xs))) if self.kind == 'range' else make_values()
        self.exc = _exc_classes()[int(case.get('ekind') or 0) % NEKINDS]('source failure')
        self.consumed = []
        self.outcome = None
        self.finished = None          # snapshot taken when the consumer's iteration ended
        self.ticks = 0
        self.tick_limit = sum(self.dur) + 6
        self.pools = []
        self.loops = []
        self.pos = 0
        self.park_vt = 0
        self.park_ticks = 0
        self.parks = []               # per pull: [virtual ticks spent inside the source, ticker ticks meanwhile]
        self.pulls_on = []
        self.wloop = None

    # ---- the source -------------------------------------------------------
    def _d(self, k):
        return self.dur[k] if k < len(self.dur) else 0

    def _pre(self):
        ctl = G.current_ctl()
        self.pulls_on.append(ctl.me() if ctl else None)
        return ctl, (ctl.ticks() if ctl else 0), self.ticks

    def _post(self, ctl, v0, t0):
        if ctl:
            self.park_vt += ctl.ticks() - v0
            self.park_ticks += self.ticks - t0
            self.parks.append([ctl.ticks() - v0, self.ticks - t0])

    def _deliver(self, k, stop):
        if self.fail is not None and k == self.fail:
            raise self.exc
        if k >= len(self.xs):
            raise stop
        return self.values[self.xs[k]]

    def pull(self):
        """blocking pull of the next source element (a gate: virtual sleep of dur[k] ticks)"""
        k = self.pos
        st = self._pre()
        G.gsleep(self._d(k) * TICK)
        self._post(*st)
        x = self._deliver(k, StopIteration)
        self.pos += 1
        return x

    async def apull(self):
        k = self.pos
        st = self._pre()
        if self.wloop is not None and self._d(k) > 0:
            await asyncio.sleep(self._d(k) * TICK)      # the worker's virtual loop idles (gate 'idle')
        else:
            G.gsleep(self._d(k) * TICK)
        self._post(*st)
        x = self._deliver(k, StopAsyncIteration)
        self.pos += 1
        return x

    def make_source(self):
        run = self

        class It:
            def __iter__(self):
                return self

            def __next__(self):
                return run.pull()

        class Iterable_:
            def __iter__(self):
                return It()

        def gen():
            while True:
                try:
                    x = run.pull()
                except StopIteration:
                    return
                yield x

        class AIt:
            def __aiter__(self):
                return self

            async def __anext__(self):
                return await run.apull()

        class AIterable_:
            def __aiter__(self):
                return AIt()

        async def agen():
            while True:
                try:
                    x = await run.apull()
                except StopAsyncIteration:
                    return
                yield x

        k = self.kind
        if k == 'list':
            return [self.values[i] for i in self.xs]
        if k == 'range':
            return range(len(self.xs))
        return {'iterator': It, 'iterable': Iterable_, 'generator': gen,
                'aiter': AIt, 'aiterable': AIterable_, 'agen': agen}[k]()

    # ---- observations -----------------------------------------------------
    def exc_id(self, e):
        if e is self.exc:
            return E_SRC
        if any(e is v for v in self.values):
            return E_ELEM
        if type(e) is type(self.exc):
            return E_SAMECLASS
        return E_OTHER

    def snapshot_finished(self, ctl):
        joined = all(p.workers_done() for p in self.pools) and \
            all(any(w and d for w, d in p.shutdown_calls) for p in self.pools)
        self.finished = dict(joined=joined, nworkers=sum(len(p.futs) for p in self.pools),
                             ticks=self.ticks, vt=ctl.ticks(),
                             park_vt=self.park_vt, park_ticks=self.park_ticks,
                             nparks=len(self.parks))


def _consumer_async(run, ctl, A):
    def body():
        loop = BLoop(ctl)
        loop.owner = ctl.me()
        run.loops.append(loop)
        asyncio.set_event_loop(loop)

        async def ticker():
            while run.ticks < run.tick_limit:
                run.ticks += 1
                await asyncio.sleep(TICK)

        async def main():
            tk = loop.create_task(ticker())
            try:
                async for x in A.to_async_iter(run.make_source()):
                    run.consumed.append(ident(run.values, x))
                run.outcome = ['stop']
            except G._Abort:
                raise
            except BaseException as e:
                run.outcome = ['raised', run.exc_id(e)]
            run.snapshot_finished(ctl)
            tk.cancel()
            await asyncio.gather(tk, return_exceptions=True)
        try:
            loop.run_until_complete(main())
        finally:
            asyncio.set_event_loop(None)
    return body


def _consumer_sync(run, ctl, A):
    def body():
        try:
            for x in A.to_sync_iter(run.make_source(), loop=run.wloop):
                run.consumed.append(ident(run.values, x))
            run.outcome = ['stop']
        except G._Abort:
            raise
        except BaseException as e:
            run.outcome = ['raised', run.exc_id(e)]
        run.snapshot_finished(ctl)
    return body


def run_gated(case, chooser=None):
    """Run one case under the controller; returns the observation dict."""
    import aiuti.asyncio as A
    logging.disable(logging.CRITICAL)
    run = Run(case)
    marks = []                      # per decision: consumed count *before* it

    if chooser is None:
        if case.get('sched') is not None:
            chooser = G.schedule_chooser(list(case['sched']))
        else:
            import random
            chooser = G.random_chooser(random.Random(case.get('rseed', 0)), stay=case.get('stay', 0.0))

    dues = []                       # per decision: threads whose gate timer (sleep / loop timer) is due

    def ch(step, en, c):
        marks.append(len(run.consumed))
        due = []
        for n in c.order:
            rec = c.th[n]
            if rec['state'] != 'done' and rec['when'] is not None:
                w = rec['when']()
                if w is not None and w <= c.vt + G.EPS:
                    due.append(n)
        dues.append(due)
        return chooser(step, en, c)

    lines = bool(case.get('lines'))
    ctl = BCtl(ch, max_steps=MAX_STEPS_LINES if lines else MAX_STEPS)
    ctl.early_budget = int(case.get('early', EARLY_BUDGET if lines else 0))
    if lines:
        ctl.tracer = line_tracer(ctl, A.__file__)
    saved = (A.ThreadPoolExecutor, A.queue)
    before = set(threading.enumerate())
    A.ThreadPoolExecutor = lambda *a, **kw: BExecutor(*a, run=run, **kw)
    A.queue = queue_shim()
    try:
        if run.fn == 'a':
            ctl.spawn('c', _consumer_async(run, ctl, A))
        else:
            if case.get('wloop') == 'gv':
                run.wloop = BLoop(ctl)
                run.wloop.owner = 'w'
                run.loops.append(run.wloop)
            ctl.spawn('c', _consumer_sync(run, ctl, A))
        result = ctl.run()
        if result != 'ok':
            ctl.abort()
    finally:
        A.ThreadPoolExecutor, A.queue = saved
        for lp in run.loops:
            try:
                if not lp.is_closed() and not lp.is_running():
                    lp.close()
            except Exception:
                pass
    for n in ctl.order:
        ctl.th[n]['thread'].join(2.0)
    left = len([t for t in threading.enumerate() if t not in before and t.is_alive()])
    marks.append(len(run.consumed))
    names = [t for t in ctl.trace if t[0] != 'adv']
    trace = []
    for i, ((n, op), (en, _)) in enumerate(zip(names, ctl.choices)):
        trace.append([n, op, marks[i + 1], sorted(en), sorted(dues[i])])
    harness_exc = [repr(ctl.th[n]['exc'])[:200] for n in ctl.order if ctl.th[n]['exc'] is not None]
    fin = run.finished or dict(joined=False, nworkers=sum(len(p.futs) for p in run.pools),
                               ticks=run.ticks, vt=ctl.ticks(), park_vt=run.park_vt,
                               park_ticks=run.park_ticks, nparks=len(run.parks))
    return dict(parks=[list(p) for p in run.parks], result=result if not harness_exc else 'error', trace=trace,
                consumed=list(run.consumed), outcome=run.outcome, threads_left=left,
                pulls_on=sorted(set(str(p) for p in run.pulls_on)), stuck=ctl.stuck() if result != 'ok' else [],
                errors=harness_exc, **fin)


# --------------------------------------------------------------------------
# two bridges alive at the same time
# --------------------------------------------------------------------------

def _consumer_async_multi(runs, ctl, A, taskmap):
    """one consuming loop, one consumer task per bridge, one ticker"""
    def body():
        loop = BLoop(ctl)
        loop.owner = ctl.me()
        runs[0].loops.append(loop)
        asyncio.set_event_loop(loop)
        limit = max(r.tick_limit for r in runs)

        async def ticker():
            while runs[0].ticks < limit:
                for r in runs:
                    r.ticks += 1
                await asyncio.sleep(TICK)

        async def one(run):
            taskmap[asyncio.current_task()] = run
            try:
                async for x in A.to_async_iter(run.make_source()):
                    run.consumed.append(ident(run.values, x))
                run.outcome = ['stop']
            except G._Abort:
                raise
            except BaseException as e:
                run.outcome = ['raised', run.exc_id(e)]
            run.snapshot_finished(ctl)

        async def main():
            tk = loop.create_task(ticker())
            ts = [loop.create_task(one(r)) for r in runs]
            await asyncio.gather(*ts)
            tk.cancel()
            await asyncio.gather(tk, return_exceptions=True)
        try:
            loop.run_until_complete(main())
        finally:
            asyncio.set_event_loop(None)
    return body


def run_gated_pair(case, chooser=None):
    """Two bridges of the same function alive at once (case['subs'] = two ordinary cases without
    schedule); to_sync_iter: consumer threads 'c' and 'd', to_async_iter: two consumer tasks on the
    one loop thread 'c'; workers 'w' and 'x'.  One schedule / one controller for everything.
    Returns dict(result, trace, subs=[per-bridge observation, ...], threads_left)."""
    import aiuti.asyncio as A
    logging.disable(logging.CRITICAL)
    fn = case['fn']
    runs = [Run(dict(sc, fn=fn)) for sc in case['subs']]
    cnames = ['c', 'd']
    for i, r in enumerate(runs):
        r.wname = 'wx'[i]
    if chooser is None:
        if case.get('sched') is not None:
            chooser = G.schedule_chooser(list(case['sched']))
        else:
            import random
            chooser = G.random_chooser(random.Random(case.get('rseed', 0)), stay=case.get('stay', 0.0))
    lines = bool(case.get('lines'))
    ctl = BCtl(chooser, max_steps=MAX_STEPS_LINES)
    ctl.early_budget = int(case.get('early', EARLY_BUDGET if lines else 0))
    if lines:
        ctl.tracer = line_tracer(ctl, A.__file__)
    taskmap = {}

    def current_run():
        if fn == 'a':
            try:
                return taskmap.get(asyncio.current_task(), runs[0])
            except RuntimeError:
                return runs[0]
        me = ctl.me()
        return runs[cnames.index(me)] if me in cnames else runs[0]

    saved = (A.ThreadPoolExecutor, A.queue)
    before = set(threading.enumerate())
    A.ThreadPoolExecutor = lambda *a, **kw: BExecutor(*a, run=current_run(), **kw)
    A.queue = queue_shim()
    try:
        if fn == 'a':
            ctl.spawn('c', _consumer_async_multi(runs, ctl, A, taskmap))
        else:
            for i, r in enumerate(runs):
                if case['subs'][i].get('wloop') == 'gv':
                    r.wloop = BLoop(ctl)
                    r.wloop.owner = r.wname
                    r.loops.append(r.wloop)
                ctl.spawn(cnames[i], _consumer_sync(r, ctl, A))
        result = ctl.run()
        if result != 'ok':
            ctl.abort()
    finally:
        A.ThreadPoolExecutor, A.queue = saved
        for r in runs:
            for lp in r.loops:
                try:
                    if not lp.is_closed() and not lp.is_running():
                        lp.close()
                except Exception:
                    pass
    for n in ctl.order:
        ctl.th[n]['thread'].join(2.0)
    left = len([t for t in threading.enumerate() if t not in before and t.is_alive()])
    names = [t for t in ctl.trace if t[0] != 'adv']
    harness_exc = [repr(ctl.th[n]['exc'])[:200] for n in ctl.order if ctl.th[n]['exc'] is not None]
    if harness_exc:
        result = 'error'
    subs = []
    for r in runs:
        fin = r.finished or dict(joined=False, nworkers=sum(len(p.futs) for p in r.pools), ticks=r.ticks)
        subs.append(dict(result=result, consumed=list(r.consumed), outcome=r.outcome, joined=fin['joined'],
                         nworkers=fin['nworkers'], threads_left=left, ticks=fin['ticks'],
                         pulls_on=sorted(set('w' if p == r.wname else ('c' if p in cnames else str(p))
                                             for p in r.pulls_on)),
                         parks=[list(p) for p in r.parks]))
    return dict(result=result, trace=[[n, op] for n, op in names], subs=subs, threads_left=left,
                errors=harness_exc, stuck=ctl.stuck() if result not in ('ok', 'error') else [])
