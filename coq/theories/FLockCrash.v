(* FLockCrash.v — C13: a crashed holder never leaves the FileLock stuck.
   The model's crash semantics IS the kernel assumption (ECrash p closes every open
   file description of p); what is proved here is what the FileLock code adds:
   whatever point of acquire / release its threads were at, nothing else than the
   kernel-held lock carries ownership, so after the crash the path is free or held by
   a live survivor, the survivors keep excluding each other (FLockMutex), and a
   fresh contender gets the lock at its first non-blocking attempt.              *)
From Coq Require Import List Arith NArith Bool Lia ZifyBool.
Import ListNotations.
Require Import Aiuti.FLock Aiuti.FLockInv Aiuti.FLockTL Aiuti.FLockFD Aiuti.FLockMutex Aiuti.FLockExact Aiuti.FLockExec.
Local Arguments Nat.max : simpl never.
Arguments upd : simpl never.
Arguments enter_tlrel : simpl never.
Arguments enter_cleanup : simpl never.
Arguments after_attempt : simpl never.
Arguments k_unlock : simpl never.
Arguments k_close : simpl never.
Arguments tl_release : simpl never.
Arguments tl_try : simpl never.
Arguments tl_rel_raises : simpl never.
Arguments normalise : simpl never.
Arguments faulty : simpl never.
Arguments intr : simpl never.
Arguments enabled : simpl never.
Arguments step : simpl never.
Arguments run_alone : simpl never.

Ltac ev := cbn; rewrite ?upd_same; cbn.

Lemma tl_try_free ob t : o_own ob = None ->
  tl_try ob t = Some (mkobj (o_proc ob) (o_reent ob) (o_dflt ob) (o_fd ob) (o_cnt ob) (Some t) 1).
Proof. unfold tl_try. now intros ->. Qed.

Lemma acquire_free s t o m blk tm poll skip fuel :
  4 <= fuel -> dead s (t_proc (thr s t)) = false -> t_pc (thr s t) = PIdle ->
  o_proc (objs s o) = t_proc (thr s t) ->
  o_own (objs s o) = None -> o_fd (objs s o) = None ->
  holder s = None -> faulty s KOpen = false -> faulty s KLock = false ->
  snd (do_call fuel s t (CAcq o m blk tm poll skip)) = RTrue.
Proof.
  intros Hf Hal Hpc Hpr Hown Hfd Hh Hfo Hfl.
  unfold do_call.
  assert (E : snd (run_alone 4 (pop_prog s t [CAcq o m blk tm poll skip]) t) = RTrue).
  { rewrite run_alone_step; [|unfold call_done; ev; now rewrite Hpc|unfold enabled, is_dead; ev; now rewrite Hal, Hpc].
    rewrite (step_idle _ _ (CAcq o m blk tm poll skip) []); [|unfold enabled, is_dead; ev; now rewrite Hal, Hpc|ev; auto|ev; auto].
    unfold begin_call. ev. rewrite Hpr, Nat.eqb_refl. destruct (normalise (objs s o) blk tm) as [b' tm'] eqn:En.
    rewrite run_alone_step; [|unfold call_done; ev; auto|unfold enabled, is_dead, tl_free_for; ev; rewrite Hal, (tl_try_free _ _ Hown); cbn; now destruct b'].
    erewrite step_tlacq; [|unfold enabled, is_dead, tl_free_for; ev; rewrite Hal, (tl_try_free _ _ Hown); cbn; now destruct b'|ev; reflexivity].
    ev. rewrite (tl_try_free _ _ Hown). ev. rewrite Hfd.
    rewrite run_alone_step; [|unfold call_done; ev; auto|unfold enabled, is_dead; ev; now rewrite Hal].
    erewrite step_open; [|unfold enabled, is_dead; ev; now rewrite Hal|ev; reflexivity].
    ev. 
    assert (Hfo' : forall s', faults s' = faults s -> nsys s' = nsys s -> faulty s' KOpen = false).
    { intros s' A B. unfold faulty in *. now rewrite A, B. }
    rewrite Hfo' by reflexivity.
    assert (Hfl' : forall s', faults s' = faults s -> nsys s' KLock = nsys s KLock -> faulty s' KLock = false).
    { intros s' A B. unfold faulty in *. now rewrite A, B. }
    assert (Hen : forall (s' : state) (b : bool), holder s' = None -> (if b then holder_free_for s' (nextfd s) || faulty s' KLock else true) = true).
    { intros s' b A. destruct b; auto. unfold holder_free_for. now rewrite A. }
    rewrite run_alone_step; [|unfold call_done; ev; auto|unfold enabled, is_dead; ev; rewrite Hal; cbn; apply Hen; auto].
    erewrite step_flock; [|unfold enabled, is_dead; ev; rewrite Hal; cbn; apply Hen; auto|ev; reflexivity].
    ev. rewrite Hfl' by reflexivity. unfold holder_free_for. ev. rewrite Hh.
    rewrite run_alone_done; [|unfold call_done; ev; auto]. unfold last_result. ev. reflexivity. }
  rewrite (run_alone_ge 4 fuel); auto. rewrite E. discriminate.
Qed.

(* ---------- crash_releases ------------------------------------------------------------ *)

Lemma Inv_reach ocfg tcfg fl evs :
  viol (run (init_cfg ocfg tcfg fl) evs) = false -> Inv (run (init_cfg ocfg tcfg fl) evs).
Proof. intros Hv. apply Inv_run; auto. apply Inv_init. Qed.

Theorem crash_releases_lemma :
  forall ocfg tcfg fl evs p,
    let s := run (init_cfg ocfg tcfg fl) evs in
    let s' := crash s p in
    viol s = false ->
    (forall d, fdown s' d <> Some p) /\
    (forall d, holder s = Some d -> fdown s d = Some p -> holder s' = None) /\
    (forall d, holder s' = Some d ->
       holder s = Some d /\ exists q, fdown s' d = Some q /\ q <> p /\ dead s' q = false).
Proof.
  intros ocfg tcfg fl evs p s s' Hv. pose proof (Inv_reach _ _ _ _ Hv) as [_ HF]. fold s in HF.
  pose proof (FD_crash s p HF) as HF'. fold s' in HF'.
  split; [|split].
  - intros d. unfold s', crash. cbn. destruct (owned_by s p d) eqn:E; [discriminate|].
    intros A. unfold owned_by in E. rewrite A, Nat.eqb_refl in E. discriminate.
  - intros d A B. unfold s', crash. cbn. rewrite A. unfold owned_by. now rewrite B, Nat.eqb_refl.
  - intros d A. split.
    + unfold s', crash in A. cbn in A. destruct (holder s) as [h|]; [|discriminate].
      destruct (owned_by s p h); [discriminate|auto].
    + pose proof (fd_holder_open _ HF' _ A) as B. destruct (fdown s' d) as [q|] eqn:E; [|congruence].
      exists q. pose proof (fd_open_live _ HF' _ _ E) as C. repeat split; auto.
      intros ->. unfold s', crash in C. cbn in C. now rewrite upd_same in C.
Qed.

(* nobody alive references a descriptor => the kernel lock is free *)
Lemma free_when_unreferenced s :
  FD s ->
  (forall o, dead s (o_proc (objs s o)) = false -> o_fd (objs s o) = None) ->
  (forall t, dead s (t_proc (thr s t)) = false -> pc_fd (t_pc (thr s t)) = None) ->
  holder s = None.
Proof.
  intros HF Ho Ht. destruct (holder s) as [d|] eqn:E; auto.
  destruct (fd_holder_ref _ HF _ E) as [(o & A & B)|(t & A & B)].
  - rewrite (Ho _ B) in A. discriminate.
  - rewrite (Ht _ B) in A. discriminate.
Qed.

Theorem acquirable_after_crash_lemma :
  forall ocfg tcfg fl evs p tF oF m blk tm poll skip fuel,
    let s := run (init_cfg ocfg tcfg fl) evs in
    let s' := crash s p in
    viol s = false ->
    (* no survivor holds or is giving up the lock: no live object records a descriptor,
       no live thread has a descriptor in flight *)
    (forall o, dead s' (o_proc (objs s' o)) = false -> o_fd (objs s' o) = None) ->
    (forall t, dead s' (t_proc (thr s' t)) = false -> pc_fd (t_pc (thr s' t)) = None) ->
    (* a contender of a live process, idle, with an object of its own whose thread lock is free *)
    dead s' (t_proc (thr s' tF)) = false -> t_pc (thr s' tF) = PIdle ->
    o_proc (objs s' oF) = t_proc (thr s' tF) -> o_own (objs s' oF) = None ->
    (* no OSError injected into its open / flock *)
    faulty s' KOpen = false -> faulty s' KLock = false ->
    4 <= fuel ->
    snd (do_call fuel s' tF (CAcq oF m blk tm poll skip)) = RTrue.
Proof.
  intros ocfg tcfg fl evs p tF oF m blk tm poll skip fuel s s' Hv Ho Ht Hal Hpc Hpr Hown Hfo Hfl Hfu.
  pose proof (Inv_reach _ _ _ _ Hv) as [_ HF]. fold s in HF.
  pose proof (FD_crash s p HF) as HF'. fold s' in HF'.
  apply acquire_free; auto.
  - apply Ho. now rewrite Hpr.
  - now apply free_when_unreferenced.
Qed.

(* ---------- no_soft_state: the file's content never influences anything ------------------ *)

Lemma enabled_set_file s c t : enabled (set_file s c) t = enabled s t.
Proof. reflexivity. Qed.

Lemma step_set_file s c t : exists c', step (set_file s c) t = set_file (step s t) c'.
Proof.
  unfold step. rewrite enabled_set_file. destruct (negb (enabled s t)); [eexists; reflexivity|].
  change (thr (set_file s c)) with (thr s).
  destruct (t_pc (thr s t)) as [|a dl|a|a d|a d i|a w|a oserr|o d k|o d k|o k].
  - destruct (t_prog (thr s t)) as [|cl rest]; [eexists; reflexivity|].
    destruct cl as [o m blk tm poll skip|o force]; unfold begin_call; cbn.
    + destruct (normalise _ _ _). destruct (Nat.eqb _ _); eexists; reflexivity.
    + destruct (Nat.eqb (o_proc (objs s o)) _); cbn; (destruct (o_fd (objs s o)); [|eexists; reflexivity]);
        destruct (own_is _ _); cbn; destruct (_ || _); cbn; unfold enter_tlrel; cbn;
        try destruct (tl_rel_raises _ _); eexists; reflexivity.
  - cbn. destruct (tl_try _ _); [destruct (o_fd _)|]; eexists; reflexivity.
  - cbn. change (faulty (set_file s c) KOpen) with (faulty s KOpen). change (intr (set_file s c) KOpen) with (intr s KOpen).
    destruct (faulty s KOpen); [destruct (intr s KOpen)|].
    + unfold enter_cleanup; cbn. destruct (tl_rel_raises _ _); eexists; reflexivity.
    + unfold after_attempt, enter_cleanup; cbn. destruct (negb (a_blk a)); [destruct (tl_rel_raises _ _); eexists; reflexivity|].
      destruct (a_tm a); try (eexists; reflexivity).
      destruct (_ <? _)%N; [destruct (tl_rel_raises _ _)|]; eexists; reflexivity.
    + eexists; reflexivity.
  - cbn. change (faulty (set_file s c) KLock) with (faulty s KLock). change (intr (set_file s c) KLock) with (intr s KLock).
    destruct (faulty s KLock); [eexists; reflexivity|].
    unfold holder_free_for. cbn. destruct (match holder s with Some h => Nat.eqb h d | None => true end); eexists; reflexivity.
  - cbn. change (faulty (set_file s c) KClose) with (faulty s KClose). unfold k_close, k_unlock. cbn.
    destruct (faulty s KClose || i).
    + unfold enter_cleanup; cbn. destruct (holder s) as [h|]; [destruct (Nat.eqb h d)|]; cbn; destruct (tl_rel_raises _ _); eexists; reflexivity.
    + unfold after_attempt, enter_cleanup; cbn.
      destruct (holder s) as [h|]; [destruct (Nat.eqb h d)|]; cbn;
        (destruct (negb (a_blk a)); [destruct (tl_rel_raises _ _); eexists; reflexivity|]);
        (destruct (a_tm a); try (eexists; reflexivity));
        (destruct (_ <? _)%N; [destruct (tl_rel_raises _ _)|]; eexists; reflexivity).
  - eexists; reflexivity.
  - eexists; reflexivity.
  - cbn. change (faulty (set_file s c) KUnlock) with (faulty s KUnlock). unfold k_unlock. cbn.
    destruct (faulty s KUnlock); [eexists; reflexivity|].
    destruct (holder s) as [h|]; [destruct (Nat.eqb h d)|]; eexists; reflexivity.
  - cbn. unfold k_close, k_unlock, enter_tlrel. cbn.
    destruct (holder s) as [h|]; [destruct (Nat.eqb h d)|]; cbn; destruct k; try destruct (tl_rel_raises _ _); eexists; reflexivity.
  - cbn. unfold enter_tlrel. cbn. destruct (pred k); try destruct (tl_rel_raises _ _); eexists; reflexivity.
Qed.

Lemma apply_set_file s c e : exists c', apply (set_file s c) e = set_file (apply s e) c'.
Proof.
  destruct e as [t|n|p]; cbn.
  - apply step_set_file.
  - eexists; reflexivity.
  - eexists; reflexivity.
Qed.

Theorem no_soft_state_lemma :
  forall evs s c, exists c', run (set_file s c) evs = set_file (run s evs) c'.
Proof.
  induction evs as [|e r IH]; intros s c; [exists c; reflexivity|].
  change (run (set_file s c) (e :: r)) with (run (apply (set_file s c) e) r).
  change (run s (e :: r)) with (run (apply s e) r).
  destruct (apply_set_file s c e) as [c' ->]. apply IH.
Qed.

Theorem no_soft_state_obs_lemma :
  forall evs s c,
    let s1 := run (set_file s c) evs in
    let s2 := run s evs in
    objs s1 = objs s2 /\ thr s1 = thr s2 /\ holder s1 = holder s2 /\ fdown s1 = fdown s2 /\
    dead s1 = dead s2 /\ now s1 = now s2 /\ viol s1 = viol s2 /\
    (forall t, inside_b s1 t = inside_b s2 t) /\ (forall o, is_locked s1 o = is_locked s2 o).
Proof.
  intros evs s c s1 s2. destruct (no_soft_state_lemma evs s c) as [c' E]. unfold s1. rewrite E. fold s2.
  repeat split.
Qed.

Theorem mutex_after_crash_lemma :
  forall ocfg tcfg fl evs1 p evs2 t1 t2,
    let s := run (init_cfg ocfg tcfg fl) (evs1 ++ ECrash p :: evs2) in
    viol s = false -> inside_b s t1 = true -> inside_b s t2 = true -> t1 = t2.
Proof. intros ocfg tcfg fl evs1 p evs2. apply mutex_lemma. Qed.

(* ---------- quiescence (no crash involved): the end-of-run probe of the line-level runs ------------------ *)

(* every thread idle, nobody inside, inside the contract: a fresh non-blocking (or any) acquire by an idle
   thread of a live process on an object of its own succeeds at its first attempt *)
Theorem quiescent_acquirable_lemma :
  forall ocfg tcfg fl evs tF oF m blk tm poll skip fuel,
    let s := run (init_cfg ocfg tcfg fl) evs in
    viol s = false ->
    (forall t, t_pc (thr s t) = PIdle /\ t_cs (thr s t) = []) ->
    dead s (t_proc (thr s tF)) = false -> o_proc (objs s oF) = t_proc (thr s tF) ->
    faulty s KOpen = false -> faulty s KLock = false -> 4 <= fuel ->
    snd (do_call fuel s tF (CAcq oF m blk tm poll skip)) = RTrue.
Proof.
  intros ocfg tcfg fl evs tF oF m blk tm poll skip fuel s Hv Hq Hal Hpr Hfo Hfl Hfu.
  destruct (quiescent_clean_lemma ocfg tcfg fl evs Hv Hq) as [Hobj Hh]. fold s in Hobj, Hh.
  destruct (Hobj oF) as (A & B & _). destruct (Hq tF) as [P _].
  apply acquire_free; auto.
Qed.
