(* Case_C17_Sound.v — what "the monitor accepted the observed log" means, independently of
   the model: if ok k = true then, at every position of the log, the readable conditions
   below hold (no second runner, steps of awaitables on the target loop by a thread inside
   it, every caller gets its own scripted outcome exactly once, one lock, ...), the run
   ended normally and every caller completed. *)
From Coq Require Import List Arith NArith Bool Lia.
Import ListNotations.
Require Import Aiuti.CaseLib Aiuti.XLoop Aiuti.XLoopInv Aiuti.Case_C17.

Definition mon_at (c : cfg) (evs : list event) : mst := fold_left (mon_step c) evs mon_init.
(* threads inside L.run_forever after the log prefix, by the log's own enter/exit entries *)
Definition ins_of (c : cfg) (evs : list event) : list tid := m_ins (mon_at c evs).
Definition done_of (c : cfg) (evs : list event) : list nat := m_done (mon_at c evs).
Definition lock_of (c : cfg) (evs : list event) : option nat := m_lock (mon_at c evs).
Definition owners_of (c : cfg) (evs : list event) : list (nat * tid) := m_own (mon_at c evs).

Lemma addtag_tags : forall b t m, m_tags (addtag b t m) = (if b then [t] else []) ++ m_tags m.
Proof. intros [] t m; reflexivity. Qed.

(* tags are only ever added *)
Lemma mon_step_tags : forall c m e, exists extra, m_tags (mon_step c m e) = extra ++ m_tags m.
Proof.
  intros c m [t o]. destruct o; cbn [mon_step];
    repeat match goal with |- context [match ?x with _ => _ end] => destruct x end;
    cbn [m_tags]; rewrite ?addtag_tags; cbn [m_tags]; rewrite ?addtag_tags;
    try (exists []; reflexivity);
    try (eexists; reflexivity);
    try (eexists; rewrite app_assoc; reflexivity).
Qed.

Lemma fold_tags_nil : forall c evs m, m_tags (fold_left (mon_step c) evs m) = [] -> m_tags m = [].
Proof.
  induction evs as [|e r IH]; simpl; intros m H; auto.
  apply IH in H. destruct (mon_step_tags c m e) as (x & Hx). rewrite Hx in H.
  apply app_eq_nil in H. tauto.
Qed.

Lemma tags_nil_at : forall c pre e post,
  m_tags (mon_at c (pre ++ e :: post)) = [] ->
  m_tags (mon_at c pre) = [] /\ m_tags (mon_step c (mon_at c pre) e) = [].
Proof.
  intros c pre e post H. unfold mon_at in *. rewrite fold_left_app in H. simpl in H.
  apply fold_tags_nil in H. split; auto.
  destruct (mon_step_tags c (fold_left (mon_step c) pre mon_init) e) as (x & Hx).
  rewrite Hx in H. apply app_eq_nil in H. tauto.
Qed.

Lemma all_tags_mem : forall raw, filter (fun t => mem_nat t raw) all_tags = [] ->
  forall t, In t raw -> In t all_tags -> False.
Proof.
  intros raw H t Hr Ha.
  assert (In t (filter (fun t => mem_nat t raw) all_tags)).
  { apply filter_In. split; auto. unfold mem_nat. apply existsb_exists. exists t. split; auto. apply Nat.eqb_refl. }
  rewrite H in H0. contradiction.
Qed.

Lemma addtag_nil : forall b t m, m_tags (addtag b t m) = [] -> b = false /\ m_tags m = [].
Proof. intros [] t m H; simpl in H; [discriminate|auto]. Qed.

(* what an accepted event satisfies, given the monitor's bookkeeping before it *)
Definition event_ok (c : cfg) (pre : list event) (e : event) : Prop :=
  let '(t, o) := e in
  match o with
  | OEnter k => k = 0 /\ ins_of c pre = [] /\
                (is_helper t = true -> exists l, l <> 0 /\ In (l, t) (owners_of c pre))
  | OAcq l => forall u, ~ In (l, u) (owners_of c pre)
  | ORel l => l <> 0 -> ~ In t (ins_of c pre)
  | OMklock _ => lock_of c pre = None
  | OTbl (Some l) => lock_of c pre = Some l
  | OStart _ onl | OFin _ onl => onl = true /\ In t (ins_of c pre)
  | ODone i o => ~ In i (done_of c pre) /\ outcome_ok c i o = true
  | OLitret b => b = true /\ ins_of c pre <> []
  | OStopret r j => j = true /\ ~ In TJM (ins_of c pre) /\
                    (r = true -> c_mode c = MRace)
  | OBlock => False
  | _ => True
  end.

Lemma mem_nat_In : forall n l, mem_nat n l = true <-> In n l.
Proof.
  intros n l. unfold mem_nat. rewrite existsb_exists. split.
  - intros (x & Hx & E). apply Nat.eqb_eq in E. now subst.
  - intros H. exists n. split; auto. apply Nat.eqb_refl.
Qed.
Lemma mem_tid_In' : forall t l, mem_tid t l = true <-> In t l.
Proof.
  intros t l. unfold mem_tid. rewrite existsb_exists. split.
  - intros (x & Hx & E). apply tid_eqb_eq in E. now subst.
  - intros H. exists t. split; auto. apply tid_eqb_refl.
Qed.

Lemma step_ok : forall c pre e, m_tags (mon_step c (mon_at c pre) e) = [] -> event_ok c pre e.
Proof.
  intros c pre [t o] H. unfold event_ok, ins_of, done_of, lock_of, owners_of.
  set (m := mon_at c pre) in *.
  destruct o; cbn [mon_step] in H; auto.
  - (* OTbl *) destruct r; auto. apply addtag_nil in H as [H _]. apply negb_false_iff in H.
    now apply optnat_eqb_eq in H.
  - (* OAcq *) cbn [m_tags] in H. apply addtag_nil in H as [H _]. intros u Hu.
    assert (lock_held (m_own m) l = true).
    { unfold lock_held. apply existsb_exists. exists (l, u). split; auto. simpl. apply Nat.eqb_refl. }
    congruence.
  - (* ORel *) cbn [m_tags] in H. apply addtag_nil in H as [H _]. intros Hl Hin.
    apply mem_tid_In' in Hin. rewrite Hin in H. simpl in H.
    apply negb_false_iff in H. apply Nat.eqb_eq in H. contradiction.
  - (* OMklock *) destruct (m_lock m); auto. simpl in H. discriminate.
  - (* OEnter *) cbn [m_tags] in H. apply addtag_nil in H as [H2 H]. apply addtag_nil in H as [H1 _].
    apply orb_false_iff in H1 as [A B]. apply negb_false_iff in A. apply Nat.eqb_eq in A.
    apply negb_false_iff in B. split; auto. split.
    + destruct (m_ins m); [reflexivity|discriminate].
    + intros Hh. rewrite Hh in H2. simpl in H2. apply negb_false_iff in H2.
      unfold holds_loop_lock in H2. apply existsb_exists in H2 as ([l u] & Hin & E). simpl in E.
      apply andb_prop in E as [E1 E2]. apply negb_true_iff in E1. apply Nat.eqb_neq in E1.
      apply tid_eqb_eq in E2. subst. eauto.
  - (* OStart *) apply addtag_nil in H as [H _]. apply orb_false_iff in H as [A B].
    apply negb_false_iff in A. apply negb_false_iff in B. apply mem_tid_In' in B. auto.
  - (* OFin *) apply addtag_nil in H as [H _]. apply orb_false_iff in H as [A B].
    apply negb_false_iff in A. apply negb_false_iff in B. apply mem_tid_In' in B. auto.
  - (* ODone *) cbn [m_tags] in H. apply addtag_nil in H as [H _]. apply orb_false_iff in H as [A B].
    apply negb_false_iff in B. split; auto. intros Hin. apply mem_nat_In in Hin. congruence.
  - (* OLitret *) apply addtag_nil in H as [H _]. apply orb_false_iff in H as [A B].
    apply negb_false_iff in A. split; auto. intros Q. rewrite Q in B. discriminate.
  - (* OStopret *) apply addtag_nil in H as [H _]. apply orb_false_iff in H as [H C].
    apply orb_false_iff in H as [A B]. apply negb_false_iff in A. split; auto. split.
    + intros Hin. apply mem_tid_In' in Hin. congruence.
    + intros ->. simpl in C. destruct (c_mode c); auto; discriminate.
  - (* OBlock *) simpl in H. discriminate.
Qed.

Lemma addtag_in : forall b t m x, In x (m_tags (addtag b t m)) -> x = t \/ In x (m_tags m).
Proof. intros [] t m x H; simpl in H; [destruct H; auto|auto]. Qed.

Lemma mon_step_tags_in : forall c m e,
  (forall t, In t (m_tags m) -> In t all_tags) -> forall t, In t (m_tags (mon_step c m e)) -> In t all_tags.
Proof.
  intros c m [u o] IH t H.
  assert (K : forall x, In x [T_outcome; T_offloop; T_tworunners; T_twolocks; T_lit; T_stop; T_lockdisc; T_block] -> In x all_tags)
    by (intros x Hx; simpl in Hx; repeat (destruct Hx as [<-|Hx]; [vm_compute; auto 20|]); contradiction).
  destruct o; cbn [mon_step] in H;
    repeat match type of H with context [match ?x with _ => _ end] => destruct x end;
    cbn [m_tags] in H; auto;
    repeat (apply addtag_in in H as [->|H]; [apply K; simpl; auto 20|]); cbn [m_tags] in H; auto;
    repeat (apply addtag_in in H as [->|H]; [apply K; simpl; auto 20|]); auto.
Qed.

Lemma fold_tags_in : forall c evs m,
  (forall t, In t (m_tags m) -> In t all_tags) ->
  forall t, In t (m_tags (fold_left (mon_step c) evs m)) -> In t all_tags.
Proof.
  induction evs as [|e r IH]; simpl; intros m Hm t H; auto.
  eapply IH; [|exact H]. apply mon_step_tags_in. exact Hm.
Qed.

Lemma monitor_sound_lemma : forall k, ok k = true ->
  k_res k = 0 /\ k_texc k = 0 /\
  (forall i, i < c_n (cfg_of k) -> In i (done_of (cfg_of k) (k_log k))) /\
  (forall pre e post, k_log k = pre ++ e :: post -> event_ok (cfg_of k) pre e).
Proof.
  intros k H. unfold ok in H. destruct (mon_tags k) eqn:Et; [|discriminate]. clear H.
  unfold mon_tags in Et. cbv zeta in Et.
  pose proof (all_tags_mem _ Et) as A.
  set (c := cfg_of k) in *. set (m := fold_left (mon_step c) (k_log k) mon_init) in *.
  assert (Htx : k_texc k = 0).
  { destruct (k_texc k) eqn:E; auto. exfalso. apply (A T_texc); [simpl; auto|vm_compute; auto 20]. }
  rewrite Htx in A. cbn [Nat.eqb app] in A.
  assert (Htags : m_tags m = []).
  { destruct (m_tags m) as [|t r] eqn:E; auto. exfalso.
    assert (In t all_tags).
    { apply (fold_tags_in c (k_log k) mon_init); [simpl; contradiction|]. fold m. rewrite E. left. reflexivity. }
    apply (A t); auto. apply in_or_app. right. left. reflexivity. }
  rewrite Htags, app_nil_r in A.
  assert (Hres : k_res k = 0 /\ forallb (fun i => mem_nat i (m_done m)) (seq 0 (c_n c)) = true).
  { destruct (k_res k) as [|[|r]].
    - split; auto. destruct (forallb _ _) eqn:Q; auto. exfalso. apply (A T_stuck_other); [simpl; auto|vm_compute; auto 20].
    - exfalso. unfold stuck_tags in A.
      remember (filter (fun i : nat => negb (mem_nat i (m_done m))) (seq 0 (c_n c))) as fl eqn:Efl.
      destruct fl as [|a l].
      + apply (A T_stuck_other); [simpl; auto|vm_compute; auto 20].
      + simpl in A. destruct (mem_nat a (m_xb m)).
        * apply (A T_stuck_k1); [simpl; auto|vm_compute; auto 20].
        * apply (A T_stuck_other); [simpl; auto|vm_compute; auto 20].
    - exfalso. apply (A T_steps); [simpl; auto|vm_compute; auto 20]. }
  destruct Hres as [Hres Hall]. split; auto. split; auto. split.
  - intros i Hi. rewrite forallb_forall in Hall. apply mem_nat_In. apply Hall. apply in_seq. lia.
  - intros pre e post Hlog. apply step_ok.
    assert (Q : m_tags (mon_at c (pre ++ e :: post)) = []) by (unfold mon_at; rewrite <- Hlog; exact Htags).
    apply tags_nil_at in Q. tauto.
Qed.
