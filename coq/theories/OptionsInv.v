(* OptionsInv.v — proofs for C15: soundness of the boolean checks over the
   generated option tables, and the per-loop independence of the registry
   (product construction), generic in the single-object step function. *)
From Coq Require Import List Arith Bool NArith String Lia.
Import ListNotations.
Require Import Aiuti.Options.

(* ---- option tables --------------------------------------------------------- *)

Lemma pair_mem_In p l : pair_mem p l = true -> In p l.
Proof.
  unfold pair_mem. intros H. apply existsb_exists in H as [q [Hin Heq]].
  apply andb_prop in Heq as [H1 H2]. apply String.eqb_eq in H1, H2.
  destruct p as [a b], q as [c d]. simpl in *. now subst.
Qed.

Lemma str_mem_In s l : str_mem s l = true -> In s l.
Proof.
  unfold str_mem. intros H. apply existsb_exists in H as [q [Hin Heq]].
  apply String.eqb_eq in Heq. now subst.
Qed.

Lemma forwardedb_sound d : forwardedb d = true ->
  forall o, In o (accepted d) ->
    In (o, o) (rebound d) /\ In (o, o) (applied d) /\ In o (ctor_params d).
Proof.
  unfold forwardedb. intros H o Ho. rewrite forallb_forall in H. specialize (H o Ho).
  apply andb_prop in H as [H H3]. apply andb_prop in H as [H1 H2].
  repeat split; [now apply pair_mem_In | now apply pair_mem_In | now apply str_mem_In].
Qed.

Lemma table_forwarded table : forallb forwardedb table = true ->
  forall d o, In d table -> In o (accepted d) ->
    In (o, o) (rebound d) /\ In (o, o) (applied d) /\ In o (ctor_params d).
Proof.
  intros H d o Hd. rewrite forallb_forall in H. now apply forwardedb_sound, H.
Qed.

Lemma documentedb_sound table : documentedb table = true ->
  forall name opts o, In (name, opts) documented -> In o opts ->
    exists d, In d table /\ dname d = name /\ In o (accepted d).
Proof.
  unfold documentedb. intros H name opts o Hn Ho. rewrite forallb_forall in H.
  specialize (H _ Hn). apply existsb_exists in H as [d [Hd Hc]]. simpl in Hc.
  apply andb_prop in Hc as [H1 H2]. apply String.eqb_eq in H1.
  rewrite forallb_forall in H2. exists d. repeat split; try assumption.
  apply str_mem_In. now apply H2.
Qed.

(* ---- product construction -------------------------------------------------- *)

Lemma assoc_unassoc_same {A} l (m : list (nat * A)) : assoc l (unassoc l m) = None.
Proof.
  induction m as [|[k v] r IH]; simpl; [reflexivity|].
  destruct (Nat.eqb k l) eqn:E; simpl; [exact IH|].
  rewrite Nat.eqb_sym, E. exact IH.
Qed.

Lemma assoc_unassoc_other {A} l l' (m : list (nat * A)) :
  l <> l' -> assoc l' (unassoc l m) = assoc l' m.
Proof.
  intros Hne. induction m as [|[k v] r IH]; simpl; [reflexivity|].
  destruct (Nat.eqb k l) eqn:E; simpl.
  - apply Nat.eqb_eq in E. subst k.
    destruct (Nat.eqb l' l) eqn:E2; [apply Nat.eqb_eq in E2; congruence | exact IH].
  - now rewrite IH.
Qed.

Section ProductProofs.
  Variables (St E : Type).
  Variable sinit : St.
  Variable sstep : St -> E -> St.

  Notation pstep := (pstep St E sinit sstep).
  Notation prun := (prun St E sinit sstep).
  Notation addressed := (addressed E).

  (* a step addressed to loop l leaves every other loop's object untouched *)
  Lemma pstep_frame : forall (r : reg St) l l' (p : pev E),
    (p = Close l \/ exists x, p = On l x) -> l <> l' ->
    assoc l' (live (pstep r p)) = assoc l' (live r).
  Proof.
    intros r l l' p [->|[x ->]] Hne; simpl.
    - destruct (assoc l (live r)); simpl; [now apply assoc_unassoc_other | reflexivity].
    - destruct (Nat.eqb l' l) eqn:E2; [apply Nat.eqb_eq in E2; congruence|].
      now apply assoc_unassoc_other.
  Qed.

  Lemma prun_snoc evs p : prun (evs ++ [p]) = pstep (prun evs) p.
  Proof. unfold Options.prun. now rewrite fold_left_app. Qed.

  Lemma addressed_snoc l evs p :
    addressed l (evs ++ [p]) = addr_step E l (addressed l evs) p.
  Proof. unfold Options.addressed. now rewrite fold_left_app. Qed.

  (* each loop's object is exactly what a single object would be after the
     events addressed to that loop (since it was last closed) *)
  Lemma registry_component : forall evs l,
    assoc l (live (prun evs)) =
    option_map (fun a => fold_left sstep a sinit) (addressed l evs).
  Proof.
    intros evs l. induction evs as [|p evs IH] using rev_ind; [reflexivity|].
    rewrite prun_snoc, addressed_snoc. destruct p as [l' x|l']; simpl.
    - destruct (Nat.eqb l l') eqn:El.
      + apply Nat.eqb_eq in El. subst l'. rewrite IH.
        destruct (addressed l evs) as [a|]; simpl; [now rewrite fold_left_app | reflexivity].
      + rewrite assoc_unassoc_other; [exact IH|]. intros ->. now rewrite Nat.eqb_refl in El.
    - destruct (Nat.eqb l l') eqn:El.
      + apply Nat.eqb_eq in El. subst l'.
        destruct (assoc l (live (prun evs))) eqn:Ea; simpl; [apply assoc_unassoc_same | exact Ea].
      + assert (Hne : l' <> l) by (intros ->; now rewrite Nat.eqb_refl in El).
        destruct (assoc l' (live (prun evs))); simpl; [|exact IH].
        rewrite assoc_unassoc_other; [exact IH | exact Hne].
  Qed.
End ProductProofs.
