(* CacheInv2.v — second layer of the invariant: values and "settled" keys (C01 second half). *)
From Coq Require Import List Arith NArith Bool Lia ZifyBool ZifyNat ZifyN.
Import ListNotations.
Require Import Aiuti.Cache Aiuti.CacheLemmas Aiuti.CacheInv.

Record Inv2 (s : state) : Prop := mkInv2 {
  iV : forall c cr v, getc s c = Some cr -> val_of (cpc cr) = Some v ->
       exists ir, nth_error (invs s) v = Some ir /\ istat ir = IOk /\ ikey ir = ckey cr;
  iVc : forall k v, cache_at s k = Some v ->
        exists ir, nth_error (invs s) v = Some ir /\ istat ir = IOk /\ ikey ir = k;
  iK1 : forall i j ir jr, nth_error (invs s) i = Some ir -> nth_error (invs s) j = Some jr ->
        istat ir = IOk -> ikey jr = ikey ir -> (istat jr = IActive \/ istat jr = IOk) -> i = j;
  iK2 : forall i ir c cr, nth_error (invs s) i = Some ir -> istat ir = IOk ->
        getc s c = Some cr -> ckey cr = ikey ir -> pre_phase (cpc cr) = false;
  iK3 : forall i ir, nth_error (invs s) i = Some ir -> istat ir = IOk ->
        cache_at s (ikey ir) = Some i
        \/ exists cr e, getc s (icaller ir) = Some cr /\ cpc cr = PPublish i e /\ ckey cr = ikey ir;
  iK4 : forall i ir c cr, nth_error (invs s) i = Some ir -> istat ir = IOk ->
        getc s c = Some cr -> cpc cr = PMiss2 -> ckey cr = ikey ir ->
        exists pr e, getc s (icaller ir) = Some pr /\ ckey pr = ikey ir
                     /\ (cpc pr = PPublish i e \/ cpc pr = PFinLock e (ORet i))
}.

(* an invocation that ended successfully keeps its record for ever *)
Lemma ok_stable s e s' : trans s e s' ->
  forall i ir, nth_error (invs s) i = Some ir -> istat ir = IOk -> nth_error (invs s') i = Some ir.
Proof.
  intros T. tcases T; intros j jr Hj Hok; proj_norm; auto.
  - rewrite nth_error_snoc. destruct (Nat.eqb_spec j (length (invs s))); auto.
    apply nth_error_Some_lt in Hj. lia.
  - erewrite nth_error_lset by (eapply nth_error_Some_lt; eauto).
    destruct (Nat.eqb_spec i j); auto. subst. congruence.
  - erewrite nth_error_lset by (eapply nth_error_Some_lt; eauto).
    destruct (Nat.eqb_spec i j); auto. subst. congruence.
  - erewrite nth_error_lset by (eapply nth_error_Some_lt; eauto).
    destruct (Nat.eqb_spec i j); auto. subst. destruct H3; congruence.
  - rewrite nth_error_map, Hj. simpl. unfold abandon. rewrite Hok. reflexivity.
Qed.

(* where a record of the post-state comes from *)
Lemma invs_origin s e s' : trans s e s' ->
  forall j jr', nth_error (invs s') j = Some jr' ->
    nth_error (invs s) j = Some jr'
    \/ (exists jr, nth_error (invs s) j = Some jr /\ ikey jr' = ikey jr /\ icaller jr' = icaller jr
                   /\ iloop jr' = iloop jr /\ (istat jr = IActive \/ istat jr = IAband)
                   /\ (istat jr' = IAband
                       \/ exists r t, e = IEnd j r t
                                      /\ istat jr' = match r with 0 => IOk | 1 => IExc | _ => ICanc end
                                      /\ (r = 0 -> istat jr = IActive)))
    \/ (j = length (invs s) /\ nth_error (invs s) j = None /\ istat jr' = IActive
        /\ exists c t cr en, e = IStart j c t /\ icaller jr' = c /\ getc s c = Some cr
                             /\ cpc cr = PInvoke en /\ ikey jr' = ckey cr).
Proof.
  intros T. tcases T; intros j jr Hj; proj_norm; auto.
  - rewrite nth_error_snoc in Hj. destruct (Nat.eqb_spec j (length (invs s))); auto.
    injection Hj as <-. right. right. subst. simpl. repeat split; eauto 10;
    try (apply nth_error_None; lia).
  - erewrite nth_error_lset in Hj by (eapply nth_error_Some_lt; eauto).
    destruct (Nat.eqb_spec i j); auto. subst. injection Hj as <-. right. left.
    exists ir. simpl. repeat split; auto. right. exists 0, (now s). auto.
  - erewrite nth_error_lset in Hj by (eapply nth_error_Some_lt; eauto).
    destruct (Nat.eqb_spec i j); auto. subst. injection Hj as <-. right. left.
    exists ir. simpl. repeat split; auto. right. exists 1, (now s). repeat split; auto; try discriminate.
  - erewrite nth_error_lset in Hj by (eapply nth_error_Some_lt; eauto).
    destruct (Nat.eqb_spec i j); auto. subst. injection Hj as <-. right. left.
    exists ir. simpl. repeat split; auto. right. exists 2, (now s). repeat split; auto; try discriminate.
  - rewrite nth_error_map in Hj. destruct (nth_error (invs s) j) as [jr0|] eqn:Hj0; simpl in Hj; [|discriminate].
    injection Hj as <-. unfold abandon. destruct (istat jr0) eqn:Hst; auto.
    destruct (iloop jr0 =? t); auto. right. left. exists jr0. simpl. repeat split; auto.
Qed.

Lemma pre_phase_own p : pre_phase p = true -> exists e, own_ev p = Some e /\ run_pc p = true.
Proof. destruct p; try discriminate; try (destruct d; try discriminate); simpl; eauto. Qed.

Section Pres2.
Variables (s s' : state) (e : ev).
Hypothesis I : Inv s.
Hypothesis I2 : Inv2 s.
Hypothesis T : trans s e s'.

Ltac start := start_ s.

Lemma pres_V : forall c cr v, getc s' c = Some cr -> val_of (cpc cr) = Some v ->
       exists ir, nth_error (invs s') v = Some ir /\ istat ir = IOk /\ ikey ir = ckey cr.
Proof.
  pose proof (iV s I2) as V. pose proof (iVc s I2) as Vc. pose proof (iE s I) as E.
  pose proof (ok_stable _ _ _ T) as OS.
  assert (G : forall c cr v, getc s c = Some cr -> val_of (cpc cr) = Some v ->
              exists ir, nth_error (invs s') v = Some ir /\ istat ir = IOk /\ ikey ir = ckey cr).
  { intros c cr v Hg Hv. destruct (V _ _ _ Hg Hv) as (ir & Hi & Ho & Hk). exists ir. auto. }
  assert (Gc : forall k v, cache_at s k = Some v ->
              exists ir, nth_error (invs s') v = Some ir /\ istat ir = IOk /\ ikey ir = k).
  { intros k v Hc. destruct (Vc _ _ Hc) as (ir & Hi & Ho & Hk). exists ir. auto. }
  clear V Vc OS.
  tcases T; intros c1 cr1 v1 Hg1 Hv; start.
  all: try solve [ eapply G; eauto ].
  all: mv_simpl; try discriminate; try (injection Hv as <-).
  all: try solve [ eapply G; eauto; oldown ].
  all: try solve [ eapply Gc; eauto ].
  all: try (match goal with o : outcome |- _ => destruct o end; simpl in Hv; try discriminate;
            try (injection Hv as <-)).
  all: try solve [ eapply G; eauto; oldown ].
  - erewrite nth_error_lset by (eapply nth_error_Some_lt; eauto). rewrite Nat.eqb_refl.
    eexists. split; [reflexivity|]. simpl. split; auto.
    destruct (E _ _ H H3) as (crx & ex & Hgx & _ & _ & Hkx & _). congruence.
Qed.

Lemma pres_Vc : forall k v, cache_at s' k = Some v ->
        exists ir, nth_error (invs s') v = Some ir /\ istat ir = IOk /\ ikey ir = k.
Proof.
  pose proof (iV s I2) as V. pose proof (iVc s I2) as Vc.
  pose proof (ok_stable _ _ _ T) as OS.
  assert (G : forall c cr v, getc s c = Some cr -> val_of (cpc cr) = Some v ->
              exists ir, nth_error (invs s') v = Some ir /\ istat ir = IOk /\ ikey ir = ckey cr).
  { intros c cr v Hg Hv. destruct (V _ _ _ Hg Hv) as (ir & Hi & Ho & Hk). exists ir. auto. }
  assert (Gc : forall k v, cache_at s k = Some v ->
              exists ir, nth_error (invs s') v = Some ir /\ istat ir = IOk /\ ikey ir = k).
  { intros k v Hc. destruct (Vc _ _ Hc) as (ir & Hi & Ho & Hk). exists ir. auto. }
  clear V Vc OS.
  tcases T; intros k v Hc; try solve [ eapply Gc; eauto ].
  (* SetC *)
  unfold cache_at in Hc. simpl in Hc. rewrite lget_lset in Hc.
  destruct (Nat.eqb_spec (ckey cr) k).
  - injection Hc as <-. subst k. eapply G; eauto. rewrite H2. reflexivity.
  - eapply Gc; eauto.
Qed.

Lemma pres_K1 : forall i j ir jr, nth_error (invs s') i = Some ir -> nth_error (invs s') j = Some jr ->
        istat ir = IOk -> ikey jr = ikey ir -> (istat jr = IActive \/ istat jr = IOk) -> i = j.
Proof.
  pose proof (iK1 s I2) as K1. pose proof (iK2 s I2) as K2.
  pose proof (single_flight_state s I) as SF.
  intros i j ir jr Hi Hj Hok Hk Hst.
  destruct (invs_origin _ _ _ T _ _ Hi) as [Hi0 | [(ir0 & Hi0 & Hki & _ & _ & Hsi & Hci) | (-> & _ & Hai & _)]];
    [ | | congruence].
  - (* i was already Ok *)
    destruct (invs_origin _ _ _ T _ _ Hj) as
        [Hj0 | [(jr0 & Hj0 & Hkj & _ & _ & Hsj & Hcj) | (-> & _ & Haj & c & t & cr & en & -> & Hcc & Hgc & Hpc & Hkc)]].
    + eapply K1; eauto.
    + destruct Hcj as [Hcj | (r & t & -> & Hr & Hr0)]; [destruct Hst; congruence|].
      destruct r as [|[|r]]; try (destruct Hst; congruence).
      eapply (K1 i j ir jr0); eauto; try congruence; try (left; apply Hr0; reflexivity).
    + exfalso. assert (Hp : pre_phase (cpc cr) = false) by (eapply K2; eauto; congruence).
      rewrite Hpc in Hp. discriminate.
  - (* i becomes Ok in this step *)
    destruct Hci as [Hci | (r & t & -> & Hr & Hr0)]; [congruence|].
    destruct r as [|[|r]]; try congruence. specialize (Hr0 eq_refl).
    destruct (invs_origin _ _ _ T _ _ Hj) as
        [Hj0 | [(jr0 & Hj0 & Hkj & _ & _ & Hsj & Hcj) | (-> & _ & Haj & c & t' & cr & en & Hq & _)]];
      [ | | discriminate Hq].
    + destruct Hst as [Hst|Hst].
      * eapply SF; eauto. congruence.
      * symmetry. eapply (K1 j i jr ir0); eauto. congruence.
    + destruct Hcj as [Hcj | (r & t' & Hq & _)]; [destruct Hst; congruence|]. congruence.
Qed.

Lemma pres_K2 : forall i ir c cr, nth_error (invs s') i = Some ir -> istat ir = IOk ->
        getc s' c = Some cr -> ckey cr = ikey ir -> pre_phase (cpc cr) = false.
Proof.
  pose proof (iK2 s I2) as K2. pose proof (iK4 s I2) as K4.
  pose proof (iC s I) as C. pose proof (iD s I) as D. pose proof (iE s I) as E. pose proof (iA2 s I) as A2.
  intros i ir c1 cr1 Hi Hok Hg1 Hk.
  destruct (invs_origin _ _ _ T _ _ Hi) as [Hi0 | [(ir0 & Hi0 & Hki & Hcal & _ & Hsi & Hci) | (-> & _ & Hai & _)]];
    [ | | congruence].
  - (* i was already Ok: nobody of that key can enter the pre-invocation phase *)
    clear Hi. revert Hg1. tcases T; intros Hg1; start.
    all: try solve [ eapply K2; eauto ].
    all: mv_simpl; try reflexivity.
    all: try solve [ eapply (K2 i ir); eauto; oldown ].
    + (* takeover: the publisher's marker is alive *)
      exfalso. destruct (K4 _ _ _ _ Hi0 Hok H H2 Hk) as (pr & ep & Hgp & Hkp & Hpp).
      assert (Hown : own_ev (cpc pr) = Some ep) by (destruct Hpp as [-> | ->]; reflexivity).
      assert (Hrun : lp s (cloop pr) = LRun) by (eapply C; eauto; destruct Hpp as [-> | ->]; reflexivity).
      pose proof (D _ _ _ Hgp Hown Hrun) as Hmk. rewrite Hkp, <- Hk in Hmk. rewrite Hmk in Hm.
      destruct Hm as [Hm | (l & e0 & Hm & Hd)]; [discriminate|]. injection Hm as <- <-.
      rewrite Hrun in Hd. discriminate.
    + exfalso. match goal with Hx : getc s _ = Some ?cr0, Hy : cpc ?cr0 = PUnlock (DComp _) |- _ =>
        pose proof (K2 _ _ _ _ Hi0 Hok Hx Hk) as Hp; rewrite Hy in Hp; discriminate end.
  - (* i becomes Ok in this step: a second pre-phase caller of the key would own the same marker *)
    destruct Hci as [Hci | (r & t & -> & Hr & Hr0)]; [congruence|].
    destruct r as [|[|r]]; try congruence. specialize (Hr0 eq_refl).
    destruct (E _ _ Hi0 Hr0) as (pr & ep & Hgp & Hpp & Hlp & Hkp & Hrp).
    assert (Hmk : marker_at s (ckey pr) = Some (cloop pr, ep)).
    { eapply D; eauto. rewrite Hpp. reflexivity. congruence. }
    clear Hi. revert Hg1. inversion T; subst; intros Hg1; start.
    + simpl. reflexivity.
    + destruct (pre_phase (cpc cr1)) eqn:Hpre; auto. exfalso.
      destruct (pre_phase_own _ Hpre) as (e1 & Hown & Hrp1).
      assert (Hrun : lp s (cloop cr1) = LRun) by (eapply C; eauto).
      pose proof (D _ _ _ Hg1 Hown Hrun) as Hm1.
      assert (ckey cr1 = ckey pr) by congruence.
      assert (e1 = ep) by congruence. subst e1.
      assert (c1 = icaller ir0). { eapply A2; eauto. rewrite Hpp. reflexivity. }
      subst c1. rewrite Hgp in Hg1. injection Hg1 as <-. rewrite Hpp in Hpre. discriminate.
Qed.

Lemma pres_K3 : forall i ir, nth_error (invs s') i = Some ir -> istat ir = IOk ->
        cache_at s' (ikey ir) = Some i
        \/ exists cr e, getc s' (icaller ir) = Some cr /\ cpc cr = PPublish i e /\ ckey cr = ikey ir.
Proof.
  pose proof (iK1 s I2) as K1. pose proof (iK3 s I2) as K3. pose proof (iV s I2) as V.
  pose proof (iE s I) as E.
  intros i ir Hi Hok.
  destruct (invs_origin _ _ _ T _ _ Hi) as [Hi0 | [(ir0 & Hi0 & Hki & Hcal & _ & Hsi & Hci) | (-> & _ & Hai & _)]];
    [ | | congruence].
  - clear Hi. destruct (K3 _ _ Hi0 Hok) as [Hc | (pr & ep & Hgp & Hpp & Hkp)].
    + (* already in the cache: only a Publish of the same value can overwrite it *)
      left. tcases T; proj_norm; auto.
      rewrite lget_lset. destruct (Nat.eqb_spec (ckey cr) (ikey ir)); auto.
      f_equal. destruct (V c cr i0 H) as (jr & Hj & Hjo & Hjk); [rewrite H2; reflexivity|].
      symmetry. eapply (K1 i i0 ir jr); eauto. congruence.
    + (* the publisher is still before its store *)
      tcases T; try solve [ right; exists pr, ep; repeat split; auto;
                            erewrite getc_set_pc by eassumption;
                            match goal with |- (if ?a =? ?b then _ else _) = _ =>
                              destruct (Nat.eqb_spec a b); [exfalso; subst; unfold can_probe, rel_pc in *;
                                repeat match goal with
                                       | Hq : getc s ?x = Some ?a1, Hq' : getc s ?x = Some ?b1 |- _ =>
                                           rewrite Hq in Hq'; injection Hq' as ->
                                       | Hd : _ \/ _ |- _ => destruct Hd
                                       | Hd : exists _, _ |- _ => destruct Hd
                                       | Hd : _ /\ _ |- _ => destruct Hd
                                       end; try congruence;
                                match goal with Hq : cpc ?a1 = _ , Hr : context [match cpc ?a1 with _ => _ end] |- _ =>
                                  rewrite Hq in Hr; contradiction end
                              | auto] end ].
      * destruct (Nat.eq_dec c (icaller ir)) as [->|Hne].
        -- left. rewrite Hgp in H. injection H as <-. rewrite Hpp in H2. injection H2 as <- <-.
           unfold cache_at. simpl. rewrite Hkp. apply lget_lset_eq.
        -- right. exists pr, ep. repeat split; auto. erewrite getc_set_pc by eassumption.
           destruct (Nat.eqb_spec c (icaller ir)); [contradiction|auto].
      * right. erewrite getc_cancel by eassumption.
        destruct (Nat.eqb_spec c (icaller ir)) as [->|Hne].
        -- rewrite Hgp in H. injection H as <-. eexists _, ep. simpl. repeat split; eauto.
        -- exists pr, ep. auto.
      * right. erewrite (getc_map _ (mark_started s)) by reflexivity. rewrite Hgp. simpl.
        eexists _, ep. rewrite ms_key. repeat split; eauto.
        destruct (mark_started_props s pr) as (_ & _ & _ & [-> | (l & e0 & dl & xd & Hc & _)]); congruence.
  - (* i becomes Ok in this step *)
    destruct Hci as [Hci | (r & t & -> & Hr & Hr0)]; [congruence|].
    destruct r as [|[|r]]; try congruence. specialize (Hr0 eq_refl).
    right. clear Hi. inversion T; subst.
    match goal with Hx : nth_error (invs s) i = Some ?r1, Hy : nth_error (invs s) i = Some ?r2 |- _ =>
      assert (r1 = r2) by congruence; subst r1 end.
    erewrite getc_set_pc by eassumption. rewrite Hcal, Nat.eqb_refl.
    eexists _, _. simpl. repeat split; eauto.
    match goal with Hx : nth_error (invs s) i = Some ?r1, Hy : istat ?r1 = IActive |- _ =>
      destruct (E _ _ Hx Hy) as (crx & ex & Hgx & _ & _ & Hkx & _) end.
    simpl. rewrite Hgx in *. congruence.
Qed.

Lemma pres_K4 : forall i ir c cr, nth_error (invs s') i = Some ir -> istat ir = IOk ->
        getc s' c = Some cr -> cpc cr = PMiss2 -> ckey cr = ikey ir ->
        exists pr e, getc s' (icaller ir) = Some pr /\ ckey pr = ikey ir
                     /\ (cpc pr = PPublish i e \/ cpc pr = PFinLock e (ORet i)).
Proof.
  pose proof (iK3 s I2) as K3. pose proof (iK4 s I2) as K4. pose proof (iB s I) as B.
  pose proof (iE s I) as E.
  intros i ir c1 cr1 Hi Hok Hg1 Hp1 Hk.
  destruct (invs_origin _ _ _ T _ _ Hi) as [Hi0 | [(ir0 & Hi0 & Hki & Hcal & _ & Hsi & Hci) | (-> & _ & Hai & _)]];
    [ | | congruence].
  - clear Hi.
    (* the publisher in s, if c1 was already at PMiss2 or the cache still misses *)
    assert (P : (exists cr0, getc s c1 = Some cr0 /\ ckey cr0 = ikey ir
                             /\ (cpc cr0 = PMiss2 \/ (cpc cr0 = PReprobe /\ cache_at s (ikey ir) = None))) ->
                exists pr e, getc s (icaller ir) = Some pr /\ ckey pr = ikey ir
                     /\ (cpc pr = PPublish i e \/ cpc pr = PFinLock e (ORet i))).
    { intros (cr0 & Hg0 & Hk0 & [Hp0 | (Hp0 & Hc0)]).
      - eapply K4; eauto.
      - destruct (K3 _ _ Hi0 Hok) as [Hc | (pr & ep & Hgp & Hpp & Hkp)]; [congruence|].
        exists pr, ep. auto. }
    revert Hg1. tcases T; intros Hg1; start.
    all: mv_simpl; try discriminate.
    all: try assert (Pub : exists pr e, getc s (icaller ir) = Some pr /\ ckey pr = ikey ir
                       /\ (cpc pr = PPublish i e \/ cpc pr = PFinLock e (ORet i)))
      by (apply P; first [ exists cr1; repeat split; auto; fail
                         | eexists; split; [eassumption|]; split; [assumption|]; right; split;
                           [assumption|congruence] ]).
    all: try (destruct Pub as (pr & ep & Hgp & Hkp & Hpp); clear P).
    all: try solve [
      erewrite getc_set_pc by eassumption;
      match goal with |- exists _ _, (if ?a =? ?b then _ else _) = _ /\ _ =>
        destruct (Nat.eqb_spec a b);
        [ exfalso; subst; unfold can_probe in *;
          repeat match goal with
                 | Hq : getc s ?x = Some ?a1, Hq' : getc s ?x = Some ?b1 |- _ =>
                     rewrite Hq in Hq'; injection Hq' as ->
                 | Hd : _ \/ _ |- _ => destruct Hd
                 | Hd : exists _, _ |- _ => destruct Hd
                 | Hd : _ /\ _ |- _ => destruct Hd
                 end; congruence
        | exists pr, ep; auto ] end ].
    all: try solve [ exists pr, ep; auto ].
    all: try solve [ exfalso; assert (Hl : lock s = Some c1) by (eapply B; eauto; rewrite Hp1; reflexivity);
                     congruence ].
    + (* SetC *)
      erewrite getc_set_pc by eassumption. destruct (Nat.eqb_spec c (icaller ir)) as [->|Hne].
      * rewrite Hgp in H. injection H as <-. destruct Hpp as [Hpp|Hpp]; [|congruence].
        rewrite Hpp in H2. injection H2 as <- <-. eexists _, _. split; [reflexivity|]. simpl. auto.
      * exists pr, ep. auto.
    + (* Cancel of c1 itself: impossible, it is not suspended *)
      exfalso. simpl in Hp1. rewrite Hp1 in H1. discriminate.
    + erewrite getc_cancel by eassumption. destruct (Nat.eqb_spec c (icaller ir)) as [->|Hne].
      * rewrite Hgp in H. injection H as <-. eexists _, ep. split; [reflexivity|]. simpl. auto.
      * exists pr, ep. auto.
    + (* Adv *)
      assert (Hp0 : cpc cr0 = PMiss2).
      { destruct (mark_started_props s cr0) as (_ & _ & _ & [Hq | (l & e0 & dl & xd & Hc & Hq)]); congruence. }
      destruct (K4 _ _ _ _ Hi0 Hok Hg0 Hp0 Hk) as (pr & ep & Hgp & Hkp & Hpp).
      erewrite (getc_map _ (mark_started s)) by reflexivity. rewrite Hgp. simpl.
      eexists _, ep. split; [reflexivity|]. rewrite ms_key. split; auto.
      destruct (mark_started_props s pr) as (_ & _ & _ & [-> | (l & e0 & dl & xd & Hc & _)]); auto.
      destruct Hpp; congruence.
  - (* i becomes Ok in this step *)
    destruct Hci as [Hci | (r & t & -> & Hr & Hr0)]; [congruence|].
    destruct r as [|[|r]]; try congruence. specialize (Hr0 eq_refl).
    clear Hi. inversion T; subst.
    match goal with Hx : nth_error (invs s) i = Some ?r1, Hy : nth_error (invs s) i = Some ?r2 |- _ =>
      assert (r1 = r2) by congruence; subst r1 end.
    erewrite getc_set_pc by eassumption. rewrite Hcal, Nat.eqb_refl.
    eexists _, _. split; [reflexivity|]. simpl. split; eauto.
    match goal with Hx : nth_error (invs s) i = Some ?r1, Hy : istat ?r1 = IActive |- _ =>
      destruct (E _ _ Hx Hy) as (crx & ex & Hgx & _ & _ & Hkx & _) end.
    rewrite Hgx in *. congruence.
Qed.

Lemma pres_Inv2 : Inv2 s'.
Proof.
  constructor; [apply pres_V|apply pres_Vc|apply pres_K1|apply pres_K2|apply pres_K3|apply pres_K4].
Qed.
End Pres2.

Lemma Inv2_init n tbl : Inv2 (init n tbl).
Proof.
  assert (P : forall c cr, getc (init n tbl) c = Some cr -> cpc cr = PStart).
  { intros c cr H. unfold getc, init in H. simpl in H. rewrite nth_error_map in H.
    destruct (nth_error tbl c); simpl in H; [injection H as <-|discriminate]. reflexivity. }
  constructor; intros.
  - apply P in H. rewrite H in H0. discriminate.
  - unfold cache_at, init in H. simpl in H. destruct k; discriminate.
  - simpl in H. destruct i; discriminate.
  - simpl in H. destruct i; discriminate.
  - simpl in H. destruct i; discriminate.
  - simpl in H. destruct i; discriminate.
Qed.

Lemma run_Inv2 : forall tr s s', Inv s -> Inv2 s -> run s tr = Some s' -> Inv s' /\ Inv2 s'.
Proof.
  intros tr s s' I I2 H. eapply (run_ind Inv2); eauto.
  intros s0 e s1 I0 I20 T. eapply pres_Inv2; eauto.
Qed.

Lemma reachable_Inv2 s : reachable s -> Inv2 s.
Proof. intros (n & tbl & tr & H). eapply run_Inv2; [apply Inv_init|apply Inv2_init|exact H]. Qed.

(* callers never change loop or key: they are those of the caller table *)
Definition static (tbl : list (nat * nat)) (s : state) : Prop :=
  forall c cr, getc s c = Some cr -> nth_error tbl c = Some (cloop cr, ckey cr).

Lemma static_init n tbl : static tbl (init n tbl).
Proof.
  intros c cr H. unfold getc, init in H. simpl in H. rewrite nth_error_map in H.
  destruct (nth_error tbl c) as [[l k]|]; simpl in H; [injection H as <-|discriminate]. reflexivity.
Qed.

Lemma static_pres tbl s e s' : static tbl s -> trans s e s' -> static tbl s'.
Proof.
  intros S T. tcases T; intros c1 cr1 Hg1; start_ s; simpl; rewrite ?ms_loop, ?ms_key.
  all: solve [ apply S; assumption ].
Qed.

Lemma run_static tbl : forall tr s s', static tbl s -> run s tr = Some s' -> static tbl s'.
Proof.
  induction tr as [|e tr IH]; intros s s' S H; simpl in H.
  - injection H as <-. exact S.
  - destruct (step s e) as [s1|] eqn:Hs; [|discriminate].
    apply step_trans in Hs as [_ Ht]. eapply IH; [|exact H]. eapply static_pres; eauto.
Qed.

Lemma run_app : forall tr1 tr2 s s', run s (tr1 ++ tr2) = Some s' ->
  exists s1, run s tr1 = Some s1 /\ run s1 tr2 = Some s'.
Proof.
  induction tr1 as [|e tr1 IH]; intros tr2 s s' H; simpl in *.
  - eauto.
  - destruct (step s e) as [s1|]; [|discriminate]. apply IH. exact H.
Qed.

(* once invocation i of key k has ended Ok: no later start for k, every later Ret of a caller of k is i *)
Lemma settled_forever tbl i k : forall post s s',
  Inv s -> Inv2 s -> static tbl s ->
  (exists ir, nth_error (invs s) i = Some ir /\ istat ir = IOk /\ ikey ir = k) ->
  run s post = Some s' ->
  (forall j c tj, In (IStart j c tj) post -> snd (lget (0, 0) tbl c) <> k)
  /\ (forall c v tv, In (Done c 0 v tv) post -> snd (lget (0, 0) tbl c) = k -> v = i).
Proof.
  assert (LG : forall c l k0, nth_error tbl c = Some (l, k0) -> lget (0, 0) tbl c = (l, k0)).
  { intros c. revert tbl. induction c as [|c IH]; intros [|x r] l k0 H; simpl in *; try discriminate.
    - congruence.
    - eauto. }
  induction post as [|e post IH]; intros s s' I I2 S (ir & Hi & Hok & Hk) H; simpl in H.
  - split; intros; contradiction.
  - destruct (step s e) as [s1|] eqn:Hs; [|discriminate].
    apply step_trans in Hs as [_ T].
    assert (I' : Inv s1) by (eapply pres_Inv1; eauto).
    assert (I2' : Inv2 s1) by (exact (pres_Inv2 _ _ _ I I2 T)).
    assert (S' : static tbl s1) by (eapply static_pres; eauto).
    assert (Hi' : exists ir, nth_error (invs s1) i = Some ir /\ istat ir = IOk /\ ikey ir = k).
    { exists ir. split; auto. eapply ok_stable; eauto. }
    destruct (IH _ _ I' I2' S' Hi' H) as [A B].
    split.
    + intros j c tj [Heq | Hin]; [subst e|eauto].
      inversion T; subst. intros Hq.
      match goal with Hg : getc s c = Some ?cr, Hp : cpc ?cr = PInvoke _ |- _ =>
        assert (Hpp : pre_phase (cpc cr) = false);
        [ eapply (iK2 s I2); eauto; rewrite (LG _ _ _ (S _ _ Hg)) in Hq; simpl in Hq; congruence
        | rewrite Hp in Hpp; discriminate ] end.
    + intros c v tv [Heq | Hin] Hq; [subst e|eauto].
      inversion T; subst.
      * match goal with Hg : getc s c = Some ?cr, Hp : cpc ?cr = PFinish ?o |- _ =>
          destruct o as [v0| |]; simpl in *; try discriminate;
          destruct (iV s I2 c cr v0 Hg) as (jr & Hj & Hjo & Hjk); [rewrite Hp; reflexivity|];
          rewrite (LG _ _ _ (S _ _ Hg)) in Hq; simpl in Hq
        end.
        symmetry. eapply (iK1 s I2 i _ ir jr); eauto. congruence.
Qed.

Lemma ok_stable_run : forall tr s s', run s tr = Some s' ->
  forall i ir, nth_error (invs s) i = Some ir -> istat ir = IOk -> nth_error (invs s') i = Some ir.
Proof.
  induction tr as [|e tr IH]; intros s s' H i ir Hi Hok; simpl in H.
  - injection H as <-. exact Hi.
  - destruct (step s e) as [s1|] eqn:Hs; [|discriminate].
    apply step_trans in Hs as [_ T]. eapply IH; eauto. eapply ok_stable; eauto.
Qed.

(* C01, second half, over ALL accepted event lists *)
Lemma no_reinvoke_lemma :
  forall nloops tbl pre i t post s,
    run (init nloops tbl) (pre ++ IEnd i 0 t :: post) = Some s ->
    exists ir, nth_error (invs s) i = Some ir /\ istat ir = IOk
      /\ (forall j c tj, In (IStart j c tj) post -> snd (lget (0, 0) tbl c) <> ikey ir)
      /\ (forall c v tv, In (Done c 0 v tv) post -> snd (lget (0, 0) tbl c) = ikey ir -> v = i).
Proof.
  intros n tbl pre i t post s H.
  apply run_app in H as (s1 & H1 & H2). simpl in H2.
  destruct (step s1 (IEnd i 0 t)) as [s2|] eqn:Hs; [|discriminate].
  destruct (run_Inv2 _ _ _ (Inv_init n tbl) (Inv2_init n tbl) H1) as [I1 I21].
  pose proof (run_static tbl _ _ _ (static_init n tbl) H1) as S1.
  apply step_trans in Hs as [_ T].
  assert (I2 : Inv s2) by (eapply pres_Inv1; eauto).
  assert (I22 : Inv2 s2) by (exact (pres_Inv2 _ _ _ I1 I21 T)).
  assert (S2 : static tbl s2) by (eapply static_pres; eauto).
  assert (Hi : exists ir, nth_error (invs s2) i = Some ir /\ istat ir = IOk).
  { inversion T; subst. eexists. split.
    - unfold set_pc, set_istat, set_invs. simpl.
      erewrite nth_error_lset by (eapply nth_error_Some_lt; eauto). rewrite Nat.eqb_refl. reflexivity.
    - reflexivity. }
  destruct Hi as (ir & Hi & Hok).
  exists ir. split; [eapply ok_stable_run; eauto|]. split; [exact Hok|].
  eapply settled_forever; eauto.
Qed.

Lemma single_flight_lemma :
  forall nloops tbl tr s, run (init nloops tbl) tr = Some s ->
  forall i j ir jr,
    nth_error (invs s) i = Some ir -> nth_error (invs s) j = Some jr ->
    istat ir = IActive -> istat jr = IActive -> ikey ir = ikey jr -> i = j.
Proof.
  intros nloops tbl tr s H. exact (single_flight_state s (run_Inv0 tr _ _ (Inv_init nloops tbl) H)).
Qed.

(* a successful result excludes any other live or successful invocation of its key, for ever *)
Lemma success_unique_lemma :
  forall nloops tbl tr s, run (init nloops tbl) tr = Some s ->
  forall i j ir jr,
    nth_error (invs s) i = Some ir -> nth_error (invs s) j = Some jr ->
    istat ir = IOk -> ikey jr = ikey ir -> (istat jr = IActive \/ istat jr = IOk) -> i = j.
Proof.
  intros nloops tbl tr s H.
  destruct (run_Inv2 _ _ _ (Inv_init nloops tbl) (Inv2_init nloops tbl) H) as [_ I2].
  exact (iK1 s I2).
Qed.
