(* FLockMon.v — the occupancy monitor of Case_C02 accepts every trace the model can
   produce within the contract: on any case where the implementation's log equals the
   model's, the monitor cannot raise a false alarm.                               *)
From Coq Require Import List Arith NArith Bool Lia ZifyBool.
Import ListNotations.
Require Import Aiuti.CaseLib Aiuti.FLock Aiuti.FLockInv Aiuti.FLockTL Aiuti.FLockFD Aiuti.FLockMutex Aiuti.FLockContract.
Require Aiuti.Case_C02.
Arguments upd : simpl never.
Arguments step : simpl never.

Import Case_C02.

(* threads beyond the configured ones have no program and never move *)
Definition quiet_beyond (nT : nat) (s : state) : Prop :=
  forall t, nT <= t -> t_prog (thr s t) = [] /\ t_pc (thr s t) = PIdle /\ t_cs (thr s t) = [].

Lemma step_quiet s t : t_prog (thr s t) = [] -> t_pc (thr s t) = PIdle -> step s t = s.
Proof. intros A B. unfold step. destruct (negb (enabled s t)); auto. now rewrite B, A. Qed.

Lemma quiet_apply nT s e : quiet_beyond nT s -> quiet_beyond nT (apply s e).
Proof.
  intros Q t Ht. destruct e as [t'|n|p]; cbn; auto.
  destruct (Nat.eq_dec t t') as [->|Hn].
  - destruct (Q t' Ht) as (A & B & C). rewrite (step_quiet s t' A B). auto.
  - destruct (step_frame s t' t Hn) as [E _]. rewrite E. auto.
Qed.

Lemma count_inside_le1 s nT : Inv s -> count_inside s nT <= 1.
Proof.
  intros HI. unfold count_inside.
  assert (G : forall l, NoDup l -> length (filter (inside_b s) l) <= 1).
  { induction l as [|x r IH]; intros ND; cbn; [lia|]. inversion ND as [|? ? Hx ND']; subst.
    destruct (inside_b s x) eqn:Ex; [|auto]. cbn.
    assert (filter (inside_b s) r = []) as ->; [|cbn; lia].
    clear IH. induction r as [|y r' IH']; cbn; auto.
    destruct (inside_b s y) eqn:Ey.
    - exfalso. apply Hx. left. symmetry. eapply mutex_inv; eauto.
    - apply IH'; try (intros Z; apply Hx; now right); try (inversion ND'; auto); try (constructor; [intros Z; inversion ND as [|? ? Hx2 _]; apply Hx2; now right|inversion ND'; auto]). }
  apply G, seq_NoDup.
Qed.

Lemma replay_state nT : forall tr s, snd (fst (replay nT s tr)) = run s (map fst tr).
Proof.
  induction tr as [|[e code] rest IH]; intros s; [reflexivity|]. cbn [replay map].
  destruct (replay nT (apply s e) rest) as [[g s2] oc] eqn:E. cbn.
  specialize (IH (apply s e)). rewrite E in IH. cbn in IH. exact IH.
Qed.

Lemma inside_other s t t' : t' <> t -> inside_b (step s t) t' = inside_b s t'.
Proof.
  intros Hn. destruct (step_frame s t t' Hn) as [A B]. unfold inside_b, is_dead. now rewrite A, B.
Qed.

Lemma count_inside_zero s nT : (forall t, t < nT -> inside_b s t = false) -> count_inside s nT = 0.
Proof.
  intros H. unfold count_inside. 
  assert (G : forall l, (forall t, In t l -> inside_b s t = false) -> filter (inside_b s) l = []).
  { induction l as [|x r IH]; intros A; cbn; auto. rewrite (A x) by now left. apply IH. intros; apply A; now right. }
  rewrite G; auto. intros t Ht. apply in_seq in Ht. apply H. lia.
Qed.

Lemma count_inside_pos s nT t : t < nT -> inside_b s t = true -> 1 <= count_inside s nT.
Proof.
  intros Ht Hi. unfold count_inside.
  assert (In t (filter (inside_b s) (seq 0 nT))) by (apply filter_In; split; auto; apply in_seq; lia).
  destruct (filter (inside_b s) (seq 0 nT)); [contradiction|cbn; lia].
Qed.

Theorem occupancy_monitor_complete_lemma :
  forall nT tr s, Inv s -> quiet_beyond nT s ->
    viol (run s (map fst tr)) = false ->
    forallb entry_ok (snd (replay nT s tr)) = true.
Proof.
  intros nT. induction tr as [|[e code] rest IH]; intros s HI HQ Hv; [reflexivity|].
  cbn [replay map fst] in *. change (run s (e :: map fst rest)) with (run (apply s e) (map fst rest)) in Hv.
  assert (Hv' : viol (apply s e) = false).
  { destruct (viol (apply s e)) eqn:E; auto. rewrite (viol_run_mono _ _ E) in Hv. discriminate. }
  assert (HI' : Inv (apply s e)) by (apply Inv_apply; auto).
  assert (HQ' : quiet_beyond nT (apply s e)) by (apply quiet_apply; auto).
  specialize (IH (apply s e) HI' HQ' Hv).
  destruct (replay nT (apply s e) rest) as [[g s2] oc]. cbv beta iota zeta delta [fst snd] in *.
  rewrite forallb_app. apply andb_true_intro. split; [|exact IH].
  destruct e as [t|n|p]; try reflexivity. cbn [apply] in *.
  destruct (inside_b s t) eqn:Ein, (inside_b (step s t) t) eqn:Ein'; try reflexivity.
  - (* t leaves *)
    cbn.
    assert (Z : count_inside (step s t) nT = 0).
    { apply count_inside_zero. intros t' Ht'. destruct (Nat.eq_dec t' t) as [->|Hn]; auto.
      rewrite inside_other by auto. destruct (inside_b s t') eqn:E; auto. exfalso. apply Hn. apply (mutex_inv s t' t HI E Ein). }
    rewrite Z. reflexivity.
  - (* t enters *)
    cbn.
    assert (Ht : t < nT).
    { destruct (Nat.lt_ge_cases t nT) as [L|G]; auto. destruct (HQ' t G) as (_ & _ & C).
      unfold inside_b in Ein'. rewrite C in Ein'. rewrite andb_false_r in Ein'. discriminate. }
    pose proof (count_inside_le1 _ nT HI') as L1. pose proof (count_inside_pos _ nT t Ht Ein') as L2.
    assert (Z : count_inside (step s t) nT = 1) by lia. rewrite Z. cbn.
    destruct (inside_In _ _ Ein') as [_ [o Ho]].
    destruct (t_cs (thr (step s t) t)) as [|o1 r] eqn:Ecs; [destruct Ho|].
    destruct HI' as [_ HF]. destruct (pr_cs _ HF t o1) as [_ Hfd]; [rewrite Ecs; now left|].
    unfold is_locked. destruct (o_fd (objs (step s t) o1)); [reflexivity|congruence].
Qed.

(* ---------- the log is self-consistent ------------------------------------------------------- *)

(* the scheduled runs put every thread into process 0: a crash of process 0 kills them all (nothing is logged
   any more: nobody steps), a crash of any other process changes nobody's status *)
Definition AllP0 (s : state) : Prop := forall t, t_proc (thr s t) = 0.

Lemma AllP0_apply s e : AllP0 s -> AllP0 (apply s e).
Proof.
  intros H t. destruct e as [t'|n|p]; cbn; auto. destruct (step_procs s t') as [_ E]. rewrite E. apply H.
Qed.

Lemma dead0_apply s e : dead s 0 = true -> dead (apply s e) 0 = true.
Proof.
  intros H. destruct e as [t'|n|p]; cbn; auto.
  - destruct (step_Upd s t') as [o0 U]. rewrite (u_dead _ _ _ _ U). exact H.
  - unfold upd. destruct (Nat.eqb 0 p); auto.
Qed.

Lemma dead_log_empty nT : forall tr s, AllP0 s -> dead s 0 = true -> snd (replay nT s tr) = [].
Proof.
  induction tr as [|[e code] rest IH]; intros s HP HD; [reflexivity|]. cbn [replay].
  specialize (IH (apply s e) (AllP0_apply s e HP) (dead0_apply s e HD)).
  destruct (replay nT (apply s e) rest) as [[g s2] oc]. cbn [snd] in *. subst oc. rewrite app_nil_r.
  destruct e as [t|n|p]; auto.
  assert (A : inside_b s t = false) by (unfold inside_b, is_dead; rewrite HP, HD; reflexivity).
  assert (B : inside_b (apply s (EStep t)) t = false).
  { unfold inside_b, is_dead. rewrite (AllP0_apply s (EStep t) HP), (dead0_apply s (EStep t) HD). reflexivity. }
  rewrite A, B. reflexivity.
Qed.

(* cur = the threads (below nT) that are inside in s *)
Definition tracks (nT : nat) (cur : list nat) (s : state) : Prop :=
  NoDup cur /\ forall t, In t cur <-> (t < nT /\ inside_b s t = true).

Lemma tracks_short nT cur s : Inv s -> tracks nT cur s -> length cur <= 1.
Proof.
  intros HI [ND H]. destruct cur as [|x [|y r]]; cbn; try lia. exfalso.
  assert (x = y).
  { apply (mutex_inv s); auto; apply H; cbn; auto. }
  subst. inversion ND as [|? ? Hn _]. apply Hn. now left.
Qed.

Lemma mem_In t l : mem t l = true <-> In t l.
Proof.
  unfold mem. rewrite existsb_exists. split.
  - intros (x & Hx & E). apply Nat.eqb_eq in E. now subst.
  - intros H. exists t. split; auto. apply Nat.eqb_refl.
Qed.

Lemma In_del t l x : In x (del t l) <-> (In x l /\ x <> t).
Proof.
  unfold del. rewrite filter_In. split; intros [A B]; split; auto.
  - intros ->. rewrite Nat.eqb_refl in B. discriminate.
  - destruct (Nat.eqb_spec x t); [contradiction|reflexivity].
Qed.

Lemma consistent_complete nT : forall tr s cur,
  Inv s -> quiet_beyond nT s -> viol (run s (map fst tr)) = false -> AllP0 s ->
  tracks nT cur s -> occ_consistent cur (snd (replay nT s tr)) = true.
Proof.
  induction tr as [|[e code] rest IH]; intros s cur HI HQ Hv HP HT; [reflexivity|].
  cbn [replay map fst] in *. pose proof (AllP0_apply s e HP) as HP'.
  change (run s (e :: map fst rest)) with (run (apply s e) (map fst rest)) in Hv.
  assert (Hv' : viol (apply s e) = false).
  { destruct (viol (apply s e)) eqn:E; auto. rewrite (viol_run_mono _ _ E) in Hv. discriminate. }
  assert (HI' : Inv (apply s e)) by (apply Inv_apply; auto).
  assert (HQ' : quiet_beyond nT (apply s e)) by (apply quiet_apply; auto).
  pose proof (tracks_short _ _ _ HI HT) as Hlen.
  destruct HT as [ND HT].
  (* events that do not change anybody's inside status keep cur *)
  assert (Keep : (forall t, inside_b (apply s e) t = inside_b s t) -> tracks nT cur (apply s e)).
  { intros E. split; auto. intros t. rewrite E. apply HT. }
  specialize (IH (apply s e)).
  destruct (replay nT (apply s e) rest) as [[g s2] oc] eqn:Erp. cbv beta iota zeta delta [fst snd] in *.
  destruct e as [t|n|p]; [|apply (IH cur); auto; apply Keep; reflexivity|].
  2:{ (* a crash *)
      destruct p as [|p'].
      - pose proof (dead_log_empty nT rest (apply s (ECrash 0)) HP') as E0. rewrite Erp in E0. cbn [snd] in E0.
        rewrite E0 by (cbn; unfold upd; reflexivity). reflexivity.
      - apply (IH cur); auto. apply Keep. intros t. unfold inside_b, is_dead. cbn. rewrite HP. unfold upd. reflexivity. }
  cbn [apply] in *.
  assert (Oth : forall t', t' <> t -> inside_b (step s t) t' = inside_b s t') by (intros; now apply inside_other).
  destruct (inside_b s t) eqn:Ein, (inside_b (step s t) t) eqn:Ein'; cbn [app].
  - apply (IH cur); auto. apply Keep. intros t'. destruct (Nat.eq_dec t' t) as [->|Hn]; [congruence|auto].
  - (* t leaves *)
    assert (Ht : t < nT).
    { destruct (Nat.lt_ge_cases t nT) as [L|G]; auto. destruct (HQ t G) as (_ & _ & C).
      unfold inside_b in Ein. rewrite C, andb_false_r in Ein. discriminate. }
    assert (Hin : In t cur) by (apply HT; auto).
    assert (HT' : tracks nT (del t cur) (step s t)).
    { split.
      - unfold del. apply NoDup_filter. exact ND.
      - intros t'. rewrite In_del, HT. destruct (Nat.eq_dec t' t) as [->|Hn].
        + split; [intros [_ C]; congruence|intros [_ C]; congruence].
        + rewrite Oth by auto. tauto. }
    cbn [occ_consistent occ_next]. rewrite (proj2 (mem_In t cur) Hin). cbn [andb].
    assert (Z : count_inside (step s t) nT = length (del t cur)).
    { rewrite count_inside_zero.
      - destruct cur as [|x [|y r]]; cbn in Hlen; try lia; [destruct Hin|].
        destruct Hin as [->|[]]. cbn. now rewrite Nat.eqb_refl.
      - intros t' Ht'. destruct (Nat.eq_dec t' t) as [->|Hn]; auto. rewrite Oth by auto.
        destruct (inside_b s t') eqn:E; auto. exfalso. apply Hn. apply (mutex_inv s t' t HI E Ein). }
    rewrite Z, Nat.eqb_refl. cbn [andb]. apply IH; auto.
  - (* t enters *)
    assert (Ht : t < nT).
    { destruct (Nat.lt_ge_cases t nT) as [L|G]; auto. destruct (HQ' t G) as (_ & _ & C).
      unfold inside_b in Ein'. rewrite C, andb_false_r in Ein'. discriminate. }
    assert (Hnin : ~ In t cur) by (intros C; apply HT in C; destruct C; congruence).
    assert (Hemp : cur = []).
    { destruct cur as [|x r]; auto. exfalso. assert (Hx : In x (x :: r)) by now left.
      apply HT in Hx. destruct Hx as [Hx1 Hx2]. assert (x <> t) by (intros ->; apply Hnin; now left).
      rewrite <- Oth in Hx2 by auto. apply H. apply (mutex_inv (step s t) x t HI' Hx2 Ein'). }
    subst cur.
    assert (HT' : tracks nT [t] (step s t)).
    { split; [constructor; auto; constructor|]. intros t'. cbn. split.
      - intros [<-|[]]. auto.
      - intros [L E]. left. symmetry. apply (mutex_inv (step s t) t' t HI' E Ein'). }
    cbn [occ_consistent occ_next mem existsb negb andb length].
    pose proof (count_inside_le1 _ nT HI') as L1. pose proof (count_inside_pos _ nT t Ht Ein') as L2.
    assert (Z : count_inside (step s t) nT = 1) by lia. rewrite Z. cbn. apply IH; auto.
  - apply (IH cur); auto. apply Keep. intros t'. destruct (Nat.eq_dec t' t) as [->|Hn]; [congruence|auto].
Qed.

Lemma thr0_proc l : forall t, t_proc (nth_fun (map (thr0 0) l) (thr0 0 []) t) = 0.
Proof. induction l as [|x r IH]; intros [|t']; cbn; auto. Qed.

(* in the shape of Case_C02.ok on the model's own trace *)
Theorem occupancy_monitor_accepts_model :
  forall cfg fl progs trace,
    let nT := length progs in
    let '(g, s, oc) := replay nT (init_sched cfg fl progs) trace in
    viol s = false ->
    occ_ok oc = true.
Proof.
  intros cfg fl progs trace nT.
  assert (HT0 : tracks nT [] (init_sched cfg fl progs)).
  { split; [constructor|]. intros t. cbn [In]. split; [tauto|]. intros [L E]. exfalso.
    assert (Z : forall l t, t_cs (nth_fun (map (thr0 0) l) (thr0 0 []) t) = []).
    { induction l as [|x r IH]; intros [|t']; cbn; auto. }
    assert (E' : inside_b (init_sched cfg fl progs) t = false).
    { unfold inside_b. replace (t_cs (thr (init_sched cfg fl progs) t)) with (@nil oid) by (symmetry; apply Z). apply andb_false_r. }
    rewrite E' in E. discriminate. }
  pose proof (occupancy_monitor_complete_lemma nT trace (init_sched cfg fl progs)) as H.
  pose proof (consistent_complete nT trace (init_sched cfg fl progs) []) as H2.
  pose proof (replay_state nT trace (init_sched cfg fl progs)) as E.
  destruct (replay nT (init_sched cfg fl progs) trace) as [[g s] oc]. cbn in *. subst s.
  intros Hv.
  assert (HP : AllP0 (init_sched cfg fl progs)).
  { intros t. unfold init_sched, init. cbn [thr]. apply thr0_proc. }
  assert (HI : Inv (init_sched cfg fl progs)).
  { unfold init_sched.
    replace (init (map (fun c => obj0 0 (fst c) (snd c)) cfg) (map (thr0 0) progs) fl)
      with (init_cfg (map (fun c => (0, fst c, snd c)) cfg) (map (fun p => (0, p)) progs) fl).
    + apply Inv_init.
    + unfold init_cfg. now rewrite !map_map. }
  assert (G : forall l t, length l <= t -> nth_fun (map (thr0 0) l) (thr0 0 []) t = thr0 0 []).
  { induction l as [|x r IH]; intros [|t'] L; cbn in *; auto; try lia. apply IH. lia. }
  assert (HQ : quiet_beyond nT (init_sched cfg fl progs)).
  { intros t Ht. unfold init_sched, init. cbn. rewrite G by exact Ht. auto. }
  unfold occ_ok. rewrite H, H2; auto.
Qed.

Theorem monitor_complete_lemma :
  forall cfg fl progs trace r0 o0 f0 e0 k0,
    let '(g, rs, oc, fin, ec, vi) := model_trace (CSched cfg fl progs trace r0 o0 f0 e0 k0) in
    vi = false -> ok (CSched cfg fl progs trace rs oc fin ec 0) = true.
Proof.
  intros cfg fl progs trace r0 o0 f0 e0 k0. unfold ok, model_trace.
  pose proof (occupancy_monitor_accepts_model cfg fl progs trace) as H. cbv zeta in H.
  destruct (replay (length progs) (init_sched cfg fl progs) trace) as [[g s] oc].
  intros Hv. rewrite Hv. cbn [orb]. rewrite andb_true_r. apply H; auto.
Qed.

(* ---------- model-free soundness: what an accepted occupancy log means ---------------------------- *)

(* the set of threads inside after a prefix of the log, computed from the enter / exit events alone *)
Definition inside_after (occ : list occ_entry) : list nat := fold_left occ_next occ [].

Lemma consistent_sound : forall occ cur,
  forallb entry_ok occ = true -> occ_consistent cur occ = true -> NoDup cur -> length cur <= 1 ->
  forall k, NoDup (fold_left occ_next (firstn k occ) cur) /\ length (fold_left occ_next (firstn k occ) cur) <= 1.
Proof.
  induction occ as [|x r IH]; intros cur He Hc ND HL k.
  - destruct k; cbn; auto.
  - destruct k as [|k]; [cbn; auto|]. cbn [firstn fold_left].
    cbn [forallb occ_consistent] in *. apply andb_prop in He. destruct He as [He1 He].
    apply andb_prop in Hc. destruct Hc as [Hc1 Hc].
    destruct x as [[[t e] n] lk]. apply andb_prop in Hc1. destruct Hc1 as [Hm Hn]. apply Nat.eqb_eq in Hn.
    unfold entry_ok in He1. apply andb_prop in He1. destruct He1 as [He1 _]. apply andb_prop in He1. destruct He1 as [Hle _].
    apply Nat.leb_le in Hle.
    apply IH; auto; [|lia].
    unfold occ_next. destruct e.
    + constructor; auto. intros C. apply mem_In in C. rewrite C in Hm. discriminate.
    + unfold del. apply NoDup_filter. exact ND.
Qed.

Theorem occupancy_sound_lemma :
  forall occ, occ_ok occ = true ->
    forall k, NoDup (inside_after (firstn k occ)) /\ length (inside_after (firstn k occ)) <= 1.
Proof.
  intros occ H k. unfold occ_ok in H. apply andb_prop in H. destruct H as [A B].
  apply (consistent_sound occ []); auto. constructor.
Qed.

Theorem monitor_sound_C02_lemma :
  forall cfg fl progs trace results occ final endcode km,
    ok (CSched cfg fl progs trace results occ final endcode km) = true ->
    km = 0 /\
    (snd (model_trace (CSched cfg fl progs trace results occ final endcode km)) = false ->
     forall k, NoDup (inside_after (firstn k occ)) /\ length (inside_after (firstn k occ)) <= 1).
Proof.
  intros cfg fl progs trace results occ final endcode km H. unfold ok in H.
  destruct (model_trace (CSched cfg fl progs trace results occ final endcode km)) as [[[[[g rs] oc] fin] ec] vi] eqn:E.
  apply andb_prop in H. destruct H as [A B]. apply Nat.eqb_eq in B. split; auto.
  cbn [snd]. intros ->. cbn [orb] in A. now apply occupancy_sound_lemma.
Qed.

(* ---------- line-level runs: what acceptance of a CLine case means (model-free) --------------------- *)

Theorem monitor_sound_line_lemma :
  forall cfg progs results occ endcode locked_end probe km,
    ok (CLine cfg progs results occ endcode locked_end probe km) = true ->
    km = 0 /\
    (progs_ok progs = true ->
     (forall k, NoDup (inside_after (firstn k occ)) /\ length (inside_after (firstn k occ)) <= 1) /\
     (endcode = 0 -> inside_after occ = [] -> (forall b, In b locked_end -> b = false) /\ probe = true)).
Proof.
  intros cfg progs results occ endcode locked_end probe km H. unfold ok in H.
  apply andb_prop in H. destruct H as [A B]. apply Nat.eqb_eq in B. split; auto.
  intros Hp. rewrite Hp in A. cbn [negb orb] in A. apply andb_prop in A. destruct A as [A1 A2].
  split; [now apply occupancy_sound_lemma|].
  intros -> Hin. unfold quiet_end in A2. fold (inside_after occ) in A2. rewrite Hin in A2. cbn in A2.
  apply andb_prop in A2. destruct A2 as [A2 A3]. split; auto.
  intros b Hb. rewrite forallb_forall in A2. specialize (A2 b Hb). destruct b; [discriminate|reflexivity].
Qed.
