(* FLockMon.v — the occupancy monitor of Case_C02 accepts every trace the model can
   produce within the contract: on any case where the implementation's log equals the
   model's, the monitor cannot raise a false alarm.                               *)
From Coq Require Import List Arith NArith Bool Lia ZifyBool.
Import ListNotations.
Require Import Aiuti.CaseLib Aiuti.FLock Aiuti.FLockInv Aiuti.FLockTL Aiuti.FLockFD Aiuti.FLockMutex.
Require Aiuti.Case_C02.
Arguments upd : simpl never.
Arguments step : simpl never.

Import Case_C02.

Definition entry_ok (x : occ_entry) : bool :=
  match x with (_, entering, n, locked) => (n <=? 1) && locked && (if entering then Nat.eqb n 1 else Nat.eqb n 0) end.

(* threads beyond the configured ones have no program and never move *)
Definition quiet_beyond (nT : nat) (s : state) : Prop :=
  forall t, nT <= t -> t_prog (thr s t) = [] /\ t_pc (thr s t) = PIdle /\ t_cs (thr s t) = [].

Lemma step_quiet s t : t_prog (thr s t) = [] -> t_pc (thr s t) = PIdle -> step s t = s.
Proof. intros A B. unfold step. destruct (negb (enabled s t)); auto. now rewrite B, A. Qed.

Lemma quiet_apply nT s e : quiet_beyond nT s -> quiet_beyond nT (apply s e).
Proof.
  intros Q t Ht. destruct e as [t'|n|p]; cbn; auto.
  destruct (Nat.eq_dec t t') as [->|Hn].
  - destruct (Q t' Ht) as (A & B & C). rewrite (step_quiet s t' A B). auto.
  - destruct (step_frame s t' t Hn) as [E _]. rewrite E. auto.
Qed.

Lemma count_inside_le1 s nT : Inv s -> count_inside s nT <= 1.
Proof.
  intros HI. unfold count_inside.
  assert (G : forall l, NoDup l -> length (filter (inside_b s) l) <= 1).
  { induction l as [|x r IH]; intros ND; cbn; [lia|]. inversion ND as [|? ? Hx ND']; subst.
    destruct (inside_b s x) eqn:Ex; [|auto]. cbn.
    assert (filter (inside_b s) r = []) as ->; [|cbn; lia].
    clear IH. induction r as [|y r' IH']; cbn; auto.
    destruct (inside_b s y) eqn:Ey.
    - exfalso. apply Hx. left. symmetry. eapply mutex_inv; eauto.
    - apply IH'; try (intros Z; apply Hx; now right); try (inversion ND'; auto); try (constructor; [intros Z; inversion ND as [|? ? Hx2 _]; apply Hx2; now right|inversion ND'; auto]). }
  apply G, seq_NoDup.
Qed.

Lemma replay_state nT : forall tr s, snd (fst (replay nT s tr)) = run s (map fst tr).
Proof.
  induction tr as [|[e code] rest IH]; intros s; [reflexivity|]. cbn [replay map].
  destruct (replay nT (apply s e) rest) as [[g s2] oc] eqn:E. cbn.
  specialize (IH (apply s e)). rewrite E in IH. cbn in IH. exact IH.
Qed.

Lemma inside_other s t t' : t' <> t -> inside_b (step s t) t' = inside_b s t'.
Proof.
  intros Hn. destruct (step_frame s t t' Hn) as [A B]. unfold inside_b, is_dead. now rewrite A, B.
Qed.

Lemma count_inside_zero s nT : (forall t, t < nT -> inside_b s t = false) -> count_inside s nT = 0.
Proof.
  intros H. unfold count_inside. 
  assert (G : forall l, (forall t, In t l -> inside_b s t = false) -> filter (inside_b s) l = []).
  { induction l as [|x r IH]; intros A; cbn; auto. rewrite (A x) by now left. apply IH. intros; apply A; now right. }
  rewrite G; auto. intros t Ht. apply in_seq in Ht. apply H. lia.
Qed.

Lemma count_inside_pos s nT t : t < nT -> inside_b s t = true -> 1 <= count_inside s nT.
Proof.
  intros Ht Hi. unfold count_inside.
  assert (In t (filter (inside_b s) (seq 0 nT))) by (apply filter_In; split; auto; apply in_seq; lia).
  destruct (filter (inside_b s) (seq 0 nT)); [contradiction|cbn; lia].
Qed.

Theorem occupancy_monitor_complete_lemma :
  forall nT tr s, Inv s -> quiet_beyond nT s ->
    viol (run s (map fst tr)) = false ->
    forallb entry_ok (snd (replay nT s tr)) = true.
Proof.
  intros nT. induction tr as [|[e code] rest IH]; intros s HI HQ Hv; [reflexivity|].
  cbn [replay map fst] in *. change (run s (e :: map fst rest)) with (run (apply s e) (map fst rest)) in Hv.
  assert (Hv' : viol (apply s e) = false).
  { destruct (viol (apply s e)) eqn:E; auto. rewrite (viol_run_mono _ _ E) in Hv. discriminate. }
  assert (HI' : Inv (apply s e)) by (apply Inv_apply; auto).
  assert (HQ' : quiet_beyond nT (apply s e)) by (apply quiet_apply; auto).
  specialize (IH (apply s e) HI' HQ' Hv).
  destruct (replay nT (apply s e) rest) as [[g s2] oc]. cbv beta iota zeta delta [fst snd] in *.
  rewrite forallb_app. apply andb_true_intro. split; [|exact IH].
  destruct e as [t|n|p]; try reflexivity. cbn [apply] in *.
  destruct (inside_b s t) eqn:Ein, (inside_b (step s t) t) eqn:Ein'; try reflexivity.
  - (* t leaves *)
    cbn.
    assert (Z : count_inside (step s t) nT = 0).
    { apply count_inside_zero. intros t' Ht'. destruct (Nat.eq_dec t' t) as [->|Hn]; auto.
      rewrite inside_other by auto. destruct (inside_b s t') eqn:E; auto. exfalso. apply Hn. apply (mutex_inv s t' t HI E Ein). }
    rewrite Z. reflexivity.
  - (* t enters *)
    cbn.
    assert (Ht : t < nT).
    { destruct (Nat.lt_ge_cases t nT) as [L|G]; auto. destruct (HQ' t G) as (_ & _ & C).
      unfold inside_b in Ein'. rewrite C in Ein'. rewrite andb_false_r in Ein'. discriminate. }
    pose proof (count_inside_le1 _ nT HI') as L1. pose proof (count_inside_pos _ nT t Ht Ein') as L2.
    assert (Z : count_inside (step s t) nT = 1) by lia. rewrite Z. cbn.
    destruct (inside_In _ _ Ein') as [_ [o Ho]].
    destruct (t_cs (thr (step s t) t)) as [|o1 r] eqn:Ecs; [destruct Ho|].
    destruct HI' as [_ HF]. destruct (pr_cs _ HF t o1) as [_ Hfd]; [rewrite Ecs; now left|].
    unfold is_locked. destruct (o_fd (objs (step s t) o1)); [reflexivity|congruence].
Qed.

(* in the shape of Case_C02.ok on the model's own trace *)
Theorem occupancy_monitor_accepts_model :
  forall cfg fl progs trace,
    let nT := length progs in
    let '(g, s, oc) := replay nT (init_sched cfg fl progs) trace in
    viol s = false ->
    forallb entry_ok oc = true.
Proof.
  intros cfg fl progs trace nT.
  pose proof (occupancy_monitor_complete_lemma nT trace (init_sched cfg fl progs)) as H.
  pose proof (replay_state nT trace (init_sched cfg fl progs)) as E.
  destruct (replay nT (init_sched cfg fl progs) trace) as [[g s] oc]. cbn in *. subst s.
  intros Hv. apply H; auto.
  - unfold init_sched.
    replace (init (map (fun c => obj0 0 (fst c) (snd c)) cfg) (map (thr0 0) progs) fl)
      with (init_cfg (map (fun c => (0, fst c, snd c)) cfg) (map (fun p => (0, p)) progs) fl).
    + apply Inv_init.
    + unfold init_cfg. now rewrite !map_map.
  - intros t Ht. unfold init_sched, init. cbn.
    assert (G : forall l t, length l <= t -> nth_fun (map (thr0 0) l) (thr0 0 []) t = thr0 0 []).
    { induction l as [|x r IH]; intros [|t'] L; cbn in *; auto; try lia. apply IH. lia. }
    rewrite G by exact Ht. auto.
Qed.

Theorem monitor_complete_lemma :
  forall cfg fl progs trace r0 o0 f0 e0 k0,
    let '(g, rs, oc, fin, ec, vi) := model_trace (CSched cfg fl progs trace r0 o0 f0 e0 k0) in
    vi = false -> ok (CSched cfg fl progs trace rs oc fin ec 0) = true.
Proof.
  intros cfg fl progs trace r0 o0 f0 e0 k0. unfold ok, model_trace.
  pose proof (occupancy_monitor_accepts_model cfg fl progs trace) as H. cbv zeta in H.
  destruct (replay (length progs) (init_sched cfg fl progs) trace) as [[g s] oc].
  intros Hv. rewrite Hv. cbn [orb]. rewrite andb_true_r. apply H, Hv.
Qed.
