(* Case_C03.v — monitor for C03 (buffered calls are never lost), decided on the
   observed trace + scripted input.  Proof-free. *)
From Coq Require Import List Arith NArith Bool.
Import ListNotations.
Require Import Aiuti.CaseLib Aiuti.Buffer Aiuti.Case_Buffer.
Definition case := Case_Buffer.case.
Definition agree := Case_Buffer.agree.

Record m3 := mk3 {
  del : list nat;                  (* args of the calls that ended without error *)
  oksets : list (list nat);
  opencall : option (nat * list nat);
  failed : option (list nat)       (* set of the last call, when it failed *)
}.
Definition m3_0 := mk3 [] [] None None.

Definition on_ev3 (k k' : trk) (e : event) (x : m3) : m3 := x.

Definition on_ob3 (k : trk) (o : obs) (x : m3) : option m3 :=
  match o with
  | FnStart c set t =>
      (* only submitted arguments; the arguments of a failed call are offered again *)
      if subset set (offered_args k) &&
         match failed x with Some f => subset f set | None => true end
      then Some (mk3 (del x) (oksets x) (Some (c, set)) None) else None
  | FnEnd c ok set =>
      match opencall x with
      | Some (c', set') =>
          if Nat.eqb c c' && nats_eqb set set' then     (* the set was not changed under the call *)
            if ok then Some (mk3 (del x ++ set) (oksets x ++ [set]) None None)
            else Some (mk3 (del x) (oksets x) None (Some set))
          else None
      | None => None
      end
  | Hang => None
  | _ => Some x
  end.

(* part 1: the call-set sub-monitor (Case_Buffer.csets), proved complete and sound *)
Definition ok_csets (c : case) : bool :=
  match c with
  | Case T evs observed => match csets None (concat observed) with Some _ => true | None => false end
  end.

(* part 2: only submitted arguments — every element of every set passed to the function had been handed
   over by the script up to that step (tracker).  Proved complete. *)
Definition on_obO (k : trk) (o : obs) (x : unit) : option unit :=
  match o with
  | FnStart c set t => if subset set (offered_args k) then Some tt else None
  | _ => Some tt
  end.
Definition ok_offered (c : case) : bool :=
  match c with
  | Case T evs observed =>
      match walk unit (fun _ _ _ x => x) on_obO evs observed trk0 tt with Some _ => true | None => false end
  end.

(* part 3: own-thread scripts handing over distinct arguments: no argument in two successful calls.
   Proved complete. *)
Definition ok_once (c : case) : bool :=
  match c with
  | Case T evs observed =>
      if own_thread evs && nodupb (offered_args (trk_run trk0 evs)) then nodupb (okargs (concat observed)) else true
  end.

(* part 4: the walk *)
Definition ok_walk (c : case) : bool :=
  match c with
  | Case T evs observed =>
      match walk m3 on_ev3 on_ob3 evs observed trk0 m3_0 with
      | None => false
      | Some (k, x) =>
          (* eventually delivered: when the tail lets the buffer settle *)
          (if settled T evs then subset (offered_args k) (del x) else true) &&
          (* own-thread submissions of distinct arguments: exactly one successful call each *)
          (if own_thread evs && nodupb (offered_args k) then nodupb (concat (oksets x)) else true)
      end
  end.

Definition ok (c : case) : bool := ok_csets c && ok_offered c && ok_once c && ok_walk c.

Definition nontrivial (c : case) : bool :=
  match c with
  | Case T evs observed =>
      (1 <=? count_obs is_okend observed) &&
      (2 <=? length (filter (fun e => match e with Submit _ _ | FPut _ _ => true | _ => false end) evs))
  end.

Definition verdict := verdict3 agree ok nontrivial.
