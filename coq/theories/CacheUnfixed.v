(* CacheUnfixed.v — the cache model WITHOUT the repairs F1 (fac37d0) and F2/F2b (a5d23b7, 205824d),
   kept to document the defects in Coq (DESIGN §6).  [stepU fix1 fix2] overrides exactly the steps the
   repairs changed and falls back to Cache.step everywhere else; [stepU true true] IS Cache.step
   (lemma stepU_fixed).  The refutations below are witnesses evaluated by vm_compute; the witness
   traces are the very traces the harness recorded from /repo with the fix commits reverted
   (seeded/revert-F1; seeded/revert-F2 + revert-F2b), scenarios F1 and F2 of the corpus.

     fix1 = false: the finally block removes the in-flight marker unconditionally (`del events[key]`):
                   another caller's marker is deleted; if no marker is left the `del` raises KeyError,
                   which replaces the caller's outcome (LibExc class 0).
     fix2 = false: the proxy wait on the computing loop propagates its loop's shutdown cancellation
                   (result 2 even when it had started) and the waiter takes a cancelled wait for its
                   own cancellation: it ends Cancelled although nobody cancelled it. *)
From Coq Require Import List Arith NArith Bool.
Import ListNotations.
Require Import Aiuti.Cache Aiuti.CacheMon.

Record ustate := mkU { ust : state; kerr : list nat }.   (* kerr: callers whose finally block raised KeyError *)

Definition initU (nloops : nat) (tbl : list (nat * nat)) : ustate := mkU (init nloops tbl) [].

Definition lift (k : list nat) (o : option state) : option ustate :=
  match o with Some s => Some (mkU s k) | None => None end.

(* l.434-439 before F1 *)
Definition fin_unfixed (s : state) (c : nat) (cr : crec) (e : nat) (o : outcome) : state * bool :=
  let s1 := set_evset s (lset false (evset s) e true) in
  match marker_at s1 (ckey cr) with
  | Some _ => (set_pc (set_lock (set_marker s1 (ckey cr) None) (Some c)) c cr (PFinUnlock o), false)
  | None => (set_pc (set_lock s1 (Some c)) c cr (PFinUnlock o), true)      (* KeyError(key) *)
  end.

Definition stepU (fix1 fix2 : bool) (u : ustate) (e : ev) : option ustate :=
  let s := ust u in
  if ended s then None else
  match e with
  | Acq t c =>
      match getc s c, lock s with
      | Some cr, None =>
          match cpc cr with
          | PFinLock e' o =>
              if fix1 then lift (kerr u) (step s e)
              else if (cloop cr =? t) && alive (lp s t) then
                     let (s', ke) := fin_unfixed s c cr e' o in
                     Some (mkU s' (if ke then c :: kerr u else kerr u))
                   else None
          | _ => lift (kerr u) (step s e)
          end
      | _, _ => None
      end
  | Done c kind payload tick =>
      match getc s c with
      | Some cr =>
          if mem c (kerr u) then
            (* the KeyError of the finally block is what the caller sees *)
            match cpc cr with
            | PFinish o =>
                if (tick =? now s)%N && alive (lp s (cloop cr)) && (kind =? 3) && (payload =? 0)
                then Some (mkU (set_pc s c cr (PDone o)) (kerr u)) else None
            | _ => None
            end
          else
            match cpc cr with
            | PWaitX _ _ _ (Some 2) _ =>
                if fix2 then lift (kerr u) (step s e)
                else if (tick =? now s)%N && alive (lp s (cloop cr)) && (kind =? 2) && (payload =? 0)
                     then Some (mkU (set_pc s c cr (PDone OCanc)) (kerr u))    (* foreign CancelledError *)
                     else None
            | _ => lift (kerr u) (step s e)
            end
      | None => None
      end
  | Proxy t c r =>
      if fix2 then lift (kerr u) (step s e)
      else match getc s c with
           | Some cr =>
               match cpc cr, r with
               | PWaitX l ev dl None xs, 2 =>
                   (* cancelled by the shutdown of its loop, started or not *)
                   if (l =? t) && match lp s l with LShut => true | _ => false end
                   then Some (mkU (set_pc s c cr (PWaitX l ev dl (Some 2) xs)) (kerr u)) else None
               | _, 1 => None                   (* nothing absorbs the cancellation *)
               | _, _ => lift (kerr u) (step s e)
               end
           | None => None
           end
  | _ => lift (kerr u) (step s e)
  end.

Fixpoint runU (f1 f2 : bool) (u : ustate) (tr : list ev) : option ustate :=
  match tr with
  | [] => Some u
  | e :: r => match stepU f1 f2 u e with Some u' => runU f1 f2 u' r | None => None end
  end.

Definition acceptsU (f1 f2 : bool) (nloops : nat) (tbl : list (nat * nat)) (tr : list ev) : bool :=
  match runU f1 f2 (initU nloops tbl) tr with Some u => ended (ust u) | None => false end.

(* with both repairs the variant is the model itself (as long as no KeyError is pending, which
   never arises with fix1) *)
Lemma stepU_fixed u e : kerr u = [] -> stepU true true u e = lift [] (step (ust u) e).
Proof.
  intros K. unfold stepU. rewrite K.
  destruct (ended (ust u)) eqn:En.
  - unfold step. rewrite En. reflexivity.
  - destruct e; try reflexivity.
    + (* Acq *)
      destruct (getc (ust u) c) as [cr|] eqn:G; destruct (lock (ust u)) eqn:L;
        try (unfold step; rewrite En, G, ?L; reflexivity).
      destruct (cpc cr); reflexivity.
    + (* Done *)
      destruct (getc (ust u) c) as [cr|] eqn:G; [|unfold step; rewrite En, G; reflexivity].
      simpl. destruct (cpc cr) as [| | | | | | | | | | | | | | l e0 dl [[|[|[|n]]]|] xs | |]; reflexivity.
Qed.

Lemma runU_fixed : forall tr u, kerr u = [] ->
  runU true true u tr = lift [] (run (ust u) tr).
Proof.
  induction tr as [|e tr IH]; intros u K; simpl.
  - destruct u; simpl in *; subst; reflexivity.
  - rewrite (stepU_fixed u e K). destruct (step (ust u) e) as [s'|]; simpl; [|reflexivity].
    apply (IH (mkU s' [])). reflexivity.
Qed.

(* ---- F1: scenario "loop 0 stops with its computation pending; 1 takes over; 0 is shut down; 2 arrives" *)
Definition tbl_F1 : list (nat * nat) := [(0,0); (1,0); (2,0)].
Definition tr_F1 : list ev :=
  [Get 0 0; Miss 0 0; Acq 0 0; Get 0 0; Miss 0 0; Rel 0 0; IStart 0 0 0%N; Adv 1%N; LoopEv 0 0; Adv 5%N;
   Get 1 1; Miss 1 1; Acq 1 1; Get 1 1; Miss 1 1; Rel 1 1; IStart 1 1 5%N; Adv 20%N; LoopEv 0 1;
   Cancel 0 20%N; IEnd 0 2 20%N; Acq 0 0; Rel 0 0; Done 0 2 0 20%N; LoopEv 0 2; LoopEv 0 3; Adv 30%N;
   Get 2 2; Miss 2 2; Acq 2 2; Get 2 2; Miss 2 2; Rel 2 2; IStart 2 2 30%N; Adv 55%N; IEnd 1 0 55%N;
   SetC 1 1; Acq 1 1; Rel 1 1; Done 1 0 1 55%N; LoopEv 1 0; Adv 80%N; IEnd 2 0 80%N; SetC 2 2; Acq 2 2;
   Rel 2 2; Done 2 3 0 80%N; LoopEv 2 0; End 0].

(* ---- F2: "1 waits cross-loop on 0; 0's main ends and its epilogue cancels 1's proxy wait" *)
Definition tbl_F2 : list (nat * nat) := [(0,0); (1,0)].
Definition tr_F2 : list ev :=
  [Get 0 0; Miss 0 0; Acq 0 0; Get 0 0; Miss 0 0; Rel 0 0; IStart 0 0 0%N; Adv 50%N;
   Get 1 1; Miss 1 1; Acq 1 1; Get 1 1; Miss 1 1; Rel 1 1; XSub 1 1; Adv 200%N; LoopEv 0 0; LoopEv 0 1;
   Cancel 0 200%N; IEnd 0 2 200%N; Acq 0 0; Rel 0 0; Done 0 2 0 200%N; Proxy 0 1 2; LoopEv 0 2; LoopEv 0 3;
   Done 1 2 0 200%N; LoopEv 1 0; End 0].

Definition active_pairs (s : state) : list (nat * nat) :=
  let idx := seq 0 (length (invs s)) in
  filter (fun p => match nth_error (invs s) (fst p), nth_error (invs s) (snd p) with
                   | Some a, Some b =>
                       (fst p <? snd p)
                       && match istat a, istat b with IActive, IActive => ikey a =? ikey b | _, _ => false end
                   | _, _ => false
                   end)
         (list_prod idx idx).

(* Without F1 the model reaches a state with two invocations of one key active at once on running
   loops (the prefix of tr_F1 up to caller 2's IStart), the full trace is a run of the unfixed model,
   the repaired model rejects it, and both monitors reject it (overlap; KeyError outcome). *)
Lemma single_flight_refuted_without_fix1_l :
  exists tr u i j ir jr,
    runU false true (initU 3 tbl_F1) tr = Some u
    /\ nth_error (invs (ust u)) i = Some ir /\ nth_error (invs (ust u)) j = Some jr
    /\ i <> j /\ istat ir = IActive /\ istat jr = IActive /\ ikey ir = ikey jr
    /\ ok_C01 tbl_F1 tr = false.
Proof.
  eexists (firstn 34 tr_F1), _, 1, 2, _, _.
  split; [vm_compute; reflexivity|]. vm_compute. repeat split; congruence.
Qed.

Lemma keyerror_refuted_without_fix1_l :
  acceptsU false true 3 tbl_F1 tr_F1 = true
  /\ In (Done 2 3 0 80%N) tr_F1
  /\ accepts 3 tbl_F1 tr_F1 = false
  /\ ok_C06 tbl_F1 tr_F1 = false /\ ok_C01 tbl_F1 tr_F1 = false.
Proof. vm_compute. repeat split; auto 60. Qed.

(* Without F2/F2b caller 1 ends Cancelled although no Cancel 1 occurs in the trace. *)
Lemma foreign_cancel_refuted_without_fix2_l :
  acceptsU true false 2 tbl_F2 tr_F2 = true
  /\ In (Done 1 2 0 200%N) tr_F2 /\ (forall t, ~ In (Cancel 1 t) tr_F2)
  /\ accepts 2 tbl_F2 tr_F2 = false
  /\ ok_C06 tbl_F2 tr_F2 = false.
Proof.
  split; [vm_compute; reflexivity|]. split; [vm_compute; auto 60|]. split.
  - intros t H. vm_compute in H. repeat (destruct H as [H|H]; [discriminate H|]). exact H.
  - split; vm_compute; reflexivity.
Qed.
