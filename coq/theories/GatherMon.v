(* GatherMon.v — the monitor of Case_C20.v accepts every trace of the model. *)
From Coq Require Import List Arith NArith Bool Lia Permutation ZifyBool ZifyNat ZifyN.
Import ListNotations.
Require Import Aiuti.CaseLib Aiuti.Gather Aiuti.GatherInv Aiuti.Case_C20.

Lemma lookup_end_in (l : list (nat * N)) i t :
  NoDup (map fst l) -> In (i, t) l -> lookup_end i l = (1, t).
Proof.
  induction l as [|[j u] r IH]; simpl; [tauto|]. intros ND [E|Hin].
  - injection E as -> ->. now rewrite Nat.eqb_refl.
  - inversion ND as [|? ? Hnotin ND']; subst.
    destruct (Nat.eqb_spec i j) as [->|Hne].
    + exfalso. apply Hnotin. change j with (fst (j, t)). now apply in_map.
    + now apply IH.
Qed.

Lemma nats_eqb_refl l : list_eqb Nat.eqb l l = true.
Proof. apply list_eqb_refl. apply Nat.eqb_refl. Qed.

Lemma wanted_expected h only aws : wanted h only aws = expected (isinst h) only aws.
Proof. symmetry. apply expected_flat_map. Qed.

Lemma model_ends_ok tcall aws :
  let s := grun aws tcall (schedule tcall aws) in
  let es := map (fun i => lookup_end i (clog s)) (seq 0 (length aws)) in
  length es = length aws /\ all_done_by (tdone tcall aws) es = true.
Proof.
  cbv zeta. split; [now rewrite map_length, seq_length|].
  destruct (all_completed_lemma aws tcall) as [Hlen Hall].
  destruct (run_complete aws tcall (schedule tcall aws) (schedule_perm_idx tcall aws)) as [_ Hlog].
  unfold all_done_by. apply forallb_forall. intros x Hx.
  apply in_map_iff in Hx as (i & <- & Hi). apply in_seq in Hi.
  destruct (nth_error aws i) as [a|] eqn:Ea; [|apply nth_error_None in Ea; lia].
  destruct (Hall i a Ea) as (Hin & Hle & _).
  rewrite (lookup_end_in _ i (end_of tcall a)); [simpl; lia| |exact Hin].
  rewrite Hlog, map_map. simpl.
  apply (Permutation_NoDup (Permutation_sym (schedule_perm_idx tcall aws))). apply seq_NoDup.
Qed.

Theorem monitor_accepts_model_lemma :
  forall rm h only tcall aws, ok (Case rm h only tcall aws (model_trace rm h only tcall aws)) = true.
Proof.
  intros rm h only tcall aws. unfold ok, model_trace.
  destruct (model_ends_ok tcall aws) as [Hlen Hdone]. cbv zeta in Hlen, Hdone.
  rewrite wanted_expected.
  destruct rm.
  - rewrite raise_first_lemma.
    destruct (expected (isinst h) only aws) as [|e r]; cbn [hd_error ofin oends oyields];
      rewrite Hlen, Hdone, !Nat.eqb_refl; reflexivity.
  - rewrite gather_excs_lemma. cbn [ofin oends oyields].
    rewrite Hlen, Hdone, !Nat.eqb_refl, map_map. cbn [fst snd]. rewrite map_id, nats_eqb_refl.
    cbn [andb]. apply forallb_forall. intros y Hy. apply in_map_iff in Hy as (e & <- & _).
    cbn [fst snd]. now rewrite Hdone, Nat.eqb_refl.
Qed.
