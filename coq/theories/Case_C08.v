(* Case_C08.v — monitor for C08 (debounce: never two calls at once, never an
   empty set; immediate arguments: one call per quiet period, [timeout] after
   the last arrival), decided on the observed trace + scripted input. *)
From Coq Require Import List Arith NArith Bool.
Import ListNotations.
Require Import Aiuti.CaseLib Aiuti.Buffer Aiuti.Case_Buffer.
Definition case := Case_Buffer.case.
Definition agree := Case_Buffer.agree.

Record m8 := mk8 {
  opened : option nat;         (* callno of the running call *)
  nextc : nat;
  tlast : N;                   (* instant of the latest accepted submission *)
  anysub : bool;
  burst : list nat;            (* args submitted since the buffer was last seen settled *)
  clean : bool;                (* since then: no failure, no submission under a running call, no tie *)
  pendc : list nat;            (* wait(cancel=True) issued and not yet returned *)
  ties : nat;
  inflight : nat;              (* how many entries of [burst] had arrived when the running call started *)
  tend : N                     (* instant of the end of the latest call (0: none yet) *)
}.
Definition m8_0 := mk8 None 0 0%N false [] true [] 0 0 0%N.

Definition on_ev8 (T : N) (k k' : trk) (e : event) (x : m8) : m8 :=
  match e with
  | Submit p kd =>
      if submit_accepted k p then
        let tie := anysub x && N.eqb (k_now k) (tlast x + T) in
        mk8 (opened x) (nextc x) (k_now k) true (burst x ++ imm_args kd)
            (clean x && match opened x with None => true | Some _ => false end && negb tie)
            (pendc x) (ties x + if tie then 1 else 0) (inflight x) (tend x)
      else x
  | Wait w true =>
      if wait_accepted k w then mk8 (opened x) (nextc x) (tlast x) (anysub x) (burst x) (clean x) (pendc x ++ [w]) (ties x) (inflight x) (tend x)
      else x
  | _ => x
  end.

Definition on_ob8 (T : N) (imm : bool) (k : trk) (o : obs) (x : m8) : option m8 :=
  match o with
  | FnStart c set t =>
      let serial := match opened x with None => true | Some _ => false end in
      let nonempty := match set with [] => false | _ => true end in
      let forced := match pendc x with [] => false | _ => true end in
      (* never before timeout after the latest submission, unless a flush was forced *)
      let not_early := negb imm || forced || negb (anysub x) || (tlast x + T <=? t)%N in
      (* a clean burst: exactly timeout after its last arrival, all of it *)
      let exact := negb imm || forced || negb (clean x) ||
                   (N.eqb t (tlast x + T) && subset (burst x) set && subset set (burst x)) in
      (* never later than timeout after the latest submission / the end of the previous call (whichever is
         later): the quiet period is [timeout], also for the retry of kept arguments after failed calls *)
      let not_late := negb imm || forced || (t <=? N.max (tlast x) (tend x) + T)%N in
      if serial && nonempty && Nat.eqb c (nextc x) && not_early && exact && not_late
      then Some (mk8 (Some c) (S (nextc x)) (tlast x) (anysub x) (burst x) (clean x) (pendc x) (ties x)
                     (length (burst x)) (tend x))
      else None
  | FnEnd c ok set =>
      match opened x with
      | Some c' =>
          if Nat.eqb c c' then
            if ok then
              (* what had arrived before the call started and is in its set is done;
                 the buffer is settled again when nothing else is outstanding *)
              let rest := minus (firstn (inflight x) (burst x)) set ++ skipn (inflight x) (burst x) in
              Some (mk8 None (nextc x) (tlast x) (anysub x) rest
                        (match rest with [] => true | _ => false end) (pendc x) (ties x) 0 (k_now k))
            else Some (mk8 None (nextc x) (tlast x) (anysub x) (burst x) false (pendc x) (ties x) 0 (k_now k))
          else None
      | None => None
      end
  | WaitRet w _ _ =>
      Some (mk8 (opened x) (nextc x) (tlast x) (anysub x) (burst x) (clean x)
                (filter (fun v => negb (Nat.eqb v w)) (pendc x)) (ties x) (inflight x) (tend x))
  | DaemonEnded =>
      (* the daemon ends only by a Shutdown of the script: a daemon that has ended otherwise (e.g. killed by a
         failure of the buffered function) delivers nothing any more *)
      if k_dead k then Some x else None
  | Hang => None
  end.

(* part 1: the serial automaton (Case_Buffer.serial) on the flattened trace: no FnStart while a
   call is open, no empty set, consecutive call numbers, FnEnd only for the open call.  Proved
   complete (accepts every model trace) and sound (acceptance implies the readable statement) in
   BufferInv.v / props/C08.v. *)
Definition ok_serial (c : case) : bool :=
  match c with
  | Case T evs observed => match serial false 0 (concat observed) with Some _ => true | None => false end
  end.

(* part 2: the timed walk (not-early, exact clean burst, not-late) *)
Definition ok_walk (c : case) : bool :=
  match c with
  | Case T evs observed =>
      match walk m8 (on_ev8 T) (on_ob8 T (imm_only evs)) evs observed trk0 m8_0 with
      | None => false
      | Some _ => true
      end
  end.

Definition ok (c : case) : bool := ok_serial c && ok_walk c.

Definition nontrivial (c : case) : bool :=
  match c with
  | Case T evs observed =>
      (1 <=? count_obs is_start observed) &&
      (2 <=? length (filter (fun e => match e with Submit _ _ => true | _ => false end) evs)) &&
      match walk m8 (on_ev8 T) (on_ob8 T (imm_only evs)) evs observed trk0 m8_0 with
      | Some (_, x) => Nat.eqb (ties x) 0
      | None => true
      end
  end.

Definition verdict := verdict3 agree ok nontrivial.
