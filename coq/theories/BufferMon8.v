(* BufferMon8.v — completeness of the walk part of the C08 trace monitor (Case_C08.ok_walk):
   it accepts the model's own trace of every event list.
   Part A: scripts that are not "immediate only" — the timing conjuncts are switched
           off, what remains is the serial discipline (BufferInv) and "no Hang".
   Part B: immediate-only scripts — simulation between the monitor state and the model
           state, event by event. *)
From Coq Require Import List Arith NArith Bool Lia ZifyBool ZifyNat ZifyN.
Import ListNotations.
Require Import Aiuti.CaseLib Aiuti.Buffer Aiuti.Case_Buffer Aiuti.Case_C08 Aiuti.BufferCore Aiuti.BufferInv
               Aiuti.BufferJoin Aiuti.BufferMon.

Definition is_some {A} (o : option A) : bool := match o with Some _ => true | None => false end.
Definition nohang (os : list obs) : bool := forallb (fun o => match o with Hang => false | _ => true end) os.

(* ---- Part A ------------------------------------------------------------------------------ *)
Definition op_ok (x : m8) : Prop := forall c, opened x = Some c -> nextc x = S c.

Lemma walk_obs8_false T k os : forall x o' n',
  op_ok x -> nohang os = true -> (has_ended os = true -> k_dead k = true) ->
  serial (is_some (opened x)) (nextc x) os = Some (o', n') ->
  exists x', walk_obs m8 (on_ob8 T false) k os x = Some x' /\ op_ok x' /\ is_some (opened x') = o' /\ nextc x' = n'.
Proof.
  induction os as [|o r IH]; intros x o' n' Hop Hh Hk Hs; cbn in *.
  - inversion Hs; subst. exists x. auto.
  - apply andb_prop in Hh as [Hh1 Hh2]. destruct o; cbn [serial on_ob8 is_ended orb] in *; try discriminate.
    + destruct (opened x) eqn:Eo; cbn [is_some] in Hs; [discriminate|]. destruct set; [discriminate|].
      destruct (Nat.eqb callno (nextc x)) eqn:Ec; [|discriminate]. cbn [andb negb orb].
      apply IH; auto. intros c E. cbn in E. inversion E; subst. cbn. apply Nat.eqb_eq in Ec. lia.
    + destruct (opened x) as [c'|] eqn:Eo; cbn [is_some andb] in Hs; [|discriminate].
      pose proof (Hop c' Eo) as En. rewrite En in Hs. cbn [Nat.eqb] in Hs.
      destruct (Nat.eqb callno c') eqn:Ec; [|discriminate]. rewrite <- En in Hs.
      destruct ok; apply IH; auto; intros c E; discriminate.
    + apply IH; auto.
    + rewrite (Hk eq_refl). apply IH; auto.
Qed.

(* DaemonEnded is observed only in steps after which the input tracker is dead *)
Fixpoint ended_ok (k : trk) (evs : list event) (obss : list (list obs)) : Prop :=
  match evs, obss with
  | e :: er, os :: osr => (has_ended os = true -> k_dead (trk_ev k e) = true) /\ ended_ok (trk_ev k e) er osr
  | _, _ => True
  end.

Lemma dead_step k s e : Struct s -> k_dead k = is_dead s -> k_dead (trk_ev k e) = is_dead (fst (step s e)).
Proof.
  intros HS Hk. destruct (is_dead s) eqn:Hd.
  - unfold step, trk_ev. rewrite Hd, Hk. cbn. rewrite Hd. exact Hk.
  - assert (Hsh : e = Shutdown \/ e <> Shutdown) by (destruct e; auto; right; discriminate).
    destruct Hsh as [->|Hne].
    + unfold step, trk_ev. rewrite Hd, Hk. reflexivity.
    + rewrite (step_alive s e HS Hd Hne). unfold trk_ev. rewrite Hk.
      destruct e; try contradiction; repeat match goal with |- context [if ?c then _ else _] => destruct c end; cbn; auto.
Qed.

Lemma run_ended_ok evs : forall s k, Struct s -> k_dead k = is_dead s -> ended_ok k evs (snd (run s evs)).
Proof.
  induction evs as [|e r IH]; intros s k HS Hk; cbn [run]; [exact I|].
  pose proof (dead_step k s e HS Hk) as Hk1. pose proof (step_struct s e HS) as HS1.
  assert (He : has_ended (snd (step s e)) = true -> k_dead (trk_ev k e) = true).
  { intros H. assert (Hsh : e = Shutdown \/ e <> Shutdown) by (destruct e; auto; right; discriminate).
    destruct Hsh as [->|Hne].
    - unfold trk_ev. destruct (k_dead k) eqn:E; [exact E|reflexivity].
    - rewrite (allp_no_end _ (step_allp s e Hne)) in H. discriminate. }
  specialize (IH (fst (step s e)) (trk_ev k e) HS1 Hk1).
  destruct (step s e) as [s1 o]. cbn [fst snd] in *. destruct (run s1 r) as [s2 os]. cbn [fst snd] in *. cbn [ended_ok]. split; [exact He|exact IH].
Qed.

Lemma on_ev8_op T k k' e x : op_ok x -> op_ok (on_ev8 T k k' e x) /\ opened (on_ev8 T k k' e x) = opened x /\ nextc (on_ev8 T k k' e x) = nextc x.
Proof.
  intros H. destruct e; cbn [on_ev8]; auto.
  - destruct (submit_accepted k p); auto.
  - destruct cancel; auto. destruct (wait_accepted k w); auto.
Qed.

Lemma walk8_false T evs : forall obss k x,
  length evs = length obss -> forallb nohang obss = true -> op_ok x -> ended_ok k evs obss ->
  serial (is_some (opened x)) (nextc x) (concat obss) <> None ->
  walk m8 (on_ev8 T) (on_ob8 T false) evs obss k x <> None.
Proof.
  induction evs as [|e er IH]; intros [|os osr] k x Hl Hh Hop He Hs; cbn in Hl; try discriminate.
  cbn [forallb] in Hh. apply andb_prop in Hh as [Hh1 Hh2]. cbn [concat] in Hs. destruct He as [He1 He2].
  rewrite serial_app in Hs. destruct (serial (is_some (opened x)) (nextc x) os) as [[o1 n1]|] eqn:E1; [|congruence].
  destruct (on_ev8_op T k (trk_ev k e) e x Hop) as (Hop' & Eo & En).
  destruct (walk_obs8_false T (trk_ev k e) os (on_ev8 T k (trk_ev k e) e x) o1 n1 Hop' Hh1 He1) as (x' & W & Hop2 & A & B).
  { rewrite Eo, En. exact E1. }
  cbn [walk]. rewrite W. apply IH; auto. rewrite A, B. exact Hs.
Qed.

(* the model never observes Hang, and shows one observation list per event *)
Lemma run_length evs : forall s, length (snd (run s evs)) = length evs.
Proof.
  induction evs as [|e r IH]; intros s; cbn [run]; [reflexivity|].
  destruct (step s e) as [s1 o]. specialize (IH s1). destruct (run s1 r). cbn in *. lia.
Qed.

Lemma step_nohang s e : nohang (snd (step s e)) = true.
Proof.
  destruct e; try (match goal with |- context [step s ?ev] =>
    assert (He : ev <> Shutdown) by discriminate; pose proof (step_allp s ev He) as H end;
    unfold allp, nohang in *; rewrite forallb_forall in *; intros o Ho; specialize (H o Ho); destruct o; auto; discriminate).
  unfold step. destruct (is_dead s); reflexivity.
Qed.

Lemma run_nohang evs : forall s, forallb nohang (snd (run s evs)) = true.
Proof.
  induction evs as [|e r IH]; intros s; cbn [run]; [reflexivity|].
  pose proof (step_nohang s e) as H. destruct (step s e) as [s1 o]. specialize (IH s1). destruct (run s1 r).
  cbn [snd forallb] in *. rewrite H, IH. reflexivity.
Qed.

Lemma walk_complete_nonimm T evs :
  imm_only evs = false -> ok_walk (Case T evs (trace T evs)) = true.
Proof.
  intros Hi. unfold ok_walk. rewrite Hi.
  pose proof (walk8_false T evs (trace T evs) trk0 m8_0) as H.
  destruct (walk m8 (on_ev8 T) (on_ob8 T false) evs (trace T evs) trk0 m8_0); [reflexivity|].
  exfalso. apply H; auto.
  - unfold trace. rewrite run_length. reflexivity.
  - unfold trace. apply run_nohang.
  - intros c E. discriminate.
  - unfold trace. apply run_ended_ok; [apply init_struct|reflexivity].
  - cbn. apply serial_nonempty_lemma.
Qed.
