(* BufferJoin.v — the join-counter invariant of the buffer model (C07, C08).
   At every quiescent point of every run:
     unfinished (what q.join() waits for) = |q| + 1 if a producer returned by the
       timed read is still being loaded (GGot / DLoadOne, task_done comes after
       the load, l.771), + 0 otherwise;
     the queue is empty whenever the daemon is parked on q.get() (idle, timed
       read armed);
     a task still inside q.join() exists only while unfinished > 0. *)
From Coq Require Import List Arith NArith Bool Lia ZifyBool ZifyNat ZifyN.
Import ListNotations.
Require Import Aiuti.Buffer.

Definition extra (d : daemon) : nat :=
  match d with DGather _ _ (GGot _) | DLoadOne _ _ => 1 | _ => 0 end.
Definition q_empty_stage (d : daemon) : bool :=
  match d with DIdle | DAwait _ _ | DGather _ _ (GArmed _) => true | _ => false end.
Definition no_joining (s : state) : Prop := forall w, In w (waiters s) -> wstate w = OnEvent.

Record StructOK (s : state) : Prop := {
  st_cnt : unfinished s = length (q s) + extra (dm s);
  st_q : q_empty_stage (dm s) = true -> q s = [];
  st_join : unfinished s = 0 -> no_joining s
}.
Definition Struct (s : state) : Prop := is_dead s = false -> StructOK s.

Definition JP (r : state * list obs) : Prop := is_dead (fst r) = false /\ StructOK (fst r).

Lemma no_joining_release s : no_joining s -> no_joining (fst (release s)).
Proof.
  intros H w Hin. unfold release in Hin; cbn in Hin. apply filter_In in Hin as [Hin _]. auto.
Qed.

Lemma release_keeps s :
  dm (fst (release s)) = dm s /\ q (fst (release s)) = q s /\ unfinished (fst (release s)) = unfinished s /\
  (forall w, In w (waiters (fst (release s))) -> In w (waiters s)).
Proof.
  unfold release; cbn. repeat split. intros w H. apply filter_In in H as [H _]. exact H.
Qed.

Lemma no_joining_pass ws : forall w, In w (join_pass ws) -> wstate w = OnEvent.
Proof. intros w H. unfold join_pass in H. apply in_map_iff in H as (w0 & <- & _). reflexivity. Qed.

Ltac fin := cbn; auto; try discriminate; try lia.

Ltac pass_tac :=
  let w := fresh "w" in let Hin := fresh "Hin" in let w0 := fresh "w0" in
  intros w Hin; cbn in Hin; unfold join_pass in Hin; apply in_map_iff in Hin as (w0 & <- & _); reflexivity.

Lemma run_func0_J s ins :
  q s = [] -> unfinished s = 0 -> no_joining s -> JP (run_func0 s ins).
Proof.
  intros Hq Hu Hj. unfold run_func0. destruct ins as [|x r].
  - destruct (release_keeps s) as (R1 & R2 & R3 & R4). destruct (release s) as [s1 o]. cbn [fst snd] in *.
    split; [reflexivity|]. constructor; cbn.
    + rewrite R2, R3, Hq, Hu. reflexivity.
    + intros _. rewrite R2. exact Hq.
    + intros _ w Hin. apply Hj, R4, Hin.
  - split; [reflexivity|]. constructor; cbn.
    + rewrite Hq, Hu. reflexivity.
    + discriminate.
    + intros _. exact Hj.
Qed.

Lemma continue_round_J s ins ld :
  unfinished s = length (q s) -> JP (continue_round s ins ld).
Proof.
  intros Hu. unfold continue_round.
  replace (unfinished s - length (q s)) with 0 by lia. cbn [Nat.eqb andb].
  destruct (load_all (ld ++ q s)) as [[rem ys] fs].
  destruct rem as [|p rem].
  - destruct (wants_cancel (waiters (set_q s [] 0))).
    + apply run_func0_J; cbn; auto. pass_tac.
    + split; [reflexivity|]. constructor; cbn; auto. intros _. pass_tac.
  - split; [reflexivity|]. constructor; cbn.
    + destruct (existsb _ _); reflexivity.
    + auto.
    + intros _. pass_tac.
Qed.

Lemma start_round_J s :
  unfinished s = length (q s) -> (unfinished s = 0 -> no_joining s) -> JP (start_round s).
Proof.
  intros Hu Hj. unfold start_round. destruct (q s) as [|p r] eqn:Eq.
  - split; [reflexivity|]. constructor; cbn; rewrite ?Eq; auto.
  - apply continue_round_J. cbn. cbn in Hu. lia.
Qed.

Lemma run_func_J s ins :
  unfinished s = length (q s) -> (unfinished s = 0 -> no_joining s) -> JP (run_func s ins).
Proof.
  intros Hu Hj. unfold run_func. destruct ins as [|x r].
  - destruct (release_keeps s) as (R1 & R2 & R3 & R4). destruct (release s) as [s1 o1]. cbn [fst snd] in *.
    unfold end_round. pose proof (start_round_J s1) as P. destruct (start_round s1) as [s2 o2].
    apply P; [rewrite R2, R3; exact Hu|]. rewrite R3. intros H0 w Hin. apply (Hj H0), R4, Hin.
  - split; [reflexivity|]. constructor; fin.
Qed.

Lemma load_one_J s ins p :
  unfinished s = S (length (q s)) -> JP (load_one s ins p).
Proof.
  intros Hu. unfold load_one. destruct (p_fin p).
  - apply continue_round_J. cbn. lia.
  - split; [reflexivity|]. constructor; cbn; [lia|discriminate|lia].
Qed.

Definition got1 (g : getting) : nat := match g with GGot _ => 1 | _ => 0 end.

Lemma after_gather_J s ins g :
  unfinished s = length (q s) + got1 g ->
  (match g with GArmed _ => q s = [] | _ => True end) ->
  (unfinished s = 0 -> no_joining s) -> JP (after_gather s ins g).
Proof.
  intros Hu Hq Hj. destruct g; cbn [after_gather got1] in *.
  - split; [reflexivity|]. constructor; cbn; auto.
  - apply load_one_J. lia.
  - apply run_func_J; [lia|exact Hj].
  - apply run_func_J; [lia|exact Hj].
Qed.

Lemma stay_J s s' : is_dead s = false -> StructOK s ->
  dm s' = dm s -> q s' = q s -> unfinished s' = unfinished s ->
  (forall w, In w (waiters s') -> In w (waiters s) \/ wstate w = OnEvent \/ unfinished s <> 0) ->
  forall o, JP (s', o).
Proof.
  intros Hd [H1 H2 H3] E1 E2 E3 Hw o. split; [unfold is_dead in *; cbn [fst]; rewrite E1; exact Hd|].
  cbn [fst]. constructor; rewrite ?E1, ?E2, ?E3; auto.
  intros H0 w Hin. destruct (Hw w Hin) as [H|[H|H]]; [apply (H3 H0 w H)|exact H|contradiction].
Qed.

(* the state just after q.put_nowait: the counter was bumped and the producer is
   at the end of q; where the daemon is parked on q.get() it is the only one *)
Lemma on_put_J s :
  is_dead s = false ->
  unfinished s = length (q s) + extra (dm s) ->
  (q_empty_stage (dm s) = true -> exists p, q s = [p]) ->
  (unfinished s = 0 -> no_joining s) -> JP (on_put s).
Proof.
  intros Hd Hu Hq Hj. unfold on_put. destruct (dm s) eqn:Ed; cbn [extra q_empty_stage] in *.
  - apply start_round_J; [lia|exact Hj].
  - destruct g; cbn [extra] in *.
    + destruct (Hq eq_refl) as [p Eq]. rewrite Eq. split; [reflexivity|]. constructor; cbn.
      * rewrite Eq in Hu. cbn in Hu. lia.
      * discriminate.
      * rewrite Eq in Hu. cbn in Hu. lia.
    + split; [exact Hd|]. constructor; cbn [fst]; rewrite ?Ed; fin.
    + split; [exact Hd|]. constructor; cbn [fst]; rewrite ?Ed; fin.
    + split; [exact Hd|]. constructor; cbn [fst]; rewrite ?Ed; fin.
  - destruct (Hq eq_refl) as [p Eq]. rewrite Eq. apply load_one_J. cbn. rewrite Eq in Hu. cbn in Hu. lia.
  - split; [exact Hd|]. constructor; cbn [fst]; rewrite ?Ed; fin.
  - split; [exact Hd|]. constructor; cbn [fst]; rewrite ?Ed; fin.
  - unfold is_dead in Hd. rewrite Ed in Hd. discriminate.
Qed.

Lemma do_put_J s p k c : is_dead s = false -> StructOK s -> JP (do_put s p k c).
Proof.
  intros Hd HS. pose proof HS as [H1 H2 H3]. unfold do_put. destruct (existsb (Nat.eqb p) (seen s)).
  - split; assumption.
  - apply on_put_J.
    + destruct c; exact Hd.
    + destruct c; cbn; rewrite app_length; cbn; lia.
    + intros Hs. exists (mk_prod p k). destruct c; cbn in *; rewrite (H2 Hs); reflexivity.
    + destruct c; cbn; lia.
Qed.

Lemma do_feed_J s n a : is_dead s = false -> StructOK s -> JP (do_feed s n a).
Proof.
  intros Hd HS. pose proof HS as [H1 H2 H3]. unfold do_feed.
  destruct (negb (open_here s n)); [split; assumption|].
  destruct (dm s) eqn:Ed; cbn [extra q_empty_stage] in *.
  - split; [unfold is_dead; cbn; rewrite Ed; reflexivity|]. constructor; cbn; rewrite ?Ed, ?map_length; fin.
    intros _. rewrite (H2 eq_refl). reflexivity.
  - destruct (load_all (map (feed_if n a) ld)) as [[rem ys] fs]. destruct rem as [|p0 rem].
    + apply after_gather_J; cbn; rewrite ?map_length.
      * destruct g; cbn in *; lia.
      * destruct g; cbn; auto. rewrite (H2 eq_refl). reflexivity.
      * exact H3.
    + split; [reflexivity|]. constructor; cbn; rewrite ?map_length.
      * destruct g; cbn in *; lia.
      * destruct g; cbn; try discriminate. intros _. rewrite (H2 eq_refl). reflexivity.
      * exact H3.
  - split; [unfold is_dead; cbn; rewrite Ed; reflexivity|]. constructor; cbn; rewrite ?Ed, ?map_length; fin.
    intros _. rewrite (H2 eq_refl). reflexivity.
  - destruct ((pid p =? n) && accepts p).
    + apply load_one_J. cbn. rewrite map_length. lia.
    + split; [unfold is_dead; cbn; rewrite Ed; reflexivity|]. constructor; cbn; rewrite ?Ed, ?map_length; fin.
  - split; [unfold is_dead; cbn; rewrite Ed; reflexivity|]. constructor; cbn; rewrite ?Ed, ?map_length; fin.
  - unfold is_dead in Hd. rewrite Ed in Hd. discriminate.
Qed.

Lemma wait_core_J s w c : is_dead s = false -> StructOK s -> JP (wait_core s w c).
Proof.
  intros Hd HS. pose proof HS as [H1 H2 H3]. unfold wait_core.
  destruct (unfinished s =? 0) eqn:Eu.
  - apply Nat.eqb_eq in Eu.
    assert (Hadd : forall o, JP (set_waiters s (waiters s ++ [mkw w c OnEvent (seen s)]), o)).
    { intros o. apply (stay_J s); auto. cbn. intros w0 Hin. apply in_app_or in Hin as [Hin|[<-|[]]]; auto. }
    destruct (dm s) eqn:Ed; cbn [extra q_empty_stage] in *.
    + destruct (evset s); [apply (stay_J s); auto|apply Hadd].
    + destruct g; try (destruct (evset s); [apply (stay_J s); auto|apply Hadd]).
      destruct c; [|apply Hadd].
      split; [reflexivity|]. constructor; cbn.
      * lia.
      * discriminate.
      * intros _ w0 Hin. apply in_app_or in Hin as [Hin|[<-|[]]]; auto. apply (H3 Eu w0 Hin).
    + destruct c; [|apply Hadd].
      apply run_func_J; cbn; [lia|]. intros _ w0 Hin. apply in_app_or in Hin as [Hin|[<-|[]]]; auto. apply (H3 Eu w0 Hin).
    + destruct (evset s); [apply (stay_J s); auto|apply Hadd].
    + destruct (evset s); [apply (stay_J s); auto|apply Hadd].
    + unfold is_dead in Hd. rewrite Ed in Hd. discriminate.
  - apply Nat.eqb_neq in Eu. apply (stay_J s); auto; cbn; intros w0 Hin; auto.
Qed.

Lemma do_wait_J s w c : is_dead s = false -> StructOK s -> JP (do_wait s w c).
Proof.
  intros Hd HS. unfold do_wait. destruct (existsb (Nat.eqb w) (wseen s)); [split; assumption|].
  apply wait_core_J; [exact Hd|]. destruct HS as [H1 H2 H3]. constructor; cbn; auto.
Qed.

Lemma JP_now r t : JP r -> JP (let '(s1, o) := r in (set_now s1 t, o)).
Proof.
  destruct r as [s1 o]. intros [Hd [H1 H2 H3]]. split; [exact Hd|]. constructor; cbn; auto.
Qed.

Lemma do_advance_J s dt : is_dead s = false -> StructOK s -> JP (do_advance s dt).
Proof.
  intros Hd HS. pose proof HS as [H1 H2 H3]. unfold do_advance.
  assert (Stay : forall t, JP (set_now s t, [])) by (intros t; apply (stay_J s); auto).
  destruct (dm s) as [|ins ld g|ins d|ins p|ins|] eqn:Ed; cbn [extra q_empty_stage] in *; try apply Stay.
  - destruct g as [d|p| |]; try apply Stay.
    destruct (d <=? now s + dt)%N; [|apply Stay].
    split; [reflexivity|]. constructor; fin.
  - destruct (d <=? now s + dt)%N; [|apply Stay].
    match goal with |- context [run_func ?a ?b] => pose proof (run_func_J a b) as P end.
    cbn [unfinished q set_lastfire set_now waiters] in P.
    assert (P' := P ltac:(lia) H3). clear P.
    match goal with |- context [run_func ?a ?b] => destruct (run_func a b) as [s1 o] end.
    apply (JP_now (s1, o)). exact P'.
Qed.

Lemma JP_cons r o0 : JP r -> JP (let '(s3, o2) := r in (s3, o0 ++ o2)).
Proof. destruct r. auto. Qed.

Lemma do_fn_end_J s ok fc : is_dead s = false -> StructOK s -> JP (do_fn_end s ok fc).
Proof.
  intros Hd HS. pose proof HS as [H1 H2 H3]. unfold do_fn_end.
  destruct (dm s) eqn:Ed; try (split; assumption). cbn [extra] in H1.
  destruct ok.
  - match goal with |- context [release ?x] => destruct (release_keeps x) as (R1 & R2 & R3 & R4); destruct (release x) as [s2 o1] end.
    cbn [fst snd dm q unfinished waiters set_gh set_calls] in *.
    destruct fc.
    + pose proof (continue_round_J (set_event s2 false) ins []) as P. cbn [unfinished q set_event] in P.
      assert (P' := P ltac:(rewrite R2, R3; lia)).
      destruct (continue_round (set_event s2 false) ins []) as [s3 o2]. exact P'.
    + unfold end_round. pose proof (start_round_J s2) as P.
      assert (P' : JP (start_round s2)).
      { apply P; [rewrite R2, R3; lia|]. rewrite R3. intros H0 w Hin. apply (H3 H0), R4, Hin. }
      destruct (start_round s2) as [s3 o2]. exact P'.
  - pose proof (continue_round_J s ins []) as P. assert (P' := P ltac:(lia)).
    destruct (continue_round s ins []) as [s1 o1]. exact P'.
Qed.

Lemma step_struct s e : Struct s -> Struct (fst (step s e)).
Proof.
  intros HS. unfold step. destruct (is_dead s) eqn:Hd; [exact HS|].
  specialize (HS Hd).
  assert (P : forall r, JP r -> Struct (fst r)) by (intros r [_ H] _; exact H).
  destruct e.
  - apply P, do_put_J; assumption.
  - apply P, do_feed_J; assumption.
  - apply P, do_feed_J; assumption.
  - apply P, do_feed_J; assumption.
  - apply P, do_advance_J; assumption.
  - apply P, do_wait_J; assumption.
  - apply P, do_fn_end_J; assumption.
  - apply P, do_fn_end_J; assumption.
  - intros H; discriminate.
  - apply P. apply (stay_J s); auto.
  - apply P, do_put_J; assumption.
  - apply P, do_fn_end_J; assumption.
Qed.

Lemma init_struct T : Struct (init T).
Proof. intros _. constructor; cbn; auto. intros _ w []. Qed.

Lemma run_struct evs : forall s, Struct s -> Struct (fst (run s evs)).
Proof.
  induction evs as [|e r IH]; intros s HS; cbn [run]; [exact HS|].
  pose proof (step_struct s e HS) as H1. destruct (step s e) as [s1 o]. cbn [fst] in H1.
  specialize (IH s1 H1). destruct (run s1 r). exact IH.
Qed.

Lemma final_struct T evs : Struct (final T evs).
Proof. apply run_struct, init_struct. Qed.

(* consequences used elsewhere *)
Lemma idle_settled T evs :
  dm (final T evs) = DIdle -> q (final T evs) = [] /\ unfinished (final T evs) = 0.
Proof.
  intros Hd. assert (Hl : is_dead (final T evs) = false) by (unfold is_dead; rewrite Hd; reflexivity).
  destruct (final_struct T evs Hl) as [H1 H2 H3]. rewrite Hd in *. cbn in *.
  rewrite (H2 eq_refl) in *. cbn in H1. auto.
Qed.

Lemma await_settled T evs ins d :
  dm (final T evs) = DAwait ins d -> q (final T evs) = [] /\ unfinished (final T evs) = 0.
Proof.
  intros Hd. assert (Hl : is_dead (final T evs) = false) by (unfold is_dead; rewrite Hd; reflexivity).
  destruct (final_struct T evs Hl) as [H1 H2 H3]. rewrite Hd in *. cbn in *.
  rewrite (H2 eq_refl) in *. cbn in H1. auto.
Qed.

(* only Shutdown ends the daemon *)
Lemma step_alive s e :
  Struct s -> is_dead s = false -> e <> Shutdown -> is_dead (fst (step s e)) = false.
Proof.
  intros HS Hd He. specialize (HS Hd). unfold step. rewrite Hd.
  destruct e; try contradiction.
  - apply do_put_J; assumption.
  - apply do_feed_J; assumption.
  - apply do_feed_J; assumption.
  - apply do_feed_J; assumption.
  - apply do_advance_J; assumption.
  - apply do_wait_J; assumption.
  - apply do_fn_end_J; assumption.
  - apply do_fn_end_J; assumption.
  - exact Hd.
  - apply do_put_J; assumption.
  - apply do_fn_end_J; assumption.
Qed.
