(* FLockMon13.v — the monitor of the crash runs (Case_C13.ok) accepts the model's own
   prediction: after the victim's death the model predicts exactly what the monitor
   demands (fresh acquire succeeds iff no survivor holds, ...), for every victim program
   on its own object, every number of victim steps, every scenario in which the survivor
   is started after the crash or holds all along.                                     *)
From Coq Require Import List Arith NArith Bool Lia ZifyBool ZifyN.
Import ListNotations.
Require Import Aiuti.CaseLib Aiuti.FLock Aiuti.FLockInv Aiuti.FLockSpec Aiuti.FLockTL Aiuti.FLockFD Aiuti.FLockMutex
               Aiuti.FLockContract Aiuti.FLockExec Aiuti.FLockCrash Aiuti.FLockAcq Aiuti.FLockRel Aiuti.FLockTerm Aiuti.FLockSeq.
Require Aiuti.Case_C13.
Local Arguments Nat.max : simpl never.
Arguments upd : simpl never.
Arguments enter_tlrel : simpl never.
Arguments enter_cleanup : simpl never.
Arguments after_attempt : simpl never.
Arguments k_unlock : simpl never.
Arguments k_close : simpl never.
Arguments tl_release : simpl never.
Arguments tl_try : simpl never.
Arguments tl_rel_raises : simpl never.
Arguments normalise : simpl never.
Arguments faulty : simpl never.
Arguments intr : simpl never.
Arguments enabled : simpl never.
Arguments step : simpl never.
Arguments run_alone : simpl never.
Arguments remove_all : simpl never.
Arguments remove_one : simpl never.

(* ---------- a step of thread t leaves alone every object its thread record does not mention ------- *)

Definition uses (th : thread) (o' : oid) : Prop :=
  pc_obj (t_pc th) = Some o' \/ exists c, In c (t_prog th) /\ call_obj c = o'.

Lemma faults_enter_tlrel s t o k : faults (enter_tlrel s t o k) = faults s.
Proof. rewrite enter_tlrel_eq. destruct (_ || _); reflexivity. Qed.
Lemma faults_enter_cleanup s t a b : faults (enter_cleanup s t a b) = faults s.
Proof. unfold enter_cleanup. destruct (tl_rel_raises _ _); reflexivity. Qed.
Lemma faults_after_attempt s t a : faults (after_attempt s t a) = faults s.
Proof.
  unfold after_attempt. destruct (negb (a_blk a)); [apply faults_enter_cleanup|].
  destruct (a_tm a); try reflexivity. destruct (_ <? _)%N; [apply faults_enter_cleanup|reflexivity].
Qed.

Ltac thr_simpl := cbn; rewrite ?upd_same; cbn.

Lemma not_uses_acq_next a th th' o' :
  a_o a <> o' -> (forall c, In c (t_prog th) -> call_obj c <> o') -> acq_next a th th' -> ~ uses th' o'.
Proof.
  intros Ha Hp (_ & _ & [[E L]|[E E2]]) [U|(c & Hc & Ec)].
  - destruct (t_pc th'); cbn in L, U; try tauto; destruct L as [L _]; congruence.
  - rewrite E in Hc. apply (Hp c); auto.
  - rewrite E2 in U. discriminate.
  - rewrite E in Hc. apply (Hp c); auto. eapply In_skipn; eauto.
Qed.

Lemma not_uses_rel_next th th' o' o :
  o <> o' -> (forall c, In c (t_prog th) -> call_obj c <> o') ->
  rel_next th th' -> (forall oo, pc_obj (t_pc th') = Some oo -> oo = o) -> ~ uses th' o'.
Proof.
  intros Ho Hp (_ & _ & E & L) Hpc [U|(c & Hc & Ec)].
  - apply Hpc in U. congruence.
  - rewrite E in Hc. apply (Hp c); auto.
Qed.

Lemma not_uses_mk p prog pc res cs o' :
  (forall oo, pc_obj pc = Some oo -> oo <> o') -> (forall c, In c prog -> call_obj c <> o') ->
  ~ uses (mkthr p prog pc res cs) o'.
Proof. intros A B [U|(c & Hc & Ec)]; cbn in *; [eapply A; eauto|eapply B; eauto]. Qed.

Ltac nu := apply not_uses_mk; [cbn; intros oo Hoo; try discriminate; try (injection Hoo as <-); auto|auto].

Lemma step_objs_other s t o' :
  ~ uses (thr s t) o' ->
  objs (step s t) o' = objs s o' /\ ~ uses (thr (step s t) t) o' /\ faults (step s t) = faults s.
Proof.
  intros Hu. unfold step. destruct (negb (enabled s t)); [auto|].
  assert (Hprog : forall c, In c (t_prog (thr s t)) -> call_obj c <> o') by (intros c Hc E; apply Hu; right; eauto).
  assert (Hpco : forall oo, pc_obj (t_pc (thr s t)) = Some oo -> oo <> o') by (intros oo E ->; apply Hu; now left).
  destruct (t_pc (thr s t)) as [|a dl|a|a d|a d i|a w|a oserr|o d k|o d k|o k] eqn:Hpc; cbn in Hpco.
  - (* PIdle *)
    destruct (t_prog (thr s t)) as [|c rest] eqn:Hpr; [auto|].
    assert (Hc : call_obj c <> o') by (apply Hprog; now left).
    assert (Hrest : forall c', In c' rest -> call_obj c' <> o') by (intros; apply Hprog; now right).
    destruct c as [o m blk tm poll skip|o force]; unfold begin_call; cbn in Hc |- *.
    + rewrite upd_same. cbn. destruct (normalise _ _ _) as [b' tm']. destruct (Nat.eqb _ _); thr_simpl;
        (split; [reflexivity|split; [nu|reflexivity]]).
    + rewrite upd_same. cbn.
      destruct (Nat.eqb (o_proc (objs s o)) _); cbn;
        (destruct (o_fd (objs s o)) as [d|]; [|thr_simpl; split; [reflexivity|split; [nu|reflexivity]]]);
        destruct (own_is _ _); cbn; destruct (_ || _); cbn.
      all: try (thr_simpl; rewrite upd_other by congruence; split; [reflexivity|split; [nu|reflexivity]]).
      all: match goal with |- context [enter_tlrel ?s1 ?tt ?oo 1] =>
             pose proof (rel_next_enter_tlrel s1 tt oo 1) as R; pose proof (Tail_enter_tlrel s1 tt oo 1) as T end;
           (split; [rewrite (u_obj _ _ _ _ (ta_upd _ _ _ _ T)) by congruence; cbn; rewrite upd_other by congruence; reflexivity|]);
           (split; [|rewrite faults_enter_tlrel; reflexivity]);
           (eapply not_uses_rel_next; [| |exact R|exact (ta_pcobj _ _ _ _ T)]; [exact Hc|]; thr_simpl; auto).
  - (* PTLAcq *)
    assert (Ha : a_o a <> o') by (apply Hpco; reflexivity).
    cbn. destruct (tl_try _ _); [destruct (o_fd _)|]; thr_simpl; rewrite ?upd_other by congruence;
      (split; [reflexivity|split; [|reflexivity]]).
    + nu.
    + nu.
    + apply not_uses_mk; [cbn; discriminate|]. destruct (is_fail _); auto. intros c Hc. apply Hprog. eapply In_skipn; eauto.
  - (* POpen *)
    assert (Ha : a_o a <> o') by (apply Hpco; reflexivity).
    cbn. destruct (faulty s KOpen); [destruct (intr s KOpen)|].
    + match goal with |- context [enter_cleanup ?s1 t a true] =>
        pose proof (acq_next_enter_cleanup s1 t a true) as R; pose proof (Tail_enter_cleanup s1 t a true) as T end.
      split; [rewrite (u_obj _ _ _ _ (ta_upd _ _ _ _ T)) by congruence; reflexivity|].
      split; [eapply not_uses_acq_next; [exact Ha| |exact R]; auto|rewrite faults_enter_cleanup; reflexivity].
    + match goal with |- context [after_attempt ?s1 t a] =>
        pose proof (acq_next_after_attempt s1 t a) as R; pose proof (Tail_after_attempt s1 t a) as T end.
      split; [rewrite (u_obj _ _ _ _ (ta_upd _ _ _ _ T)) by congruence; reflexivity|].
      split; [eapply not_uses_acq_next; [exact Ha| |exact R]; auto|rewrite faults_after_attempt; reflexivity].
    + thr_simpl. split; [reflexivity|split; [nu|reflexivity]].
  - (* PFlock *)
    assert (Ha : a_o a <> o') by (apply Hpco; reflexivity).
    cbn. destruct (faulty s KLock); [|destruct (holder_free_for _ d)]; thr_simpl; rewrite ?upd_other by congruence;
      (split; [reflexivity|split; [nu|reflexivity]]).
  - (* PCloseF *)
    assert (Ha : a_o a <> o') by (apply Hpco; reflexivity).
    cbn. destruct (faulty s KClose || i).
    + match goal with |- context [enter_cleanup ?s1 t a true] =>
        pose proof (acq_next_enter_cleanup s1 t a true) as R; pose proof (Tail_enter_cleanup s1 t a true) as T end.
      rewrite thr_k_close in R. cbn in R.
      split; [rewrite (u_obj _ _ _ _ (ta_upd _ _ _ _ T)) by congruence; rewrite objs_k_close; reflexivity|].
      split; [eapply not_uses_acq_next; [exact Ha| |exact R]; auto|rewrite faults_enter_cleanup, faults_k_close; reflexivity].
    + match goal with |- context [after_attempt ?s1 t a] =>
        pose proof (acq_next_after_attempt s1 t a) as R; pose proof (Tail_after_attempt s1 t a) as T end.
      rewrite thr_k_close in R. cbn in R.
      split; [rewrite (u_obj _ _ _ _ (ta_upd _ _ _ _ T)) by congruence; rewrite objs_k_close; reflexivity|].
      split; [eapply not_uses_acq_next; [exact Ha| |exact R]; auto|rewrite faults_after_attempt, faults_k_close; reflexivity].
  - (* PSleep *)
    assert (Ha : a_o a <> o') by (apply Hpco; reflexivity).
    thr_simpl. split; [reflexivity|split; [nu|reflexivity]].
  - (* PCleanRel *)
    assert (Ha : a_o a <> o') by (apply Hpco; reflexivity).
    thr_simpl. rewrite upd_other by congruence. split; [reflexivity|split; [|reflexivity]].
    apply not_uses_mk; [cbn; discriminate|]. destruct (is_fail _); auto. intros c Hc. apply Hprog. eapply In_skipn; eauto.
  - (* PUnlock *)
    assert (Ho : o <> o') by (apply Hpco; reflexivity).
    cbn. destruct (faulty s KUnlock); thr_simpl; rewrite ?objs_k_unlock, ?thr_k_unlock, ?faults_k_unlock; cbn;
      (split; [reflexivity|split; [nu|reflexivity]]).
  - (* PCloseR *)
    assert (Ho : o <> o') by (apply Hpco; reflexivity).
    cbn.
    match goal with |- context [enter_tlrel ?s1 t o k] =>
      pose proof (rel_next_enter_tlrel s1 t o k) as R; pose proof (Tail_enter_tlrel s1 t o k) as T end.
    cbn in R. rewrite thr_k_close in R. cbn in R.
    split; [rewrite (u_obj _ _ _ _ (ta_upd _ _ _ _ T)) by congruence; cbn; rewrite upd_other by congruence; rewrite objs_k_close; reflexivity|].
    split; [|rewrite faults_enter_tlrel; cbn; rewrite faults_k_close; reflexivity].
    eapply not_uses_rel_next; [exact Ho| |exact R|exact (ta_pcobj _ _ _ _ T)]; auto.
  - (* PTLRel *)
    assert (Ho : o <> o') by (apply Hpco; reflexivity).
    cbn.
    match goal with |- context [enter_tlrel ?s1 t o ?k'] =>
      pose proof (rel_next_enter_tlrel s1 t o k') as R; pose proof (Tail_enter_tlrel s1 t o k') as T end.
    cbn in R.
    split; [rewrite (u_obj _ _ _ _ (ta_upd _ _ _ _ T)) by congruence; cbn; rewrite upd_other by congruence; reflexivity|].
    split; [|rewrite faults_enter_tlrel; reflexivity].
    eapply not_uses_rel_next; [exact Ho| |exact R|exact (ta_pcobj _ _ _ _ T)]; auto.
Qed.

(* ---------- one call of an idle live thread on a pristine / held object of its own ------------------ *)

Definition Kern (s : state) : Prop :=
  (forall h, holder s = Some h -> h < nextfd s) /\ (forall d q, fdown s d = Some q -> d < nextfd s) /\ faults s = [].

Lemma Kern_reach s : FD s -> faults s = [] -> Kern s.
Proof. intros F E. destruct (reach_kernel s F). repeat split; auto. Qed.

Lemma Kern_frame s t o s' pend h :
  Frame s t o s' pend h -> Kern s -> (forall hh, h = Some hh -> hh < nextfd s') -> Kern s'.
Proof.
  intros F (K1 & K2 & K3) Hh. repeat split.
  - intros hh E. apply Hh. rewrite <- E. symmetry. apply (f_holder _ _ _ _ _ _ F).
  - intros d q E. destruct (Nat.lt_ge_cases d (nextfd s)) as [L|G].
    + pose proof (f_next _ _ _ _ _ _ F). lia.
    + destruct pend as [dp|].
      * destruct (Nat.eq_dec d dp) as [->|Hn]; [apply (f_pend _ _ _ _ _ _ F dp eq_refl)|].
        rewrite (f_fd_new _ _ _ _ _ _ F) in E by (auto; congruence). discriminate.
      * rewrite (f_fd_new _ _ _ _ _ _ F) in E by (auto; discriminate). discriminate.
  - rewrite (f_faults _ _ _ _ _ _ F). exact K3.
Qed.

Definition idle_live (s : state) (t : tid) (o : oid) : Prop :=
  t_pc (thr s t) = PIdle /\ dead s (t_proc (thr s t)) = false /\ o_proc (objs s o) = t_proc (thr s t).

(* the object right after its first acquire through descriptor d *)
Definition held_by (ob : obj) (t : tid) (d : fdid) : Prop :=
  o_fd ob = Some d /\ o_own ob = Some t /\ o_cnt ob = 1 /\ o_dep ob = 1.

Lemma untimed_fuel dflt blk tm poll :
  (forall T, snd (norm' dflt blk tm) <> TVal T) -> acq_fuel (snd (norm' dflt blk tm)) poll = 16.
Proof. intros H. unfold acq_fuel. destruct (snd (norm' dflt blk tm)) eqn:E; auto. exfalso. eapply H; eauto. Qed.

(* acquire on a free path: succeeds *)
Lemma acq_ok s t o m blk tm poll skip fuel :
  idle_live s t o -> Kern s -> pristine (objs s o) -> holder s = None ->
  (forall T, snd (norm' (o_dflt (objs s o)) blk tm) <> TVal T) -> 16 <= fuel ->
  exists s' d,
    do_call fuel s t (CAcq o m blk tm poll skip) = (s', RTrue) /\
    Frame s t o s' (Some d) (Some d) /\ held_by (objs s' o) t d /\
    o_proc (objs s' o) = o_proc (objs s o) /\
    t_pc (thr s' t) = PIdle /\ t_proc (thr s' t) = t_proc (thr s t) /\ Kern s'.
Proof.
  intros (Hpc & Hal & Hpr) K (P1 & P2 & P3 & P4) Hh Hunt Hfu. pose proof K as (K1 & K2 & K3).
  pose proof (do_acquire_outcome s t o m blk tm poll skip fuel Hpc Hal Hpr K1 K2) as Out.
  pose proof (do_acquire_terminates s t o m blk tm poll skip fuel Hpc Hal Hpr K1 K2 K3) as Term.
  cbv zeta in Out, Term. rewrite normalise_norm' in Out, Term.
  assert (Hterm : snd (do_call fuel s t (CAcq o m blk tm poll skip)) <> ROutOfFuel).
  { apply Term; [intros T E; exfalso; eapply Hunt; eauto|rewrite untimed_fuel; auto]. }
  destruct (do_call fuel s t (CAcq o m blk tm poll skip)) as [s' r] eqn:E. cbn [fst snd] in *.
  assert (Htry : tl_try (objs s o) t <> None) by (unfold tl_try; rewrite P2; discriminate).
  destruct Out as [Eo|[[Eo B]|Fin]]; [congruence| |].
  - exfalso. destruct B as [a Ht Hb Htm Hbusy _|a d Ht Hb Htm Hfd Htr Hhold _]; congruence.
  - destruct Fin as [E1 Ht F Ho Hfd _ _|d E1 Ht F Ho Hfd _ Hhd _|E1 Ht F Ho Hbusy _ _|b E1 Ht F Ho Hfd _ R1 R2 _].
    + congruence.
    + exists s', d. subst r. split; [reflexivity|]. split; auto.
      split; [rewrite Ho; unfold held_by, acq_obj; cbn; rewrite P2, P3; auto|].
      split; [rewrite Ho; reflexivity|]. split; [now rewrite Ht|]. split; [now rewrite Ht|].
      eapply Kern_frame; eauto. intros hh [= <-]. apply (f_pend _ _ _ _ _ _ F d eq_refl).
    + congruence.
    + exfalso. destruct b; [apply R1; auto|]. destruct (R2 eq_refl) as [_ [A|A]]; congruence.
Qed.

(* non-blocking acquire while somebody else holds the path: refused, nothing changes *)
Lemma acq_refused s t o m poll skip fuel :
  idle_live s t o -> Kern s -> pristine (objs s o) -> holder s <> None -> 16 <= fuel ->
  exists s',
    do_call fuel s t (CAcq o m false TNone poll skip) = (s', fail_result m) /\
    Frame s t o s' None (holder s) /\ objs s' o = objs s o /\
    t_pc (thr s' t) = PIdle /\ t_proc (thr s' t) = t_proc (thr s t) /\ Kern s'.
Proof.
  intros (Hpc & Hal & Hpr) K (P1 & P2 & P3 & P4) Hh Hfu. pose proof K as (K1 & K2 & K3).
  pose proof (do_acquire_outcome s t o m false TNone poll skip fuel Hpc Hal Hpr K1 K2) as Out.
  pose proof (do_acquire_terminates s t o m false TNone poll skip fuel Hpc Hal Hpr K1 K2 K3) as Term.
  cbv zeta in Out, Term. rewrite normalise_norm' in Out, Term.
  assert (En : norm' (o_dflt (objs s o)) false TNone = (false, TNeg)) by reflexivity.
  rewrite En in Out, Term. cbn [fst snd] in Out, Term.
  assert (Hterm : snd (do_call fuel s t (CAcq o m false TNone poll skip)) <> ROutOfFuel).
  { apply Term; [intros T E; discriminate|cbn; lia]. }
  destruct (do_call fuel s t (CAcq o m false TNone poll skip)) as [s' r] eqn:E. cbn [fst snd] in *.
  assert (Htry : tl_try (objs s o) t <> None) by (unfold tl_try; rewrite P2; discriminate).
  destruct Out as [Eo|[[Eo B]|Fin]]; [congruence| |].
  - exfalso. destruct B as [a Ht Hb|a d Ht Hb]; discriminate.
  - destruct Fin as [E1 Ht F Ho Hfd _ _|d E1 Ht F Ho Hfd _ Hhd _|E1 Ht F Ho Hbusy _ _|b E1 Ht F Ho Hfd _ R1 R2 _].
    + congruence.
    + exfalso. destruct Hhd as [A|A]; [congruence|]. apply K1 in A. destruct (f_pend _ _ _ _ _ _ F d eq_refl). lia.
    + congruence.
    + assert (b = false) by (destruct b; auto; exfalso; apply R1; auto). subst b r.
      exists s'. split; [reflexivity|]. split; auto.
      split; [rewrite Ho; apply restore_obj; auto; intros u Z; congruence|].
      split; [now rewrite Ht|]. split; [now rewrite Ht|].
      eapply Kern_frame; eauto. intros hh Ehh. pose proof (f_next _ _ _ _ _ _ F). apply K1 in Ehh. lia.
Qed.

(* release by the holder of an object acquired once: the path is free again, the object pristine *)
Lemma rel_ok s t o d fuel :
  t_pc (thr s t) = PIdle -> dead s (t_proc (thr s t)) = false -> Kern s ->
  held_by (objs s o) t d -> holder s = Some d -> 5 <= fuel ->
  exists s',
    do_call fuel s t (CRel o false) = (s', RNone) /\
    RFrame s t o s' /\ pristine (objs s' o) /\ o_proc (objs s' o) = o_proc (objs s o) /\
    holder s' = None /\ t_pc (thr s' t) = PIdle /\ t_proc (thr s' t) = t_proc (thr s t) /\ Kern s'.
Proof.
  intros Hpc Hal (K1 & K2 & K3) (H1 & H2 & H3 & H4) Hh Hfu.
  destruct (do_release_outcome s t o Hal false fuel Hpc) as (s' & E & F & P1 & P0 & P2 & P3 & Post); [lia|].
  unfold rel_post in Post. rewrite H1, H3 in Post. cbn in Post. destruct Post as (Po & Ph & Pf).
  exists s'. split; auto. split; auto.
  assert (Eo : objs s' o = mkobj (o_proc (objs s o)) (o_reent (objs s o)) (o_dflt (objs s o)) None 0 None 0).
  { rewrite Po. unfold Nat.max. cbn [rel_loop]. rewrite H2, H4. unfold tl_rel_raises. cbn. rewrite Nat.eqb_refl, andb_false_r.
    unfold tl_release. cbn. rewrite andb_false_r. reflexivity. }
  split; [rewrite Eo; repeat split|]. split; [rewrite Eo; reflexivity|].
  assert (Hn : holder s' = None) by (rewrite Ph, Hh; unfold unl_holder; now rewrite Nat.eqb_refl).
  split; auto. split; auto. split; auto.
  repeat split.
  - intros h Z. congruence.
  - intros d' q Z. rewrite Pf in Z. destruct (Nat.eqb d' d); [discriminate|]. rewrite (r_nextfd _ _ _ _ F). eauto.
  - rewrite (r_faults _ _ _ _ F). auto.
Qed.

(* ---------- the probe: a fresh non-blocking acquire, undone when it succeeded ---------------------- *)

Definition probe_gen (fuel : nat) (s : state) (t : tid) (o : oid) : state * bool :=
  let '(s1, r) := do_call fuel s t (CAcq o MPlain false TNone 51%N 0) in
  match r with
  | RTrue => (fst (do_call fuel s1 t (CRel o false)), true)
  | _ => (s1, false)
  end.

Definition Slot (s : state) (t : tid) (o : oid) : Prop := idle_live s t o /\ pristine (objs s o).

Definition others_same (s s' : state) (t : tid) (o : oid) : Prop :=
  (forall t', t' <> t -> thr s' t' = thr s t') /\ (forall o', o' <> o -> objs s' o' = objs s o') /\ dead s' = dead s.

Lemma others_trans s s1 s2 t o : others_same s s1 t o -> others_same s1 s2 t o -> others_same s s2 t o.
Proof.
  intros (A & B & C) (A' & B' & C'). repeat split; intros; try congruence.
  - rewrite A', A; auto.
  - rewrite B', B; auto.
Qed.

Lemma others_Frame s t o s' pend h : Frame s t o s' pend h -> others_same s s' t o.
Proof. intros F. repeat split; [apply (f_thr _ _ _ _ _ _ F)|apply (f_obj _ _ _ _ _ _ F)|apply (f_dead _ _ _ _ _ _ F)]. Qed.

Lemma others_RFrame s t o s' : RFrame s t o s' -> others_same s s' t o.
Proof. intros F. repeat split; [apply (r_thr _ _ _ _ F)|apply (r_obj _ _ _ _ F)|apply (r_dead _ _ _ _ F)]. Qed.

Lemma probe_free fuel s t o :
  Slot s t o -> Kern s -> holder s = None -> 16 <= fuel ->
  exists s', probe_gen fuel s t o = (s', true) /\ Slot s' t o /\ Kern s' /\ holder s' = None /\ others_same s s' t o.
Proof.
  intros [IL P] K Hh Hfu. unfold probe_gen.
  destruct (acq_ok s t o MPlain false TNone 51%N 0 fuel IL K P Hh) as (s1 & d & E1 & F1 & H1 & Pr1 & Pc1 & Tp1 & K1); auto.
  { intros T. unfold norm', normalise. cbn. discriminate. }
  rewrite E1.
  destruct IL as (I1 & I2 & I3).
  assert (Hal1 : dead s1 (t_proc (thr s1 t)) = false) by (rewrite Tp1, (f_dead _ _ _ _ _ _ F1); exact I2).
  destruct (rel_ok s1 t o d fuel Pc1 Hal1 K1 H1) as (s2 & E2 & F2 & P2 & Pr2 & Hh2 & Pc2 & Tp2 & K2); [apply (f_holder _ _ _ _ _ _ F1)|lia|].
  rewrite E2. cbn [fst]. exists s2. split; [reflexivity|]. split.
  - split; auto. repeat split; auto.
    + rewrite Tp2, Tp1, (r_dead _ _ _ _ F2), (f_dead _ _ _ _ _ _ F1). exact I2.
    + rewrite Pr2, Pr1, Tp2, Tp1. exact I3.
  - split; auto. split; auto. eapply others_trans; [eapply others_Frame; eauto|eapply others_RFrame; eauto].
Qed.

Lemma probe_busy fuel s t o :
  Slot s t o -> Kern s -> holder s <> None -> 16 <= fuel ->
  exists s', probe_gen fuel s t o = (s', false) /\ Slot s' t o /\ Kern s' /\ holder s' = holder s /\ others_same s s' t o.
Proof.
  intros [IL P] K Hh Hfu. unfold probe_gen.
  destruct (acq_refused s t o MPlain 51%N 0 fuel IL K P Hh Hfu) as (s1 & E1 & F1 & Ho1 & Pc1 & Tp1 & K1).
  rewrite E1. cbn [fail_result]. exists s1. split; [reflexivity|].
  destruct IL as (I1 & I2 & I3). split.
  - split; [|rewrite Ho1; exact P]. repeat split; auto.
    + rewrite Tp1, (f_dead _ _ _ _ _ _ F1). exact I2.
    + rewrite Ho1, Tp1. exact I3.
  - split; auto. split; [apply (f_holder _ _ _ _ _ _ F1)|eapply others_Frame; eauto].
Qed.

(* ---------- every step is an update of one thread and one object (processes never change) ---------- *)

Lemma Upd_refl s t o : Upd s s t o.
Proof. constructor; auto. Qed.

Lemma Upd_tail s s1 s' t o0 : objs s1 = objs s -> thr s1 = thr s -> dead s1 = dead s -> Tail s1 s' t o0 -> Upd s s' t o0.
Proof. intros A B C T. eapply Upd_trans; [apply Upd_eq; eauto|apply (ta_upd _ _ _ _ T)]. Qed.

Lemma step_Upd s t : exists o0, Upd s (step s t) t o0.
Proof.
  unfold step. destruct (negb (enabled s t)); [exists 0; apply Upd_refl|].
  destruct (t_pc (thr s t)) as [|a dl|a|a d|a d i|a w|a oserr|o d k|o d k|o k] eqn:Hpc.
  - destruct (t_prog (thr s t)) as [|c rest]; [exists 0; apply Upd_refl|].
    destruct c as [o m blk tm poll skip|o force]; unfold begin_call; cbn; exists o.
    + rewrite upd_same. cbn. destruct (normalise _ _ _). destruct (Nat.eqb _ _); constructor; thr_simpl; intros; rewrite ?upd_other by auto; auto.
    + rewrite upd_same. cbn.
      destruct (Nat.eqb (o_proc (objs s o)) _); cbn;
        (destruct (o_fd (objs s o)); [|constructor; thr_simpl; intros; rewrite ?upd_other by auto; auto]);
        destruct (own_is _ _); cbn; destruct (_ || _); cbn.
      all: try solve [constructor; thr_simpl; intros; rewrite ?upd_other by auto; auto].
      all: match goal with |- context [enter_tlrel ?s1 ?tt ?oo 1] =>
             apply (Upd_trans _ s1); [|apply (ta_upd _ _ _ _ (Tail_enter_tlrel s1 tt oo 1))] end;
           constructor; thr_simpl; intros; rewrite ?upd_other by auto; auto.
  - exists (a_o a). cbn. destruct (tl_try _ _) as [ob'|] eqn:E; [|constructor; thr_simpl; intros; rewrite ?upd_other by auto; auto].
    destruct (tl_try_some _ _ _ E) as (_ & _ & _ & _ & Hp & _).
    destruct (o_fd ob'); constructor; thr_simpl; intros; rewrite ?upd_other by auto; auto.
  - exists (a_o a). cbn. destruct (faulty s KOpen); [destruct (intr s KOpen)|].
    + eapply Upd_tail; [| | |apply Tail_enter_cleanup]; reflexivity.
    + eapply Upd_tail; [| | |apply Tail_after_attempt]; reflexivity.
    + constructor; thr_simpl; intros; rewrite ?upd_other by auto; auto.
  - exists (a_o a). cbn. destruct (faulty s KLock); [|destruct (holder_free_for _ d)]; constructor; thr_simpl; intros; rewrite ?upd_other by auto; auto.
  - exists (a_o a). cbn. destruct (faulty s KClose || i).
    + eapply Upd_tail; [| | |apply Tail_enter_cleanup]; rewrite ?objs_k_close, ?thr_k_close, ?dead_k_close; reflexivity.
    + eapply Upd_tail; [| | |apply Tail_after_attempt]; rewrite ?objs_k_close, ?thr_k_close, ?dead_k_close; reflexivity.
  - exists (a_o a). constructor; thr_simpl; intros; rewrite ?upd_other by auto; auto.
  - exists (a_o a). constructor; thr_simpl; intros; rewrite ?upd_other by auto; auto. apply tl_release_proc.
  - exists o. cbn. destruct (faulty s KUnlock); constructor; thr_simpl; rewrite ?objs_k_unlock, ?thr_k_unlock, ?dead_k_unlock; cbn;
      intros; rewrite ?upd_other by auto; auto.
  - exists o. cbn. match goal with |- context [enter_tlrel ?s1 ?tt ?oo ?kk] =>
      apply (Upd_trans _ s1); [|apply (ta_upd _ _ _ _ (Tail_enter_tlrel s1 tt oo kk))] end. constructor; thr_simpl; rewrite ?objs_k_close, ?thr_k_close, ?dead_k_close; cbn;
      intros; rewrite ?upd_other by auto; auto.
  - exists o. cbn. match goal with |- context [enter_tlrel ?s1 ?tt ?oo ?kk] =>
      apply (Upd_trans _ s1); [|apply (ta_upd _ _ _ _ (Tail_enter_tlrel s1 tt oo kk))] end. constructor; thr_simpl; intros; rewrite ?upd_other by auto; auto. apply tl_release_proc.
Qed.

Lemma step_procs s t : (forall o, o_proc (objs (step s t) o) = o_proc (objs s o)) /\ (forall t', t_proc (thr (step s t) t') = t_proc (thr s t')).
Proof. destruct (step_Upd s t) as [o0 U]. split; intros; [eapply Upd_oproc|eapply Upd_tproc]; eauto. Qed.

(* ---------- runs of one thread are event lists ------------------------------------------------------ *)
Import Case_C13.

Lemma run_k_ind (P : state -> Prop) t :
  (forall s, P s -> P (step s t)) -> (forall s n, P s -> P (set_now s n)) ->
  forall k s, P s -> P (fst (run_k k s t)).
Proof.
  intros Hs Hn. induction k as [|k IH]; intros s Ps; [exact Ps|]. cbn [run_k].
  set (s1 := if enabled s t then s else match deadline s t with Some w => set_now s (N.max (now s) w) | None => s end).
  assert (P1 : P s1) by (unfold s1; destruct (enabled s t); auto; destruct (deadline s t); auto).
  destruct (enabled s1 t); [|exact P1].
  specialize (IH (step s1 t) (Hs _ P1)). destruct (run_k k (step s1 t) t). exact IH.
Qed.

Lemma run_k_run t k : forall s, exists evs, fst (run_k k s t) = run s evs.
Proof.
  induction k as [|k IH]; intros s; [exists []; reflexivity|]. cbn [run_k].
  set (s1 := if enabled s t then s else match deadline s t with Some w => set_now s (N.max (now s) w) | None => s end).
  assert (E1 : exists evs, s1 = run s evs).
  { unfold s1. destruct (enabled s t); [exists []; reflexivity|]. destruct (deadline s t) as [w|]; [|exists []; reflexivity].
    exists [EAdv w]. reflexivity. }
  destruct E1 as [ev1 E1]. destruct (enabled s1 t); [|exists ev1; exact E1].
  destruct (IH (step s1 t)) as [ev2 E2]. destruct (run_k k (step s1 t) t) as [s' l]. cbn [fst] in *.
  exists (ev1 ++ EStep t :: ev2). unfold run in *. rewrite fold_left_app. cbn. rewrite <- E1. exact E2.
Qed.

Lemma run_alone_run t f : forall s, exists evs, fst (run_alone f s t) = run s evs.
Proof.
  induction f as [|f IH]; intros s.
  - exists []. unfold run_alone. destruct (call_done s t); reflexivity.
  - destruct (call_done s t) eqn:Ed; [exists []; rewrite run_alone_done; auto|].
    destruct (enabled s t) eqn:Ee.
    + rewrite run_alone_step by auto. destruct (IH (step s t)) as [evs E]. exists (EStep t :: evs). exact E.
    + destruct (deadline s t) as [w|] eqn:Ew.
      * rewrite (run_alone_wait _ _ _ w) by auto. destruct (IH (set_now s (N.max (now s) w))) as [evs E].
        exists (EAdv w :: evs). exact E.
      * rewrite run_alone_block by auto. exists []. reflexivity.
Qed.

Lemma pop_thr s t p t' :
  t_pc (thr (pop_prog s t p) t') = t_pc (thr s t') /\ t_cs (thr (pop_prog s t p) t') = t_cs (thr s t') /\
  t_proc (thr (pop_prog s t p) t') = t_proc (thr s t').
Proof. unfold pop_prog, set_thr; cbn. unfold upd. destruct (Nat.eqb t' t) eqn:E; [apply Nat.eqb_eq in E; subst|]; auto. Qed.

Ltac pop_rw s t p :=
  repeat match goal with |- context[thr (pop_prog s t p) ?u] =>
    let E1 := fresh in let E2 := fresh in let E3 := fresh in
    destruct (pop_thr s t p u) as (E1 & E2 & E3); rewrite ?E1, ?E2, ?E3; clear E1 E2 E3 end.

Lemma Inv_pop s t p : Inv s -> Inv (pop_prog s t p).
Proof.
  intros [[HL Hf Hw Htl Hc Hu] F]. split.
  - constructor; unfold lev in *; intros *; pop_rw s t p; change (objs (pop_prog s t p)) with (objs s); eauto.
  - pose proof F as F0. destruct F0. constructor; intros *; pop_rw s t p;
      change (objs (pop_prog s t p)) with (objs s); change (holder (pop_prog s t p)) with (holder s);
      change (fdown (pop_prog s t p)) with (fdown s); change (dead (pop_prog s t p)) with (dead s);
      change (nextfd (pop_prog s t p)) with (nextfd s); eauto.
    intros Hh. destruct (fd_holder_ref d Hh) as [?|(u & Hu1 & Hu2)]; [left; auto|right; exists u; pop_rw s t p; auto].
Qed.

(* ---------- the victim phase: thread 0 works on object 0 only ---------------------------------------- *)

Record VF (sb s : state) : Prop := mkVF {
  v_thr : forall t, t <> 0 -> thr s t = thr sb t;
  v_obj : forall o, o <> 0 -> objs s o = objs sb o;
  v_dead : dead s = dead sb;
  v_faults : faults s = faults sb;
  v_uses : forall o, o <> 0 -> ~ uses (thr s 0) o;
  v_oproc : o_proc (objs s 0) = o_proc (objs sb 0);
  v_tproc : t_proc (thr s 0) = t_proc (thr sb 0)
}.

Lemma VF_step sb s : VF sb s -> VF sb (step s 0).
Proof.
  intros [A B C D E F G]. destruct (step_Upd s 0) as (o0 & U). destruct (step_procs s 0) as [P1 P2].
  constructor.
  - intros t Ht. rewrite (u_thr _ _ _ _ U) by auto. auto.
  - intros o Ho. destruct (step_objs_other s 0 o (E o Ho)) as (X & _ & _). rewrite X. auto.
  - rewrite (u_dead _ _ _ _ U). auto.
  - destruct (step_objs_other s 0 1 (E 1 ltac:(discriminate))) as (_ & _ & X). rewrite X. auto.
  - intros o Ho. destruct (step_objs_other s 0 o (E o Ho)) as (_ & X & _). exact X.
  - rewrite P1. auto.
  - rewrite P2. auto.
Qed.

Lemma VF_run_k sb k s : VF sb s -> VF sb (fst (run_k k s 0)).
Proof.
  apply (run_k_ind (VF sb) 0); [apply VF_step|]. intros s1 n [A B C D E F G]. constructor; auto.
Qed.

Lemma run_app s a b : run s (a ++ b) = run (run s a) b.
Proof. unfold run. apply fold_left_app. Qed.

Lemma FUEL_ge : 16 <= FUEL.
Proof. unfold FUEL. lia. Qed.

Lemma Slot_others s s' t o t2 o2 : others_same s s' t o -> t2 <> t -> o2 <> o -> Slot s t2 o2 -> Slot s' t2 o2.
Proof.
  intros (A & B & C) Ht Ho [(I1 & I2 & I3) P]. unfold Slot, idle_live. rewrite (A _ Ht), (B _ Ho), C. auto.
Qed.

(* a live holder (thread 1 through object 1): the probe is refused; after its release the probe succeeds *)
Lemma tail_busy fuel s d :
  16 <= fuel -> Slot s 2 2 -> Kern s -> holder s = Some d -> held_by (objs s 1) 1 d ->
  t_pc (thr s 1) = PIdle -> dead s (t_proc (thr s 1)) = false ->
  exists s4 s6, probe_gen fuel s 2 2 = (s4, false) /\
                probe_gen fuel (fst (do_call fuel s4 1 (CRel 1 false))) 2 2 = (s6, true).
Proof.
  intros Hfu Sl K Hh Hb Hpc Hal.
  destruct (probe_busy fuel s 2 2 Sl K) as (s4 & E4 & Sl4 & K4 & Hh4 & O4); [congruence|auto|].
  pose proof O4 as (A & B & C).
  destruct (rel_ok s4 1 1 d fuel) as (s5 & E5 & F5 & P5 & Pr5 & Hh5 & Pc5 & Tp5 & K5); auto.
  { rewrite (A 1) by discriminate. auto. }
  { rewrite (A 1), C by discriminate. auto. }
  { rewrite (B 1) by discriminate. auto. }
  { congruence. }
  { lia. }
  assert (Sl5 : Slot s5 2 2) by (eapply Slot_others; [eapply others_RFrame; eauto| | |]; auto).
  destruct (probe_free fuel s5 2 2 Sl5 K5 Hh5 Hfu) as (s6 & E6 & _).
  exists s4, s6. split; auto. rewrite E5. exact E6.
Qed.

(* ---------- the initial state of a crash case -------------------------------------------------------- *)

Definition s_init reent dflt prog := init_crash reent dflt prog.

Lemma init_is_cfg reent dflt prog :
  init_crash reent dflt prog = init_cfg [(1, reent, dflt); (2, false, TNeg); (0, false, TNeg)] [(1, prog); (2, []); (0, [])] [].
Proof. reflexivity. Qed.

Lemma init_objs reent dflt prog o : o <> 0 ->
  pristine (objs (init_crash reent dflt prog) o) /\ o_dflt (objs (init_crash reent dflt prog) o) = TNeg.
Proof. intros Ho. destruct o as [|[|[|o]]]; [congruence| | |]; cbn; repeat split; destruct o; reflexivity. Qed.

Lemma init_thr reent dflt prog t : t <> 0 -> t_pc (thr (init_crash reent dflt prog) t) = PIdle.
Proof. intros Ht. destruct t as [|[|[|t]]]; [congruence| | |]; cbn; auto; destruct t; reflexivity. Qed.

Lemma init_facts reent dflt prog :
  let s := init_crash reent dflt prog in
  Inv s /\ Kern s /\ holder s = None /\ dead s = (fun _ => false) /\
  o_proc (objs s 0) = 1 /\ o_proc (objs s 1) = 2 /\ o_proc (objs s 2) = 0 /\
  thr s 0 = thr0 1 prog /\ thr s 1 = thr0 2 [] /\ thr s 2 = thr0 0 [].
Proof.
  cbv zeta. split; [rewrite init_is_cfg; apply Inv_init|]. split; [|cbn; repeat split; reflexivity].
  apply Kern_reach; [|reflexivity]. rewrite init_is_cfg. apply Inv_init.
Qed.

(* ---------- the state right after the victim's death -------------------------------------------------- *)

Record Base (sb : state) : Prop := mkBase {
  b_inv : exists sp evs, Inv sp /\ sb = run sp evs;
  b_idle : forall t, t <> 0 -> t_pc (thr sb t) = PIdle;
  b_tp0 : t_proc (thr sb 0) = 1; b_tp1 : t_proc (thr sb 1) = 2; b_tp2 : t_proc (thr sb 2) = 0;
  b_op0 : o_proc (objs sb 0) = 1; b_op1 : o_proc (objs sb 1) = 2; b_op2 : o_proc (objs sb 2) = 0;
  b_dead : dead sb = (fun _ => false);
  b_faults : faults sb = [];
  b_uses : forall o, o <> 0 -> ~ uses (thr sb 0) o;
  b_p2 : pristine (objs sb 2);
  b_fd : forall o, o <> 0 -> o <> 1 -> o_fd (objs sb o) = None
}.

Lemma VF_refl s : (forall o, o <> 0 -> ~ uses (thr s 0) o) -> VF s s.
Proof. intros H. constructor; auto. Qed.

Lemma after_crash sb k :
  Base sb -> viol (fst (run_k k sb 0)) = false ->
  let s2 := crash (fst (run_k k sb 0)) 1 in
  (forall t, t <> 0 -> thr s2 t = thr sb t) /\ (forall o, o <> 0 -> objs s2 o = objs sb o) /\
  Kern s2 /\ Slot s2 2 2 /\ dead s2 2 = false /\ dead s2 0 = false /\
  (o_fd (objs sb 1) = None -> holder s2 = None) /\
  (forall d, o_fd (objs sb 1) = Some d -> holder s2 = Some d).
Proof.
  intros B Hv. pose proof (VF_run_k sb k sb (VF_refl sb (b_uses _ B))) as V.
  destruct (b_inv _ B) as (sp & evs0 & Isp & Esb).
  destruct (run_k_run 0 k sb) as (evs & Esa).
  set (sa := fst (run_k k sb 0)) in *. cbv zeta.
  assert (Isa : Inv sa).
  { rewrite Esa, Esb, <- run_app. apply Inv_run; auto. rewrite run_app, <- Esb, <- Esa. exact Hv. }
  assert (F2 : FD (crash sa 1)) by (apply FD_crash; apply Isa).
  assert (Et : forall t, t <> 0 -> thr (crash sa 1) t = thr sb t) by (intros; cbn; apply (v_thr _ _ V); auto).
  assert (Eo : forall o, o <> 0 -> objs (crash sa 1) o = objs sb o) by (intros; cbn; apply (v_obj _ _ V); auto).
  assert (Ed : forall p, dead (crash sa 1) p = Nat.eqb p 1).
  { intros p. cbn. rewrite (v_dead _ _ V), (b_dead _ B). unfold upd. destruct (Nat.eqb p 1); reflexivity. }
  assert (K2 : Kern (crash sa 1)).
  { apply Kern_reach; auto. cbn. rewrite (v_faults _ _ V). apply (b_faults _ B). }
  split; auto. split; auto. split; auto.
  split.
  { split.
    - unfold idle_live. rewrite Et, Eo, Ed by discriminate. rewrite (b_idle _ B), (b_tp2 _ B), (b_op2 _ B) by discriminate. auto.
    - rewrite Eo by discriminate. apply (b_p2 _ B). }
  split; [rewrite Ed; reflexivity|]. split; [rewrite Ed; reflexivity|].
  split.
  - intros Hn. apply free_when_unreferenced; auto.
    + intros o Hl. destruct (Nat.eq_dec o 0) as [->|Ho].
      * exfalso. cbn [crash objs] in Hl. rewrite Ed, (v_oproc _ _ V), (b_op0 _ B) in Hl. discriminate.
      * rewrite Eo by auto. destruct (Nat.eq_dec o 1) as [->|Ho1]; auto. apply (b_fd _ B); auto.
    + intros t Hl. destruct (Nat.eq_dec t 0) as [->|Ht].
      * exfalso. cbn [crash thr] in Hl. rewrite Ed, (v_tproc _ _ V), (b_tp0 _ B) in Hl. discriminate.
      * rewrite Et, (b_idle _ B) by auto. reflexivity.
  - intros d Hd. destruct (fd_hold _ F2 1 d) as [A _]; auto.
    + rewrite Eo by discriminate. auto.
    + rewrite Eo, Ed, (b_op1 _ B) by discriminate. reflexivity.
Qed.

Lemma Base_init reent dflt prog :
  (forall c, In c prog -> call_obj c = 0) -> Base (init_crash reent dflt prog).
Proof.
  intros Hp. destruct (init_facts reent dflt prog) as (I & K & Hh & Hd & O0 & O1 & O2 & T0 & T1 & T2).
  constructor.
  - exists (init_crash reent dflt prog), []. split; auto.
  - apply init_thr.
  - rewrite T0; reflexivity.
  - rewrite T1; reflexivity.
  - rewrite T2; reflexivity.
  - exact O0.
  - exact O1.
  - exact O2.
  - exact Hd.
  - reflexivity.
  - intros o Ho U. rewrite T0 in U. destruct U as [A|(c & A & A')]; cbn in *; [discriminate|]. rewrite (Hp _ A) in A'. congruence.
  - apply init_objs. discriminate.
  - intros o Ho _. apply init_objs; auto.
Qed.

Lemma survivor_holds fuel reent dflt prog : 16 <= fuel ->
  (forall c, In c prog -> call_obj c = 0) ->
  exists s' d, do_call fuel (init_crash reent dflt prog) 1 (acq_blk 1) = (s', RTrue) /\
    Base s' /\ held_by (objs s' 1) 1 d.
Proof.
  intros Hfu Hp. pose proof (Base_init reent dflt prog Hp) as B.
  destruct (init_facts reent dflt prog) as (I & K & Hh & Hd & O0 & O1 & O2 & T0 & T1 & T2).
  set (s0 := init_crash reent dflt prog) in *.
  destruct (init_objs reent dflt prog 1) as [P1 D1]; [discriminate|]. fold s0 in P1, D1.
  destruct (acq_ok s0 1 1 MPlain true TNone 51%N 0 fuel) as (s' & d & E & F & Hb & Pr & Pc & Tp & K'); auto.
  { unfold idle_live. rewrite T1, O1, Hd. cbn. auto. }
  { rewrite D1. intros T. cbn. discriminate. }
  exists s', d. split; [exact E|]. split; [|exact Hb].
  assert (Et : forall t, t <> 1 -> thr s' t = thr s0 t) by apply (f_thr _ _ _ _ _ _ F).
  assert (Eo : forall o, o <> 1 -> objs s' o = objs s0 o) by apply (f_obj _ _ _ _ _ _ F).
  constructor.
  - destruct (run_alone_run 1 fuel (pop_prog s0 1 [acq_blk 1])) as (evs & Er).
    exists (pop_prog s0 1 [acq_blk 1]), evs. split; [apply Inv_pop; auto|]. rewrite <- Er.
    unfold do_call in E. unfold acq_blk. rewrite E. reflexivity.
  - intros t Ht. destruct (Nat.eq_dec t 1) as [->|H1]; auto. rewrite Et by auto. apply (b_idle _ B); auto.
  - rewrite Et by discriminate. apply (b_tp0 _ B).
  - rewrite Tp. apply (b_tp1 _ B).
  - rewrite Et by discriminate. apply (b_tp2 _ B).
  - rewrite Eo by discriminate. apply (b_op0 _ B).
  - rewrite Pr. apply (b_op1 _ B).
  - rewrite Eo by discriminate. apply (b_op2 _ B).
  - rewrite (f_dead _ _ _ _ _ _ F). apply (b_dead _ B).
  - rewrite (f_faults _ _ _ _ _ _ F). apply (b_faults _ B).
  - rewrite Et by discriminate. apply (b_uses _ B).
  - rewrite Eo by discriminate. apply (b_p2 _ B).
  - intros o Ho Ho1. rewrite Eo by auto. apply (b_fd _ B); auto.
Qed.

(* ---------- the model's prediction of a crash case (fuel as a parameter) ----------------------------- *)

Definition victim_end (fuel : nat) (reent : bool) (dflt : tmo) (prog : list call) (scen k : nat) : state :=
  let s0 := init_crash reent dflt prog in
  let s0 := if Nat.eqb scen 1 then fst (do_call fuel s0 1 (acq_blk 1)) else s0 in
  fst (run_k k s0 0).

Definition mt_gen (fuel : nat) (reent : bool) (dflt : tmo) (prog : list call) (scen k : nat) : bool * bool * bool :=
  let s2 := crash (victim_end fuel reent dflt prog scen k) 1 in
  let '(s3, wh) :=
      if Nat.eqb scen 2 then let '(sw, r) := do_call fuel s2 1 (acq_blk 1) in (sw, result_eqb r RTrue)
      else (s2, false) in
  let '(s4, p1) := probe_gen fuel s3 2 2 in
  let s5 := if Nat.eqb scen 0 then s4 else fst (do_call fuel s4 1 (CRel 1 false)) in
  let '(_, p2) := probe_gen fuel s5 2 2 in
  (wh, p1, p2).

Definition ok_obs (scen : nat) (wh p1 p2 : bool) : bool :=
  match scen with 0 => p1 && p2 | 1 => negb p1 && p2 | _ => wh && negb p1 && p2 end.

Lemma mt_gen_ok fuel reent dflt prog scen k :
  16 <= fuel -> scen <= 2 -> (forall c, In c prog -> call_obj c = 0) ->
  viol (victim_end fuel reent dflt prog scen k) = false ->
  let '(wh, p1, p2) := mt_gen fuel reent dflt prog scen k in ok_obs scen wh p1 p2 = true.
Proof.
  intros Hfu Hs Hp Hv. unfold mt_gen. unfold victim_end in *.
  destruct scen as [|[|[|n]]]; [| | |lia]; cbn [Nat.eqb] in *; cbv iota in *.
  - (* alone *)
    destruct (after_crash _ k (Base_init reent dflt prog Hp) Hv) as (Et & Eo & K2 & Sl & D2 & D0 & Hn & _).
    set (s2 := crash _ 1) in *.
    assert (Hh2 : holder s2 = None) by (apply Hn; apply init_objs; discriminate).
    destruct (probe_free fuel s2 2 2 Sl K2 Hh2 Hfu) as (s4 & E4 & Sl4 & K4 & Hh4 & _).
    rewrite E4. destruct (probe_free fuel s4 2 2 Sl4 K4 Hh4 Hfu) as (s6 & E6 & _). rewrite E6. reflexivity.
  - (* a survivor holds *)
    destruct (survivor_holds fuel reent dflt prog Hfu Hp) as (sb & d & E & B & Hb).
    rewrite E in *. cbn [fst] in *.
    destruct (after_crash _ k B Hv) as (Et & Eo & K2 & Sl & D2 & D0 & _ & Hh).
    set (s2 := crash _ 1) in *.
    assert (A1 : holder s2 = Some d) by (apply Hh; apply Hb).
    assert (A2 : held_by (objs s2 1) 1 d) by (rewrite Eo by discriminate; exact Hb).
    assert (A3 : t_pc (thr s2 1) = PIdle) by (rewrite Et by discriminate; apply (b_idle _ B); discriminate).
    assert (A4 : dead s2 (t_proc (thr s2 1)) = false) by (rewrite Et, (b_tp1 _ B) by discriminate; exact D2).
    destruct (tail_busy fuel s2 d Hfu Sl K2 A1 A2 A3 A4) as (s4 & s6 & E4 & E6).
    rewrite E4, E6. reflexivity.
  - (* a survivor waits *)
    pose proof (Base_init reent dflt prog Hp) as B.
    destruct (after_crash _ k B Hv) as (Et & Eo & K2 & Sl & D2 & D0 & Hn & _).
    set (s2 := crash _ 1) in *.
    destruct (init_objs reent dflt prog 1) as [P1 D1]; [discriminate|].
    assert (A1 : idle_live s2 1 1).
    { unfold idle_live. rewrite Et, Eo by discriminate. rewrite (b_idle _ B), (b_tp1 _ B), (b_op1 _ B) by discriminate. auto. }
    assert (A2 : pristine (objs s2 1)) by (rewrite Eo by discriminate; exact P1).
    assert (A3 : holder s2 = None) by (apply Hn; apply P1).
    assert (A4 : forall T, snd (norm' (o_dflt (objs s2 1)) true TNone) <> TVal T).
    { rewrite Eo, D1 by discriminate. intros T. cbn. discriminate. }
    destruct (acq_ok s2 1 1 MPlain true TNone 51%N 0 fuel A1 K2 A2 A3 A4 Hfu) as (s3 & d & E3 & F3 & Hb3 & Pr3 & Pc3 & Tp3 & K3).
    unfold acq_blk. rewrite E3.
    assert (B1 : Slot s3 2 2).
    { eapply Slot_others; [eapply others_Frame; eauto| | |exact Sl]; discriminate. }
    assert (B2 : holder s3 = Some d) by apply (f_holder _ _ _ _ _ _ F3).
    assert (B3 : dead s3 (t_proc (thr s3 1)) = false).
    { rewrite Tp3, (f_dead _ _ _ _ _ _ F3), Et, (b_tp1 _ B) by discriminate. exact D2. }
    destruct (tail_busy fuel s3 d Hfu B1 K3 B2 Hb3 Pc3 B3) as (s4 & s6 & E4 & E6).
    cbn [result_eqb result_code Nat.eqb].
    rewrite E4, E6. reflexivity.
Qed.

(* ---------- the link to Case_C13.model_trace ---------------------------------------------------------- *)

Lemma probe_eq s : probe s = probe_gen FUEL s 2 2.
Proof. unfold probe, probe_gen, acq_nb. reflexivity. Qed.

Lemma model_trace_gen reent dflt prog scen vops vres a b c ops rs wh p1 p2 :
  model_trace (CCrash reent dflt prog scen false vops vres true a b c) = (ops, rs, wh, p1, p2) ->
  mt_gen FUEL reent dflt prog scen (length vops) = (wh, p1, p2).
Proof.
  unfold model_trace, mt_gen, victim_end.
  set (s0' := if Nat.eqb scen 1 then _ else _).
  destruct (run_k (length vops) s0' 0) as [sa la]. cbv beta iota zeta. cbn [fst].
  destruct (Nat.eqb scen 2).
  - destruct (do_call FUEL (crash sa 1) 1 (acq_blk 1)) as [sw r]. cbv beta iota zeta. rewrite probe_eq.
    destruct (probe_gen FUEL sw 2 2) as [s4 q1]. destruct (Nat.eqb scen 0); rewrite probe_eq;
      match goal with |- context[probe_gen FUEL ?x 2 2] => destruct (probe_gen FUEL x 2 2) as [s6 q2] end;
      intros [= _ _ <- <- <-]; reflexivity.
  - cbv beta iota zeta. rewrite probe_eq.
    destruct (probe_gen FUEL (crash sa 1) 2 2) as [s4 q1]. destruct (Nat.eqb scen 0); rewrite probe_eq;
      match goal with |- context[probe_gen FUEL ?x 2 2] => destruct (probe_gen FUEL x 2 2) as [s6 q2] end;
      intros [= _ _ <- <- <-]; reflexivity.
Qed.

Theorem monitor_complete_C13_lemma :
  forall reent dflt prog scen vops vres a b c ops rs wh p1 p2,
    scen <= 2 -> (forall cl, In cl prog -> call_obj cl = 0) ->
    viol (victim_end FUEL reent dflt prog scen (length vops)) = false ->
    model_trace (CCrash reent dflt prog scen false vops vres true a b c) = (ops, rs, wh, p1, p2) ->
    ok (CCrash reent dflt prog scen false vops vres true wh p1 p2) = true.
Proof.
  intros reent dflt prog scen vops vres a b c ops rs wh p1 p2 Hs Hp Hv Hm.
  pose proof (mt_gen_ok FUEL reent dflt prog scen (length vops) FUEL_ge Hs Hp Hv) as H.
  rewrite (model_trace_gen _ _ _ _ _ _ _ _ _ _ _ _ _ _ Hm) in H. exact H.
Qed.

(* ---------- the contract hypothesis in static form ---------------------------------------------------- *)

Lemma init_cfg_ok reent dflt prog :
  (forall c, In c prog -> call_obj c = 0) -> prog_okb (S (length prog)) [] prog = true ->
  cfg_ok [(1, reent, dflt); (2, false, TNeg); (0, false, TNeg)] [(1, prog); (2, []); (0, [])] = true.
Proof.
  intros Hp Hk. unfold cfg_ok. cbn [forallb snd fst length]. rewrite Hk. cbn [prog_okb andb].
  replace (forallb _ prog) with true; [reflexivity|]. symmetry. apply forallb_forall. intros c Hc. rewrite (Hp c Hc). reflexivity.
Qed.

Lemma W_pop_acq s t o m blk tm poll :
  W s -> t_pc (thr s t) = PIdle -> t_cs (thr s t) = [] -> o_proc (objs s o) = t_proc (thr s t) ->
  W (pop_prog s t [CAcq o m blk tm poll 0]).
Proof.
  intros [Hw Hp] Hpc Hcs Hpr. split.
  - intros t'. destruct (Nat.eq_dec t' t) as [->|Hn].
    + unfold wf_thr, pop_prog. cbn. rewrite upd_same. cbn. rewrite Hpc, Hcs. constructor; constructor.
    + unfold pop_prog. cbn. rewrite upd_other by auto. apply Hw.
  - intros t' c. destruct (Nat.eq_dec t' t) as [->|Hn].
    + unfold pop_prog. cbn. rewrite upd_same. cbn. intros [<-|[]]. exact Hpr.
    + unfold pop_prog. cbn. rewrite upd_other by auto. apply Hp.
Qed.

Lemma victim_viol fuel reent dflt prog scen k :
  (forall c, In c prog -> call_obj c = 0) -> prog_okb (S (length prog)) [] prog = true ->
  viol (victim_end fuel reent dflt prog scen k) = false.
Proof.
  intros Hp Hk. unfold victim_end. pose proof (init_cfg_ok reent dflt prog Hp Hk) as Hc.
  rewrite init_is_cfg. set (s0 := init_cfg _ _ []).
  assert (I0 : Inv s0) by apply Inv_init. assert (W0 : W s0) by (apply W_init; exact Hc).
  destruct (Nat.eqb scen 1).
  - unfold do_call. set (sp := pop_prog s0 1 [acq_blk 1]).
    destruct (run_alone_run 1 fuel sp) as (e1 & E1). rewrite E1.
    destruct (run_k_run 0 k (run sp e1)) as (e2 & E2). rewrite E2, <- run_app.
    apply W_run; [apply Inv_pop; auto| |reflexivity].
    apply W_pop_acq; auto.
  - destruct (run_k_run 0 k s0) as (e2 & E2). rewrite E2. apply W_run; auto.
Qed.

Theorem monitor_complete_static_C13_lemma :
  forall reent dflt prog scen vops vres a b c ops rs wh p1 p2,
    scen <= 2 -> (forall cl, In cl prog -> call_obj cl = 0) -> prog_okb (S (length prog)) [] prog = true ->
    model_trace (CCrash reent dflt prog scen false vops vres true a b c) = (ops, rs, wh, p1, p2) ->
    ok (CCrash reent dflt prog scen false vops vres true wh p1 p2) = true.
Proof.
  intros reent dflt prog scen vops vres a b c ops rs wh p1 p2 Hs Hp Hk Hm.
  eapply monitor_complete_C13_lemma; eauto. apply victim_viol; auto.
Qed.
