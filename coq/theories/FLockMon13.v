(* FLockMon13.v — the monitor of the crash runs (Case_C13.ok) accepts the model's own
   prediction: after the victim's death the model predicts exactly what the monitor
   demands (fresh acquire succeeds iff no survivor holds, ...), for every victim program
   on its own object, every number of victim steps, every scenario in which the survivor
   is started after the crash or holds all along.                                     *)
From Coq Require Import List Arith NArith Bool Lia ZifyBool ZifyN.
Import ListNotations.
Require Import Aiuti.CaseLib Aiuti.FLock Aiuti.FLockInv Aiuti.FLockSpec Aiuti.FLockTL Aiuti.FLockFD Aiuti.FLockMutex
               Aiuti.FLockContract Aiuti.FLockExec Aiuti.FLockCrash Aiuti.FLockAcq Aiuti.FLockRel Aiuti.FLockTerm Aiuti.FLockSeq.
Require Aiuti.Case_C13.
Local Arguments Nat.max : simpl never.
Arguments upd : simpl never.
Arguments enter_tlrel : simpl never.
Arguments enter_cleanup : simpl never.
Arguments after_attempt : simpl never.
Arguments k_unlock : simpl never.
Arguments k_close : simpl never.
Arguments tl_release : simpl never.
Arguments tl_try : simpl never.
Arguments tl_rel_raises : simpl never.
Arguments normalise : simpl never.
Arguments faulty : simpl never.
Arguments intr : simpl never.
Arguments enabled : simpl never.
Arguments step : simpl never.
Arguments run_alone : simpl never.
Arguments remove_all : simpl never.
Arguments remove_one : simpl never.

(* ---------- a step of thread t leaves alone every object its thread record does not mention ------- *)

Definition uses (th : thread) (o' : oid) : Prop :=
  pc_obj (t_pc th) = Some o' \/ exists c, In c (t_prog th) /\ call_obj c = o'.

Lemma faults_enter_tlrel s t o k : faults (enter_tlrel s t o k) = faults s.
Proof. rewrite enter_tlrel_eq. destruct (_ || _); reflexivity. Qed.
Lemma faults_enter_cleanup s t a b : faults (enter_cleanup s t a b) = faults s.
Proof. unfold enter_cleanup. destruct (tl_rel_raises _ _); reflexivity. Qed.
Lemma faults_after_attempt s t a : faults (after_attempt s t a) = faults s.
Proof.
  unfold after_attempt. destruct (negb (a_blk a)); [apply faults_enter_cleanup|].
  destruct (a_tm a); try reflexivity. destruct (_ <? _)%N; [apply faults_enter_cleanup|reflexivity].
Qed.

Ltac thr_simpl := cbn; rewrite ?upd_same; cbn.

Lemma not_uses_acq_next a th th' o' :
  a_o a <> o' -> (forall c, In c (t_prog th) -> call_obj c <> o') -> acq_next a th th' -> ~ uses th' o'.
Proof.
  intros Ha Hp (_ & _ & [[E L]|[E E2]]) [U|(c & Hc & Ec)].
  - destruct (t_pc th'); cbn in L, U; try tauto; destruct L as [L _]; congruence.
  - rewrite E in Hc. apply (Hp c); auto.
  - rewrite E2 in U. discriminate.
  - rewrite E in Hc. apply (Hp c); auto. eapply In_skipn; eauto.
Qed.

Lemma not_uses_rel_next th th' o' o :
  o <> o' -> (forall c, In c (t_prog th) -> call_obj c <> o') ->
  rel_next th th' -> (forall oo, pc_obj (t_pc th') = Some oo -> oo = o) -> ~ uses th' o'.
Proof.
  intros Ho Hp (_ & _ & E & L) Hpc [U|(c & Hc & Ec)].
  - apply Hpc in U. congruence.
  - rewrite E in Hc. apply (Hp c); auto.
Qed.

Lemma not_uses_mk p prog pc res cs o' :
  (forall oo, pc_obj pc = Some oo -> oo <> o') -> (forall c, In c prog -> call_obj c <> o') ->
  ~ uses (mkthr p prog pc res cs) o'.
Proof. intros A B [U|(c & Hc & Ec)]; cbn in *; [eapply A; eauto|eapply B; eauto]. Qed.

Ltac nu := apply not_uses_mk; [cbn; intros oo Hoo; try discriminate; try (injection Hoo as <-); auto|auto].

Lemma step_objs_other s t o' :
  ~ uses (thr s t) o' ->
  objs (step s t) o' = objs s o' /\ ~ uses (thr (step s t) t) o' /\ faults (step s t) = faults s.
Proof.
  intros Hu. unfold step. destruct (negb (enabled s t)); [auto|].
  assert (Hprog : forall c, In c (t_prog (thr s t)) -> call_obj c <> o') by (intros c Hc E; apply Hu; right; eauto).
  assert (Hpco : forall oo, pc_obj (t_pc (thr s t)) = Some oo -> oo <> o') by (intros oo E ->; apply Hu; now left).
  destruct (t_pc (thr s t)) as [|a dl|a|a d|a d i|a w|a oserr|o d k|o d k|o k] eqn:Hpc; cbn in Hpco.
  - (* PIdle *)
    destruct (t_prog (thr s t)) as [|c rest] eqn:Hpr; [auto|].
    assert (Hc : call_obj c <> o') by (apply Hprog; now left).
    assert (Hrest : forall c', In c' rest -> call_obj c' <> o') by (intros; apply Hprog; now right).
    destruct c as [o m blk tm poll skip|o force]; unfold begin_call; cbn in Hc |- *.
    + rewrite upd_same. cbn. destruct (normalise _ _ _) as [b' tm']. destruct (Nat.eqb _ _); thr_simpl;
        (split; [reflexivity|split; [nu|reflexivity]]).
    + rewrite upd_same. cbn.
      destruct (Nat.eqb (o_proc (objs s o)) _); cbn;
        (destruct (o_fd (objs s o)) as [d|]; [|thr_simpl; split; [reflexivity|split; [nu|reflexivity]]]);
        destruct (own_is _ _); cbn; destruct (_ || _); cbn.
      all: try (thr_simpl; rewrite upd_other by congruence; split; [reflexivity|split; [nu|reflexivity]]).
      all: match goal with |- context [enter_tlrel ?s1 ?tt ?oo 1] =>
             pose proof (rel_next_enter_tlrel s1 tt oo 1) as R; pose proof (Tail_enter_tlrel s1 tt oo 1) as T end;
           (split; [rewrite (u_obj _ _ _ _ (ta_upd _ _ _ _ T)) by congruence; cbn; rewrite upd_other by congruence; reflexivity|]);
           (split; [|rewrite faults_enter_tlrel; reflexivity]);
           (eapply not_uses_rel_next; [| |exact R|exact (ta_pcobj _ _ _ _ T)]; [exact Hc|]; thr_simpl; auto).
  - (* PTLAcq *)
    assert (Ha : a_o a <> o') by (apply Hpco; reflexivity).
    cbn. destruct (tl_try _ _); [destruct (o_fd _)|]; thr_simpl; rewrite ?upd_other by congruence;
      (split; [reflexivity|split; [|reflexivity]]).
    + nu.
    + nu.
    + apply not_uses_mk; [cbn; discriminate|]. destruct (is_fail _); auto. intros c Hc. apply Hprog. eapply In_skipn; eauto.
  - (* POpen *)
    assert (Ha : a_o a <> o') by (apply Hpco; reflexivity).
    cbn. destruct (faulty s KOpen); [destruct (intr s KOpen)|].
    + match goal with |- context [enter_cleanup ?s1 t a true] =>
        pose proof (acq_next_enter_cleanup s1 t a true) as R; pose proof (Tail_enter_cleanup s1 t a true) as T end.
      split; [rewrite (u_obj _ _ _ _ (ta_upd _ _ _ _ T)) by congruence; reflexivity|].
      split; [eapply not_uses_acq_next; [exact Ha| |exact R]; auto|rewrite faults_enter_cleanup; reflexivity].
    + match goal with |- context [after_attempt ?s1 t a] =>
        pose proof (acq_next_after_attempt s1 t a) as R; pose proof (Tail_after_attempt s1 t a) as T end.
      split; [rewrite (u_obj _ _ _ _ (ta_upd _ _ _ _ T)) by congruence; reflexivity|].
      split; [eapply not_uses_acq_next; [exact Ha| |exact R]; auto|rewrite faults_after_attempt; reflexivity].
    + thr_simpl. split; [reflexivity|split; [nu|reflexivity]].
  - (* PFlock *)
    assert (Ha : a_o a <> o') by (apply Hpco; reflexivity).
    cbn. destruct (faulty s KLock); [|destruct (holder_free_for _ d)]; thr_simpl; rewrite ?upd_other by congruence;
      (split; [reflexivity|split; [nu|reflexivity]]).
  - (* PCloseF *)
    assert (Ha : a_o a <> o') by (apply Hpco; reflexivity).
    cbn. destruct (faulty s KClose || i).
    + match goal with |- context [enter_cleanup ?s1 t a true] =>
        pose proof (acq_next_enter_cleanup s1 t a true) as R; pose proof (Tail_enter_cleanup s1 t a true) as T end.
      rewrite thr_k_close in R. cbn in R.
      split; [rewrite (u_obj _ _ _ _ (ta_upd _ _ _ _ T)) by congruence; rewrite objs_k_close; reflexivity|].
      split; [eapply not_uses_acq_next; [exact Ha| |exact R]; auto|rewrite faults_enter_cleanup, faults_k_close; reflexivity].
    + match goal with |- context [after_attempt ?s1 t a] =>
        pose proof (acq_next_after_attempt s1 t a) as R; pose proof (Tail_after_attempt s1 t a) as T end.
      rewrite thr_k_close in R. cbn in R.
      split; [rewrite (u_obj _ _ _ _ (ta_upd _ _ _ _ T)) by congruence; rewrite objs_k_close; reflexivity|].
      split; [eapply not_uses_acq_next; [exact Ha| |exact R]; auto|rewrite faults_after_attempt, faults_k_close; reflexivity].
  - (* PSleep *)
    assert (Ha : a_o a <> o') by (apply Hpco; reflexivity).
    thr_simpl. split; [reflexivity|split; [nu|reflexivity]].
  - (* PCleanRel *)
    assert (Ha : a_o a <> o') by (apply Hpco; reflexivity).
    thr_simpl. rewrite upd_other by congruence. split; [reflexivity|split; [|reflexivity]].
    apply not_uses_mk; [cbn; discriminate|]. destruct (is_fail _); auto. intros c Hc. apply Hprog. eapply In_skipn; eauto.
  - (* PUnlock *)
    assert (Ho : o <> o') by (apply Hpco; reflexivity).
    cbn. destruct (faulty s KUnlock); thr_simpl; rewrite ?objs_k_unlock, ?thr_k_unlock, ?faults_k_unlock; cbn;
      (split; [reflexivity|split; [nu|reflexivity]]).
  - (* PCloseR *)
    assert (Ho : o <> o') by (apply Hpco; reflexivity).
    cbn.
    match goal with |- context [enter_tlrel ?s1 t o k] =>
      pose proof (rel_next_enter_tlrel s1 t o k) as R; pose proof (Tail_enter_tlrel s1 t o k) as T end.
    cbn in R. rewrite thr_k_close in R. cbn in R.
    split; [rewrite (u_obj _ _ _ _ (ta_upd _ _ _ _ T)) by congruence; cbn; rewrite upd_other by congruence; rewrite objs_k_close; reflexivity|].
    split; [|rewrite faults_enter_tlrel; cbn; rewrite faults_k_close; reflexivity].
    eapply not_uses_rel_next; [exact Ho| |exact R|exact (ta_pcobj _ _ _ _ T)]; auto.
  - (* PTLRel *)
    assert (Ho : o <> o') by (apply Hpco; reflexivity).
    cbn.
    match goal with |- context [enter_tlrel ?s1 t o ?k'] =>
      pose proof (rel_next_enter_tlrel s1 t o k') as R; pose proof (Tail_enter_tlrel s1 t o k') as T end.
    cbn in R.
    split; [rewrite (u_obj _ _ _ _ (ta_upd _ _ _ _ T)) by congruence; cbn; rewrite upd_other by congruence; reflexivity|].
    split; [|rewrite faults_enter_tlrel; reflexivity].
    eapply not_uses_rel_next; [exact Ho| |exact R|exact (ta_pcobj _ _ _ _ T)]; auto.
Qed.

(* ---------- one call of an idle live thread on a pristine / held object of its own ------------------ *)

Definition Kern (s : state) : Prop :=
  (forall h, holder s = Some h -> h < nextfd s) /\ (forall d q, fdown s d = Some q -> d < nextfd s) /\ faults s = [].

Lemma Kern_reach s : FD s -> faults s = [] -> Kern s.
Proof. intros F E. destruct (reach_kernel s F). repeat split; auto. Qed.

Lemma Kern_frame s t o s' pend h :
  Frame s t o s' pend h -> Kern s -> (forall hh, h = Some hh -> hh < nextfd s') -> Kern s'.
Proof.
  intros F (K1 & K2 & K3) Hh. repeat split.
  - intros hh E. apply Hh. rewrite <- E. symmetry. apply (f_holder _ _ _ _ _ _ F).
  - intros d q E. destruct (Nat.lt_ge_cases d (nextfd s)) as [L|G].
    + pose proof (f_next _ _ _ _ _ _ F). lia.
    + destruct pend as [dp|].
      * destruct (Nat.eq_dec d dp) as [->|Hn]; [apply (f_pend _ _ _ _ _ _ F dp eq_refl)|].
        rewrite (f_fd_new _ _ _ _ _ _ F) in E by (auto; congruence). discriminate.
      * rewrite (f_fd_new _ _ _ _ _ _ F) in E by (auto; discriminate). discriminate.
  - rewrite (f_faults _ _ _ _ _ _ F). exact K3.
Qed.

Definition idle_live (s : state) (t : tid) (o : oid) : Prop :=
  t_pc (thr s t) = PIdle /\ dead s (t_proc (thr s t)) = false /\ o_proc (objs s o) = t_proc (thr s t).

(* the object right after its first acquire through descriptor d *)
Definition held_by (ob : obj) (t : tid) (d : fdid) : Prop :=
  o_fd ob = Some d /\ o_own ob = Some t /\ o_cnt ob = 1 /\ o_dep ob = 1.

Lemma untimed_fuel dflt blk tm poll :
  (forall T, snd (norm' dflt blk tm) <> TVal T) -> acq_fuel (snd (norm' dflt blk tm)) poll = 16.
Proof. intros H. unfold acq_fuel. destruct (snd (norm' dflt blk tm)) eqn:E; auto. exfalso. eapply H; eauto. Qed.

(* acquire on a free path: succeeds *)
Lemma acq_ok s t o m blk tm poll skip fuel :
  idle_live s t o -> Kern s -> pristine (objs s o) -> holder s = None ->
  (forall T, snd (norm' (o_dflt (objs s o)) blk tm) <> TVal T) -> 16 <= fuel ->
  exists s' d,
    do_call fuel s t (CAcq o m blk tm poll skip) = (s', RTrue) /\
    Frame s t o s' (Some d) (Some d) /\ held_by (objs s' o) t d /\
    o_proc (objs s' o) = o_proc (objs s o) /\
    t_pc (thr s' t) = PIdle /\ t_proc (thr s' t) = t_proc (thr s t) /\ Kern s'.
Proof.
  intros (Hpc & Hal & Hpr) K (P1 & P2 & P3 & P4) Hh Hunt Hfu. pose proof K as (K1 & K2 & K3).
  pose proof (do_acquire_outcome s t o m blk tm poll skip fuel Hpc Hal Hpr K1 K2) as Out.
  pose proof (do_acquire_terminates s t o m blk tm poll skip fuel Hpc Hal Hpr K1 K2 K3) as Term.
  cbv zeta in Out, Term. rewrite normalise_norm' in Out, Term.
  assert (Hterm : snd (do_call fuel s t (CAcq o m blk tm poll skip)) <> ROutOfFuel).
  { apply Term; [intros T E; exfalso; eapply Hunt; eauto|rewrite untimed_fuel; auto]. }
  destruct (do_call fuel s t (CAcq o m blk tm poll skip)) as [s' r] eqn:E. cbn [fst snd] in *.
  assert (Htry : tl_try (objs s o) t <> None) by (unfold tl_try; rewrite P2; discriminate).
  destruct Out as [Eo|[[Eo B]|Fin]]; [congruence| |].
  - exfalso. destruct B as [a Ht Hb Htm Hbusy _|a d Ht Hb Htm Hfd Htr Hhold _]; congruence.
  - destruct Fin as [E1 Ht F Ho Hfd _ _|d E1 Ht F Ho Hfd _ Hhd _|E1 Ht F Ho Hbusy _ _|b E1 Ht F Ho Hfd _ R1 R2 _].
    + congruence.
    + exists s', d. subst r. split; [reflexivity|]. split; auto.
      split; [rewrite Ho; unfold held_by, acq_obj; cbn; rewrite P2, P3; auto|].
      split; [rewrite Ho; reflexivity|]. split; [now rewrite Ht|]. split; [now rewrite Ht|].
      eapply Kern_frame; eauto. intros hh [= <-]. apply (f_pend _ _ _ _ _ _ F d eq_refl).
    + congruence.
    + exfalso. destruct b; [apply R1; auto|]. destruct (R2 eq_refl) as [_ [A|A]]; congruence.
Qed.

(* non-blocking acquire while somebody else holds the path: refused, nothing changes *)
Lemma acq_refused s t o m poll skip fuel :
  idle_live s t o -> Kern s -> pristine (objs s o) -> holder s <> None -> 16 <= fuel ->
  exists s',
    do_call fuel s t (CAcq o m false TNone poll skip) = (s', fail_result m) /\
    Frame s t o s' None (holder s) /\ objs s' o = objs s o /\
    t_pc (thr s' t) = PIdle /\ t_proc (thr s' t) = t_proc (thr s t) /\ Kern s'.
Proof.
  intros (Hpc & Hal & Hpr) K (P1 & P2 & P3 & P4) Hh Hfu. pose proof K as (K1 & K2 & K3).
  pose proof (do_acquire_outcome s t o m false TNone poll skip fuel Hpc Hal Hpr K1 K2) as Out.
  pose proof (do_acquire_terminates s t o m false TNone poll skip fuel Hpc Hal Hpr K1 K2 K3) as Term.
  cbv zeta in Out, Term. rewrite normalise_norm' in Out, Term.
  assert (En : norm' (o_dflt (objs s o)) false TNone = (false, TNeg)) by reflexivity.
  rewrite En in Out, Term. cbn [fst snd] in Out, Term.
  assert (Hterm : snd (do_call fuel s t (CAcq o m false TNone poll skip)) <> ROutOfFuel).
  { apply Term; [intros T E; discriminate|cbn; lia]. }
  destruct (do_call fuel s t (CAcq o m false TNone poll skip)) as [s' r] eqn:E. cbn [fst snd] in *.
  assert (Htry : tl_try (objs s o) t <> None) by (unfold tl_try; rewrite P2; discriminate).
  destruct Out as [Eo|[[Eo B]|Fin]]; [congruence| |].
  - exfalso. destruct B as [a Ht Hb|a d Ht Hb]; discriminate.
  - destruct Fin as [E1 Ht F Ho Hfd _ _|d E1 Ht F Ho Hfd _ Hhd _|E1 Ht F Ho Hbusy _ _|b E1 Ht F Ho Hfd _ R1 R2 _].
    + congruence.
    + exfalso. destruct Hhd as [A|A]; [congruence|]. apply K1 in A. destruct (f_pend _ _ _ _ _ _ F d eq_refl). lia.
    + congruence.
    + assert (b = false) by (destruct b; auto; exfalso; apply R1; auto). subst b r.
      exists s'. split; [reflexivity|]. split; auto.
      split; [rewrite Ho; apply restore_obj; auto; intros u Z; congruence|].
      split; [now rewrite Ht|]. split; [now rewrite Ht|].
      eapply Kern_frame; eauto. intros hh Ehh. pose proof (f_next _ _ _ _ _ _ F). apply K1 in Ehh. lia.
Qed.

(* release by the holder of an object acquired once: the path is free again, the object pristine *)
Lemma rel_ok s t o d fuel :
  t_pc (thr s t) = PIdle -> dead s (t_proc (thr s t)) = false -> Kern s ->
  held_by (objs s o) t d -> holder s = Some d -> 5 <= fuel ->
  exists s',
    do_call fuel s t (CRel o false) = (s', RNone) /\
    RFrame s t o s' /\ pristine (objs s' o) /\ o_proc (objs s' o) = o_proc (objs s o) /\
    holder s' = None /\ t_pc (thr s' t) = PIdle /\ t_proc (thr s' t) = t_proc (thr s t) /\ Kern s'.
Proof.
  intros Hpc Hal (K1 & K2 & K3) (H1 & H2 & H3 & H4) Hh Hfu.
  destruct (do_release_outcome s t o Hal false fuel Hpc) as (s' & E & F & P1 & P0 & P2 & P3 & Post); [lia|].
  unfold rel_post in Post. rewrite H1, H3 in Post. cbn in Post. destruct Post as (Po & Ph & Pf).
  exists s'. split; auto. split; auto.
  assert (Eo : objs s' o = mkobj (o_proc (objs s o)) (o_reent (objs s o)) (o_dflt (objs s o)) None 0 None 0).
  { rewrite Po. unfold Nat.max. cbn [rel_loop]. rewrite H2, H4. unfold tl_rel_raises. cbn. rewrite Nat.eqb_refl, andb_false_r.
    unfold tl_release. cbn. rewrite andb_false_r. reflexivity. }
  split; [rewrite Eo; repeat split|]. split; [rewrite Eo; reflexivity|].
  assert (Hn : holder s' = None) by (rewrite Ph, Hh; unfold unl_holder; now rewrite Nat.eqb_refl).
  split; auto. split; auto. split; auto.
  repeat split.
  - intros h Z. congruence.
  - intros d' q Z. rewrite Pf in Z. destruct (Nat.eqb d' d); [discriminate|]. rewrite (r_nextfd _ _ _ _ F). eauto.
  - rewrite (r_faults _ _ _ _ F). auto.
Qed.

(* ---------- the probe: a fresh non-blocking acquire, undone when it succeeded ---------------------- *)

Definition probe_gen (fuel : nat) (s : state) (t : tid) (o : oid) : state * bool :=
  let '(s1, r) := do_call fuel s t (CAcq o MPlain false TNone 51%N 0) in
  match r with
  | RTrue => (fst (do_call fuel s1 t (CRel o false)), true)
  | _ => (s1, false)
  end.

Definition Slot (s : state) (t : tid) (o : oid) : Prop := idle_live s t o /\ pristine (objs s o).

Definition others_same (s s' : state) (t : tid) (o : oid) : Prop :=
  (forall t', t' <> t -> thr s' t' = thr s t') /\ (forall o', o' <> o -> objs s' o' = objs s o') /\ dead s' = dead s.

Lemma others_trans s s1 s2 t o : others_same s s1 t o -> others_same s1 s2 t o -> others_same s s2 t o.
Proof.
  intros (A & B & C) (A' & B' & C'). repeat split; intros; try congruence.
  - rewrite A', A; auto.
  - rewrite B', B; auto.
Qed.

Lemma others_Frame s t o s' pend h : Frame s t o s' pend h -> others_same s s' t o.
Proof. intros F. repeat split; [apply (f_thr _ _ _ _ _ _ F)|apply (f_obj _ _ _ _ _ _ F)|apply (f_dead _ _ _ _ _ _ F)]. Qed.

Lemma others_RFrame s t o s' : RFrame s t o s' -> others_same s s' t o.
Proof. intros F. repeat split; [apply (r_thr _ _ _ _ F)|apply (r_obj _ _ _ _ F)|apply (r_dead _ _ _ _ F)]. Qed.

Lemma probe_free fuel s t o :
  Slot s t o -> Kern s -> holder s = None -> 16 <= fuel ->
  exists s', probe_gen fuel s t o = (s', true) /\ Slot s' t o /\ Kern s' /\ holder s' = None /\ others_same s s' t o.
Proof.
  intros [IL P] K Hh Hfu. unfold probe_gen.
  destruct (acq_ok s t o MPlain false TNone 51%N 0 fuel IL K P Hh) as (s1 & d & E1 & F1 & H1 & Pr1 & Pc1 & Tp1 & K1); auto.
  { intros T. unfold norm', normalise. cbn. discriminate. }
  rewrite E1.
  destruct IL as (I1 & I2 & I3).
  assert (Hal1 : dead s1 (t_proc (thr s1 t)) = false) by (rewrite Tp1, (f_dead _ _ _ _ _ _ F1); exact I2).
  destruct (rel_ok s1 t o d fuel Pc1 Hal1 K1 H1) as (s2 & E2 & F2 & P2 & Pr2 & Hh2 & Pc2 & Tp2 & K2); [apply (f_holder _ _ _ _ _ _ F1)|lia|].
  rewrite E2. cbn [fst]. exists s2. split; [reflexivity|]. split.
  - split; auto. repeat split; auto.
    + rewrite Tp2, Tp1, (r_dead _ _ _ _ F2), (f_dead _ _ _ _ _ _ F1). exact I2.
    + rewrite Pr2, Pr1, Tp2, Tp1. exact I3.
  - split; auto. split; auto. eapply others_trans; [eapply others_Frame; eauto|eapply others_RFrame; eauto].
Qed.

Lemma probe_busy fuel s t o :
  Slot s t o -> Kern s -> holder s <> None -> 16 <= fuel ->
  exists s', probe_gen fuel s t o = (s', false) /\ Slot s' t o /\ Kern s' /\ holder s' = holder s /\ others_same s s' t o.
Proof.
  intros [IL P] K Hh Hfu. unfold probe_gen.
  destruct (acq_refused s t o MPlain 51%N 0 fuel IL K P Hh Hfu) as (s1 & E1 & F1 & Ho1 & Pc1 & Tp1 & K1).
  rewrite E1. cbn [fail_result]. exists s1. split; [reflexivity|].
  destruct IL as (I1 & I2 & I3). split.
  - split; [|rewrite Ho1; exact P]. repeat split; auto.
    + rewrite Tp1, (f_dead _ _ _ _ _ _ F1). exact I2.
    + rewrite Ho1, Tp1. exact I3.
  - split; auto. split; [apply (f_holder _ _ _ _ _ _ F1)|eapply others_Frame; eauto].
Qed.

(* ---------- runs of one thread are event lists ------------------------------------------------------ *)
Import Case_C13.

Lemma run_k_ind (P : state -> Prop) t :
  (forall s, P s -> P (step s t)) -> (forall s n, P s -> P (set_now s n)) ->
  forall k s, P s -> P (fst (run_k k s t)).
Proof.
  intros Hs Hn. induction k as [|k IH]; intros s Ps; [exact Ps|]. cbn [run_k].
  set (s1 := if enabled s t then s else match deadline s t with Some w => set_now s (N.max (now s) w) | None => s end).
  assert (P1 : P s1) by (unfold s1; destruct (enabled s t); auto; destruct (deadline s t); auto).
  destruct (enabled s1 t); [|exact P1].
  specialize (IH (step s1 t) (Hs _ P1)). destruct (run_k k (step s1 t) t). exact IH.
Qed.

Lemma run_k_run t k : forall s, exists evs, fst (run_k k s t) = run s evs.
Proof.
  induction k as [|k IH]; intros s; [exists []; reflexivity|]. cbn [run_k].
  set (s1 := if enabled s t then s else match deadline s t with Some w => set_now s (N.max (now s) w) | None => s end).
  assert (E1 : exists evs, s1 = run s evs).
  { unfold s1. destruct (enabled s t); [exists []; reflexivity|]. destruct (deadline s t) as [w|]; [|exists []; reflexivity].
    exists [EAdv w]. reflexivity. }
  destruct E1 as [ev1 E1]. destruct (enabled s1 t); [|exists ev1; exact E1].
  destruct (IH (step s1 t)) as [ev2 E2]. destruct (run_k k (step s1 t) t) as [s' l]. cbn [fst] in *.
  exists (ev1 ++ EStep t :: ev2). unfold run in *. rewrite fold_left_app. cbn. rewrite <- E1. exact E2.
Qed.

Lemma run_alone_run t f : forall s, exists evs, fst (run_alone f s t) = run s evs.
Proof.
  induction f as [|f IH]; intros s.
  - exists []. unfold run_alone. destruct (call_done s t); reflexivity.
  - destruct (call_done s t) eqn:Ed; [exists []; rewrite run_alone_done; auto|].
    destruct (enabled s t) eqn:Ee.
    + rewrite run_alone_step by auto. destruct (IH (step s t)) as [evs E]. exists (EStep t :: evs). exact E.
    + destruct (deadline s t) as [w|] eqn:Ew.
      * rewrite (run_alone_wait _ _ _ w) by auto. destruct (IH (set_now s (N.max (now s) w))) as [evs E].
        exists (EAdv w :: evs). exact E.
      * rewrite run_alone_block by auto. exists []. reflexivity.
Qed.

Lemma pop_thr s t p t' :
  t_pc (thr (pop_prog s t p) t') = t_pc (thr s t') /\ t_cs (thr (pop_prog s t p) t') = t_cs (thr s t') /\
  t_proc (thr (pop_prog s t p) t') = t_proc (thr s t').
Proof. unfold pop_prog, set_thr; cbn. unfold upd. destruct (Nat.eqb t' t) eqn:E; [apply Nat.eqb_eq in E; subst|]; auto. Qed.

Ltac pop_rw s t p :=
  repeat match goal with |- context[thr (pop_prog s t p) ?u] =>
    let E1 := fresh in let E2 := fresh in let E3 := fresh in
    destruct (pop_thr s t p u) as (E1 & E2 & E3); rewrite ?E1, ?E2, ?E3; clear E1 E2 E3 end.

Lemma Inv_pop s t p : Inv s -> Inv (pop_prog s t p).
Proof.
  intros [[HL Hf Hw Htl Hc Hu] F]. split.
  - constructor; unfold lev in *; intros *; pop_rw s t p; change (objs (pop_prog s t p)) with (objs s); eauto.
  - pose proof F as F0. destruct F0. constructor; intros *; pop_rw s t p;
      change (objs (pop_prog s t p)) with (objs s); change (holder (pop_prog s t p)) with (holder s);
      change (fdown (pop_prog s t p)) with (fdown s); change (dead (pop_prog s t p)) with (dead s);
      change (nextfd (pop_prog s t p)) with (nextfd s); eauto.
    intros Hh. destruct (fd_holder_ref d Hh) as [?|(u & Hu1 & Hu2)]; [left; auto|right; exists u; pop_rw s t p; auto].
Qed.

(* ---------- the victim phase: thread 0 works on object 0 only ---------------------------------------- *)

Record VF (sb s : state) : Prop := mkVF {
  v_thr : forall t, t <> 0 -> thr s t = thr sb t;
  v_obj : forall o, o <> 0 -> objs s o = objs sb o;
  v_dead : dead s = dead sb;
  v_faults : faults s = faults sb;
  v_uses : forall o, o <> 0 -> ~ uses (thr s 0) o;
  v_oproc : o_proc (objs s 0) = o_proc (objs sb 0);
  v_tproc : t_proc (thr s 0) = t_proc (thr sb 0)
}.

Lemma VF_step sb s : VF sb s -> VF sb (step s 0).
Proof.
  intros [A B C D E F G]. destruct (step_Upd s 0) as (o0 & U). destruct (step_procs s 0) as [P1 P2].
  constructor.
  - intros t Ht. rewrite (u_thr _ _ _ _ U) by auto. auto.
  - intros o Ho. destruct (step_objs_other s 0 o (E o Ho)) as (X & _ & _). rewrite X. auto.
  - rewrite (u_dead _ _ _ _ U). auto.
  - destruct (step_objs_other s 0 1 (E 1 ltac:(discriminate))) as (_ & _ & X). rewrite X. auto.
  - intros o Ho. destruct (step_objs_other s 0 o (E o Ho)) as (_ & X & _). exact X.
  - rewrite P1. auto.
  - rewrite P2. auto.
Qed.

Lemma VF_run_k sb k s : VF sb s -> VF sb (fst (run_k k s 0)).
Proof.
  apply (run_k_ind (VF sb) 0); [apply VF_step|]. intros s1 n [A B C D E F G]. constructor; auto.
Qed.

Lemma run_app s a b : run s (a ++ b) = run (run s a) b.
Proof. unfold run. apply fold_left_app. Qed.

Lemma FUEL_ge : 16 <= FUEL.
Proof. unfold FUEL. lia. Qed.

Lemma Slot_others s s' t o t2 o2 : others_same s s' t o -> t2 <> t -> o2 <> o -> Slot s t2 o2 -> Slot s' t2 o2.
Proof.
  intros (A & B & C) Ht Ho [(I1 & I2 & I3) P]. unfold Slot, idle_live. rewrite (A _ Ht), (B _ Ho), C. auto.
Qed.

(* a live holder (thread 1 through object 1): the probe is refused; after its release the probe succeeds *)
Lemma tail_busy fuel s d :
  16 <= fuel -> Slot s 2 2 -> Kern s -> holder s = Some d -> held_by (objs s 1) 1 d ->
  t_pc (thr s 1) = PIdle -> dead s (t_proc (thr s 1)) = false ->
  exists s4 s6, probe_gen fuel s 2 2 = (s4, false) /\
                probe_gen fuel (fst (do_call fuel s4 1 (CRel 1 false))) 2 2 = (s6, true).
Proof.
  intros Hfu Sl K Hh Hb Hpc Hal.
  destruct (probe_busy fuel s 2 2 Sl K) as (s4 & E4 & Sl4 & K4 & Hh4 & O4); [congruence|auto|].
  pose proof O4 as (A & B & C).
  destruct (rel_ok s4 1 1 d fuel) as (s5 & E5 & F5 & P5 & Pr5 & Hh5 & Pc5 & Tp5 & K5); auto.
  { rewrite (A 1) by discriminate. auto. }
  { rewrite (A 1), C by discriminate. auto. }
  { rewrite (B 1) by discriminate. auto. }
  { congruence. }
  { lia. }
  assert (Sl5 : Slot s5 2 2) by (eapply Slot_others; [eapply others_RFrame; eauto| | |]; auto).
  destruct (probe_free fuel s5 2 2 Sl5 K5 Hh5 Hfu) as (s6 & E6 & _).
  exists s4, s6. split; auto. rewrite E5. exact E6.
Qed.

(* ---------- the initial state of a crash case -------------------------------------------------------- *)

Definition s_init reent dflt prog := init_crash reent dflt prog.

Lemma init_is_cfg reent dflt prog :
  init_crash reent dflt prog = init_cfg [(1, reent, dflt); (2, false, TNeg); (0, false, TNeg)] [(1, prog); (2, []); (0, [])] [].
Proof. reflexivity. Qed.

Lemma init_objs reent dflt prog o : o <> 0 ->
  pristine (objs (init_crash reent dflt prog) o) /\ o_dflt (objs (init_crash reent dflt prog) o) = TNeg.
Proof. intros Ho. destruct o as [|[|[|o]]]; [congruence| | |]; cbn; repeat split; destruct o; reflexivity. Qed.

Lemma init_thr reent dflt prog t : t <> 0 -> t_pc (thr (init_crash reent dflt prog) t) = PIdle.
Proof. intros Ht. destruct t as [|[|[|t]]]; [congruence| | |]; cbn; auto; destruct t; reflexivity. Qed.

Lemma init_facts reent dflt prog :
  let s := init_crash reent dflt prog in
  Inv s /\ Kern s /\ holder s = None /\ dead s = (fun _ => false) /\
  o_proc (objs s 0) = 1 /\ o_proc (objs s 1) = 2 /\ o_proc (objs s 2) = 0 /\
  thr s 0 = thr0 1 prog /\ thr s 1 = thr0 2 [] /\ thr s 2 = thr0 0 [].
Proof.
  cbv zeta. split; [rewrite init_is_cfg; apply Inv_init|]. split; [|cbn; repeat split; reflexivity].
  apply Kern_reach; [|reflexivity]. rewrite init_is_cfg. apply Inv_init.
Qed.

(* ---------- the state right after the victim's death -------------------------------------------------- *)

Record Base (sb : state) : Prop := mkBase {
  b_inv : exists sp evs, Inv sp /\ sb = run sp evs;
  b_idle : forall t, t <> 0 -> t_pc (thr sb t) = PIdle;
  b_tp0 : t_proc (thr sb 0) = 1; b_tp1 : t_proc (thr sb 1) = 2; b_tp2 : t_proc (thr sb 2) = 0;
  b_op0 : o_proc (objs sb 0) = 1; b_op1 : o_proc (objs sb 1) = 2; b_op2 : o_proc (objs sb 2) = 0;
  b_dead : dead sb = (fun _ => false);
  b_faults : faults sb = [];
  b_uses : forall o, o <> 0 -> ~ uses (thr sb 0) o;
  b_p2 : pristine (objs sb 2);
  b_fd : forall o, o <> 0 -> o <> 1 -> o_fd (objs sb o) = None
}.

Lemma VF_refl s : (forall o, o <> 0 -> ~ uses (thr s 0) o) -> VF s s.
Proof. intros H. constructor; auto. Qed.

Lemma after_crash sb k :
  Base sb -> viol (fst (run_k k sb 0)) = false ->
  let s2 := crash (fst (run_k k sb 0)) 1 in
  (forall t, t <> 0 -> thr s2 t = thr sb t) /\ (forall o, o <> 0 -> objs s2 o = objs sb o) /\
  Kern s2 /\ Slot s2 2 2 /\ dead s2 2 = false /\ dead s2 0 = false /\
  (o_fd (objs sb 1) = None -> holder s2 = None) /\
  (forall d, o_fd (objs sb 1) = Some d -> holder s2 = Some d).
Proof.
  intros B Hv. pose proof (VF_run_k sb k sb (VF_refl sb (b_uses _ B))) as V.
  destruct (b_inv _ B) as (sp & evs0 & Isp & Esb).
  destruct (run_k_run 0 k sb) as (evs & Esa).
  set (sa := fst (run_k k sb 0)) in *. cbv zeta.
  assert (Isa : Inv sa).
  { rewrite Esa, Esb, <- run_app. apply Inv_run; auto. rewrite run_app, <- Esb, <- Esa. exact Hv. }
  assert (F2 : FD (crash sa 1)) by (apply FD_crash; apply Isa).
  assert (Et : forall t, t <> 0 -> thr (crash sa 1) t = thr sb t) by (intros; cbn; apply (v_thr _ _ V); auto).
  assert (Eo : forall o, o <> 0 -> objs (crash sa 1) o = objs sb o) by (intros; cbn; apply (v_obj _ _ V); auto).
  assert (Ed : forall p, dead (crash sa 1) p = Nat.eqb p 1).
  { intros p. cbn. rewrite (v_dead _ _ V), (b_dead _ B). unfold upd. destruct (Nat.eqb p 1); reflexivity. }
  assert (K2 : Kern (crash sa 1)).
  { apply Kern_reach; auto. cbn. rewrite (v_faults _ _ V). apply (b_faults _ B). }
  split; auto. split; auto. split; auto.
  split.
  { split.
    - unfold idle_live. rewrite Et, Eo, Ed by discriminate. rewrite (b_idle _ B), (b_tp2 _ B), (b_op2 _ B) by discriminate. auto.
    - rewrite Eo by discriminate. apply (b_p2 _ B). }
  split; [rewrite Ed; reflexivity|]. split; [rewrite Ed; reflexivity|].
  split.
  - intros Hn. apply free_when_unreferenced; auto.
    + intros o Hl. destruct (Nat.eq_dec o 0) as [->|Ho].
      * exfalso. cbn [crash objs] in Hl. rewrite Ed, (v_oproc _ _ V), (b_op0 _ B) in Hl. discriminate.
      * rewrite Eo by auto. destruct (Nat.eq_dec o 1) as [->|Ho1]; auto. apply (b_fd _ B); auto.
    + intros t Hl. destruct (Nat.eq_dec t 0) as [->|Ht].
      * exfalso. cbn [crash thr] in Hl. rewrite Ed, (v_tproc _ _ V), (b_tp0 _ B) in Hl. discriminate.
      * rewrite Et, (b_idle _ B) by auto. reflexivity.
  - intros d Hd. destruct (fd_hold _ F2 1 d) as [A _]; auto.
    + rewrite Eo by discriminate. auto.
    + rewrite Eo, Ed, (b_op1 _ B) by discriminate. reflexivity.
Qed.

Lemma Base_init reent dflt prog :
  (forall c, In c prog -> call_obj c = 0) -> Base (init_crash reent dflt prog).
Proof.
  intros Hp. destruct (init_facts reent dflt prog) as (I & K & Hh & Hd & O0 & O1 & O2 & T0 & T1 & T2).
  constructor.
  - exists (init_crash reent dflt prog), []. split; auto.
  - apply init_thr.
  - rewrite T0; reflexivity.
  - rewrite T1; reflexivity.
  - rewrite T2; reflexivity.
  - exact O0.
  - exact O1.
  - exact O2.
  - exact Hd.
  - reflexivity.
  - intros o Ho U. rewrite T0 in U. destruct U as [A|(c & A & A')]; cbn in *; [discriminate|]. rewrite (Hp _ A) in A'. congruence.
  - apply init_objs. discriminate.
  - intros o Ho _. apply init_objs; auto.
Qed.

Lemma survivor_holds fuel reent dflt prog : 16 <= fuel ->
  (forall c, In c prog -> call_obj c = 0) ->
  exists s' d, do_call fuel (init_crash reent dflt prog) 1 (acq_blk 1) = (s', RTrue) /\
    Base s' /\ held_by (objs s' 1) 1 d.
Proof.
  intros Hfu Hp. pose proof (Base_init reent dflt prog Hp) as B.
  destruct (init_facts reent dflt prog) as (I & K & Hh & Hd & O0 & O1 & O2 & T0 & T1 & T2).
  set (s0 := init_crash reent dflt prog) in *.
  destruct (init_objs reent dflt prog 1) as [P1 D1]; [discriminate|]. fold s0 in P1, D1.
  destruct (acq_ok s0 1 1 MPlain true TNone 51%N 0 fuel) as (s' & d & E & F & Hb & Pr & Pc & Tp & K'); auto.
  { unfold idle_live. rewrite T1, O1, Hd. cbn. auto. }
  { rewrite D1. intros T. cbn. discriminate. }
  exists s', d. split; [exact E|]. split; [|exact Hb].
  assert (Et : forall t, t <> 1 -> thr s' t = thr s0 t) by apply (f_thr _ _ _ _ _ _ F).
  assert (Eo : forall o, o <> 1 -> objs s' o = objs s0 o) by apply (f_obj _ _ _ _ _ _ F).
  constructor.
  - destruct (run_alone_run 1 fuel (pop_prog s0 1 [acq_blk 1])) as (evs & Er).
    exists (pop_prog s0 1 [acq_blk 1]), evs. split; [apply Inv_pop; auto|]. rewrite <- Er.
    unfold do_call in E. unfold acq_blk. rewrite E. reflexivity.
  - intros t Ht. destruct (Nat.eq_dec t 1) as [->|H1]; auto. rewrite Et by auto. apply (b_idle _ B); auto.
  - rewrite Et by discriminate. apply (b_tp0 _ B).
  - rewrite Tp. apply (b_tp1 _ B).
  - rewrite Et by discriminate. apply (b_tp2 _ B).
  - rewrite Eo by discriminate. apply (b_op0 _ B).
  - rewrite Pr. apply (b_op1 _ B).
  - rewrite Eo by discriminate. apply (b_op2 _ B).
  - rewrite (f_dead _ _ _ _ _ _ F). apply (b_dead _ B).
  - rewrite (f_faults _ _ _ _ _ _ F). apply (b_faults _ B).
  - rewrite Et by discriminate. apply (b_uses _ B).
  - rewrite Eo by discriminate. apply (b_p2 _ B).
  - intros o Ho Ho1. rewrite Eo by auto. apply (b_fd _ B); auto.
Qed.

(* ---------- the model's prediction of a crash case (fuel as a parameter) ----------------------------- *)

Definition victim_end (fuel : nat) (reent : bool) (dflt : tmo) (prog : list call) (scen k : nat) : state :=
  let s0 := init_crash reent dflt prog in
  let s0 := if Nat.eqb scen 1 then fst (do_call fuel s0 1 (acq_blk 1)) else s0 in
  fst (run_k k s0 0).

Definition mt_gen (fuel : nat) (reent : bool) (dflt : tmo) (prog : list call) (scen k : nat) : bool * bool * bool :=
  let s2 := crash (victim_end fuel reent dflt prog scen k) 1 in
  let '(s3, wh) :=
      if Nat.eqb scen 2 then let '(sw, r) := do_call fuel s2 1 (acq_blk 1) in (sw, result_eqb r RTrue)
      else (s2, false) in
  let '(s4, p1) := probe_gen fuel s3 2 2 in
  let s5 := if Nat.eqb scen 0 then s4 else fst (do_call fuel s4 1 (CRel 1 false)) in
  let '(_, p2) := probe_gen fuel s5 2 2 in
  (wh, p1, p2).

Definition ok_obs (scen : nat) (wh p1 p2 : bool) : bool :=
  match scen with 0 => p1 && p2 | 1 => negb p1 && p2 | _ => wh && negb p1 && p2 end.

Lemma mt_gen_ok fuel reent dflt prog scen k :
  16 <= fuel -> scen <= 2 -> (forall c, In c prog -> call_obj c = 0) ->
  viol (victim_end fuel reent dflt prog scen k) = false ->
  let '(wh, p1, p2) := mt_gen fuel reent dflt prog scen k in ok_obs scen wh p1 p2 = true.
Proof.
  intros Hfu Hs Hp Hv. unfold mt_gen. unfold victim_end in *.
  destruct scen as [|[|[|n]]]; [| | |lia]; cbn [Nat.eqb] in *; cbv iota in *.
  - (* alone *)
    destruct (after_crash _ k (Base_init reent dflt prog Hp) Hv) as (Et & Eo & K2 & Sl & D2 & D0 & Hn & _).
    set (s2 := crash _ 1) in *.
    assert (Hh2 : holder s2 = None) by (apply Hn; apply init_objs; discriminate).
    destruct (probe_free fuel s2 2 2 Sl K2 Hh2 Hfu) as (s4 & E4 & Sl4 & K4 & Hh4 & _).
    rewrite E4. destruct (probe_free fuel s4 2 2 Sl4 K4 Hh4 Hfu) as (s6 & E6 & _). rewrite E6. reflexivity.
  - (* a survivor holds *)
    destruct (survivor_holds fuel reent dflt prog Hfu Hp) as (sb & d & E & B & Hb).
    rewrite E in *. cbn [fst] in *.
    destruct (after_crash _ k B Hv) as (Et & Eo & K2 & Sl & D2 & D0 & _ & Hh).
    set (s2 := crash _ 1) in *.
    assert (A1 : holder s2 = Some d) by (apply Hh; apply Hb).
    assert (A2 : held_by (objs s2 1) 1 d) by (rewrite Eo by discriminate; exact Hb).
    assert (A3 : t_pc (thr s2 1) = PIdle) by (rewrite Et by discriminate; apply (b_idle _ B); discriminate).
    assert (A4 : dead s2 (t_proc (thr s2 1)) = false) by (rewrite Et, (b_tp1 _ B) by discriminate; exact D2).
    destruct (tail_busy fuel s2 d Hfu Sl K2 A1 A2 A3 A4) as (s4 & s6 & E4 & E6).
    rewrite E4, E6. reflexivity.
  - (* a survivor waits *)
    pose proof (Base_init reent dflt prog Hp) as B.
    destruct (after_crash _ k B Hv) as (Et & Eo & K2 & Sl & D2 & D0 & Hn & _).
    set (s2 := crash _ 1) in *.
    destruct (init_objs reent dflt prog 1) as [P1 D1]; [discriminate|].
    assert (A1 : idle_live s2 1 1).
    { unfold idle_live. rewrite Et, Eo by discriminate. rewrite (b_idle _ B), (b_tp1 _ B), (b_op1 _ B) by discriminate. auto. }
    assert (A2 : pristine (objs s2 1)) by (rewrite Eo by discriminate; exact P1).
    assert (A3 : holder s2 = None) by (apply Hn; apply P1).
    assert (A4 : forall T, snd (norm' (o_dflt (objs s2 1)) true TNone) <> TVal T).
    { rewrite Eo, D1 by discriminate. intros T. cbn. discriminate. }
    destruct (acq_ok s2 1 1 MPlain true TNone 51%N 0 fuel A1 K2 A2 A3 A4 Hfu) as (s3 & d & E3 & F3 & Hb3 & Pr3 & Pc3 & Tp3 & K3).
    unfold acq_blk. rewrite E3.
    assert (B1 : Slot s3 2 2).
    { eapply Slot_others; [eapply others_Frame; eauto| | |exact Sl]; discriminate. }
    assert (B2 : holder s3 = Some d) by apply (f_holder _ _ _ _ _ _ F3).
    assert (B3 : dead s3 (t_proc (thr s3 1)) = false).
    { rewrite Tp3, (f_dead _ _ _ _ _ _ F3), Et, (b_tp1 _ B) by discriminate. exact D2. }
    destruct (tail_busy fuel s3 d Hfu B1 K3 B2 Hb3 Pc3 B3) as (s4 & s6 & E4 & E6).
    cbn [result_eqb result_code Nat.eqb].
    rewrite E4, E6. reflexivity.
Qed.

(* ---------- the link to Case_C13.model_trace ---------------------------------------------------------- *)

Lemma probe_eq s : probe s = probe_gen FUEL s 2 2.
Proof. unfold probe, probe_gen, acq_nb. reflexivity. Qed.

Lemma model_trace_gen reent dflt prog scen vops vres a b c ops rs wh p1 p2 :
  model_trace (CCrash reent dflt prog scen false vops vres true a b c) = (ops, rs, wh, p1, p2) ->
  mt_gen FUEL reent dflt prog scen (length vops) = (wh, p1, p2).
Proof.
  unfold model_trace, mt_gen, victim_end.
  set (s0' := if Nat.eqb scen 1 then _ else _).
  destruct (run_k (length vops) s0' 0) as [sa la]. cbv beta iota zeta. cbn [fst].
  destruct (Nat.eqb scen 2).
  - destruct (do_call FUEL (crash sa 1) 1 (acq_blk 1)) as [sw r]. cbv beta iota zeta. rewrite probe_eq.
    destruct (probe_gen FUEL sw 2 2) as [s4 q1]. destruct (Nat.eqb scen 0); rewrite probe_eq;
      match goal with |- context[probe_gen FUEL ?x 2 2] => destruct (probe_gen FUEL x 2 2) as [s6 q2] end;
      intros [= _ _ <- <- <-]; reflexivity.
  - cbv beta iota zeta. rewrite probe_eq.
    destruct (probe_gen FUEL (crash sa 1) 2 2) as [s4 q1]. destruct (Nat.eqb scen 0); rewrite probe_eq;
      match goal with |- context[probe_gen FUEL ?x 2 2] => destruct (probe_gen FUEL x 2 2) as [s6 q2] end;
      intros [= _ _ <- <- <-]; reflexivity.
Qed.

Theorem monitor_complete_C13_lemma :
  forall reent dflt prog scen vops vres a b c ops rs wh p1 p2,
    scen <= 2 -> (forall cl, In cl prog -> call_obj cl = 0) ->
    viol (victim_end FUEL reent dflt prog scen (length vops)) = false ->
    model_trace (CCrash reent dflt prog scen false vops vres true a b c) = (ops, rs, wh, p1, p2) ->
    ok (CCrash reent dflt prog scen false vops vres true wh p1 p2) = true.
Proof.
  intros reent dflt prog scen vops vres a b c ops rs wh p1 p2 Hs Hp Hv Hm.
  pose proof (mt_gen_ok FUEL reent dflt prog scen (length vops) FUEL_ge Hs Hp Hv) as H.
  rewrite (model_trace_gen _ _ _ _ _ _ _ _ _ _ _ _ _ _ Hm) in H. exact H.
Qed.

(* ---------- the contract hypothesis in static form ---------------------------------------------------- *)

Lemma init_cfg_ok reent dflt prog :
  (forall c, In c prog -> call_obj c = 0) -> prog_okb (S (length prog)) [] prog = true ->
  cfg_ok [(1, reent, dflt); (2, false, TNeg); (0, false, TNeg)] [(1, prog); (2, []); (0, [])] = true.
Proof.
  intros Hp Hk. unfold cfg_ok. cbn [forallb snd fst length]. rewrite Hk. cbn [prog_okb andb].
  replace (forallb _ prog) with true; [reflexivity|]. symmetry. apply forallb_forall. intros c Hc. rewrite (Hp c Hc). reflexivity.
Qed.

Lemma W_pop_acq s t o m blk tm poll :
  W s -> t_pc (thr s t) = PIdle -> t_cs (thr s t) = [] -> o_proc (objs s o) = t_proc (thr s t) ->
  W (pop_prog s t [CAcq o m blk tm poll 0]).
Proof.
  intros [Hw Hp] Hpc Hcs Hpr. split.
  - intros t'. destruct (Nat.eq_dec t' t) as [->|Hn].
    + unfold wf_thr, pop_prog. cbn. rewrite upd_same. cbn. rewrite Hpc, Hcs. constructor; constructor.
    + unfold pop_prog. cbn. rewrite upd_other by auto. apply Hw.
  - intros t' c. destruct (Nat.eq_dec t' t) as [->|Hn].
    + unfold pop_prog. cbn. rewrite upd_same. cbn. intros [<-|[]]. exact Hpr.
    + unfold pop_prog. cbn. rewrite upd_other by auto. apply Hp.
Qed.

Lemma victim_viol fuel reent dflt prog scen k :
  (forall c, In c prog -> call_obj c = 0) -> prog_okb (S (length prog)) [] prog = true ->
  viol (victim_end fuel reent dflt prog scen k) = false.
Proof.
  intros Hp Hk. unfold victim_end. pose proof (init_cfg_ok reent dflt prog Hp Hk) as Hc.
  rewrite init_is_cfg. set (s0 := init_cfg _ _ []).
  assert (I0 : Inv s0) by apply Inv_init. assert (W0 : W s0) by (apply W_init; exact Hc).
  destruct (Nat.eqb scen 1).
  - unfold do_call. set (sp := pop_prog s0 1 [acq_blk 1]).
    destruct (run_alone_run 1 fuel sp) as (e1 & E1). rewrite E1.
    destruct (run_k_run 0 k (run sp e1)) as (e2 & E2). rewrite E2, <- run_app.
    apply W_run; [apply Inv_pop; auto| |reflexivity].
    apply W_pop_acq; auto.
  - destruct (run_k_run 0 k s0) as (e2 & E2). rewrite E2. apply W_run; auto.
Qed.

Theorem monitor_complete_static_C13_lemma :
  forall reent dflt prog scen vops vres a b c ops rs wh p1 p2,
    scen <= 2 -> (forall cl, In cl prog -> call_obj cl = 0) -> prog_okb (S (length prog)) [] prog = true ->
    model_trace (CCrash reent dflt prog scen false vops vres true a b c) = (ops, rs, wh, p1, p2) ->
    ok (CCrash reent dflt prog scen false vops vres true wh p1 p2) = true.
Proof.
  intros reent dflt prog scen vops vres a b c ops rs wh p1 p2 Hs Hp Hk Hm.
  eapply monitor_complete_C13_lemma; eauto. apply victim_viol; auto.
Qed.

(* ---------- what one step can do to the kernel holder ------------------------------------------------- *)

Definition HStep (s s' : state) (t : tid) : Prop :=
  holder s' = holder s \/ holder s' = None \/ exists a d', t_pc (thr s t) = PFlock a d' /\ holder s' = Some d'.

Lemma unl_cases h d : unl_holder h d = h \/ unl_holder h d = None.
Proof. unfold unl_holder. destruct h as [x|]; auto. destruct (Nat.eqb x d); auto. Qed.

Arguments unl_holder : simpl never.
Ltac unl := match goal with |- context[unl_holder ?h ?x] => let E := fresh "E" in destruct (unl_cases h x) as [E|E]; rewrite E; auto end.
Ltac hs := cbn; rewrite ?upd_same; cbn;
  repeat progress (rewrite ?(ta_holder _ _ _ _ (Tail_enter_tlrel _ _ _ _)), ?(ta_holder _ _ _ _ (Tail_enter_cleanup _ _ _ _)),
          ?(ta_holder _ _ _ _ (Tail_after_attempt _ _ _)), ?holder_k_close, ?holder_k_unlock; cbn).

Lemma step_holder s t : HStep s (step s t) t.
Proof.
  unfold HStep, step. destruct (negb (enabled s t)); [left; reflexivity|].
  destruct (t_pc (thr s t)) as [|a dl|a|a d|a d i|a w|a oserr|o d k|o d k|o k] eqn:Hpc.
  - destruct (t_prog (thr s t)) as [|c rest]; [left; reflexivity|].
    destruct c as [o m blk tm poll skip|o force]; unfold begin_call; hs.
    + destruct (normalise _ _ _). destruct (Nat.eqb _ _); left; reflexivity.
    + destruct (Nat.eqb (o_proc (objs s o)) _); cbn; (destruct (o_fd (objs s o)); [|left; reflexivity]);
        destruct (own_is _ _); cbn; destruct (_ || _); hs; left; reflexivity.
  - hs. destruct (tl_try _ _) as [ob'|]; [destruct (o_fd ob')|]; left; reflexivity.
  - hs. destruct (faulty s KOpen); [destruct (intr s KOpen)|]; hs; left; reflexivity.
  - hs. destruct (faulty s KLock); [left; reflexivity|]. destruct (holder_free_for _ d); hs; [|left; reflexivity].
    right. right. exists a, d. split; reflexivity.
  - hs. destruct (faulty s KClose || i); hs; destruct (unl_cases (holder s) d) as [E|E]; rewrite E; auto.
  - left. reflexivity.
  - left. reflexivity.
  - hs. destruct (faulty s KUnlock); hs; first [unl|left; reflexivity].
  - hs. first [unl|left; reflexivity].
  - hs. left. reflexivity.
Qed.

(* ---------- the victim's end: killed, or finished and gone ------------------------------------------- *)

Definition vend (died : bool) (s : state) : state := if died then crash s 1 else s.
(* a victim that was not killed had finished: idle, its object released *)
Definition vquiet (died : bool) (s : state) : Prop :=
  died = false -> t_pc (thr s 0) = PIdle /\ o_fd (objs s 0) = None.

Lemma vend_thr died s : thr (vend died s) = thr s.
Proof. destruct died; reflexivity. Qed.
Lemma vend_objs died s : objs (vend died s) = objs s.
Proof. destruct died; reflexivity. Qed.
Lemma vend_faults died s : faults (vend died s) = faults s.
Proof. destruct died; reflexivity. Qed.
Lemma vend_FD died s : FD s -> FD (vend died s).
Proof. destruct died; [apply FD_crash|auto]. Qed.
Lemma vend_dead died s p : dead s = (fun _ => false) -> dead (vend died s) p = died && Nat.eqb p 1.
Proof. intros H. destruct died; cbn; rewrite H; [unfold upd; destruct (Nat.eqb p 1)|]; reflexivity. Qed.
Lemma vend_holder died s h : holder (vend died s) = Some h -> holder s = Some h.
Proof. destruct died; cbn; auto. destruct (holder s) as [x|]; [destruct (owned_by s 1 x)|]; congruence. Qed.

(* whoever still references the kernel holder afterwards is not the victim *)
Lemma holder_refs died s h :
  FD s -> dead s = (fun _ => false) -> o_proc (objs s 0) = 1 -> t_proc (thr s 0) = 1 -> vquiet died s ->
  holder (vend died s) = Some h ->
  (exists o, o <> 0 /\ o_fd (objs s o) = Some h) \/ (exists t, t <> 0 /\ pc_fd (t_pc (thr s t)) = Some h).
Proof.
  intros F Hd Ho Ht Hq Hh. pose proof (vend_FD died s F) as F2.
  destruct (fd_holder_ref _ F2 h Hh) as [(o & A & B)|(t & A & B)].
  - left. exists o. rewrite vend_objs in *. split; auto. intros ->. rewrite vend_dead, Ho in B by auto.
    destruct died; [discriminate|]. destruct (Hq eq_refl) as [_ Z]. congruence.
  - right. exists t. rewrite vend_thr in *. split; auto. intros ->. rewrite vend_dead, Ht in B by auto.
    destruct died; [discriminate|]. destruct (Hq eq_refl) as [Z _]. rewrite Z in A. discriminate.
Qed.

(* ---------- Case_C13's [go] as a top-level function ---------------------------------------------------- *)

Fixpoint go_f (k : nat) (s : state) : state * list nat * nat :=
  match t_res (thr s 0) with
  | RTrue :: _ => (s, [], k)
  | _ =>
      match k with
      | 0 => (s, [], 0)
      | S k' => let '(s', l) := run_k 1 s 0 in
                match l with
                | [] => (s', [], 0)
                | _ => let '(s2, l2, rest) := go_f k' s' in (s2, l ++ l2, rest)
                end
      end
  end.

Lemma go_ind (P : state -> Prop) :
  (forall s, P s -> P (step s 0)) -> (forall s n, P s -> P (set_now s n)) ->
  forall k s, P s -> P (fst (fst (go_f k s))).
Proof.
  intros Hs Hn. induction k as [|k IH]; intros s Ps.
  - cbn [go_f]. destruct (t_res (thr s 0)) as [|[] ?]; exact Ps.
  - cbn [go_f].
    assert (G : P (fst (fst (let '(s', l) := run_k 1 s 0 in
                match l with [] => (s', [], 0) | _ => let '(s2, l2, rest) := go_f k s' in (s2, l ++ l2, rest) end)))).
    { pose proof (run_k_ind P 0 Hs Hn 1 s Ps) as P1. destruct (run_k 1 s 0) as [s' l]. cbn [fst] in P1.
      destruct l; [exact P1|]. specialize (IH s' P1). destruct (go_f k s') as [[s2 l2] rest]. exact IH. }
    destruct (t_res (thr s 0)) as [|[] ?]; try exact G; exact Ps.
Qed.

Lemma go_run k : forall s, exists evs, fst (fst (go_f k s)) = run s evs.
Proof.
  induction k as [|k IH]; intros s.
  - cbn [go_f]. exists []. destruct (t_res (thr s 0)) as [|[] ?]; reflexivity.
  - cbn [go_f].
    assert (G : exists evs, fst (fst (let '(s', l) := run_k 1 s 0 in
                match l with [] => (s', [], 0) | _ => let '(s2, l2, rest) := go_f k s' in (s2, l ++ l2, rest) end)) = run s evs).
    { destruct (run_k_run 0 1 s) as (e1 & E1). destruct (run_k 1 s 0) as [s' l]. cbn [fst] in E1.
      destruct l; [exists e1; exact E1|]. destruct (IH s') as (e2 & E2). destruct (go_f k s') as [[s2 l2] rest].
      cbn [fst] in *. exists (e1 ++ e2). rewrite run_app, <- E1. exact E2. }
    destruct (t_res (thr s 0)) as [|[] ?]; try exact G; exists []; reflexivity.
Qed.

Lemma VF_trans sb s1 s2 : VF sb s1 -> VF s1 s2 -> VF sb s2.
Proof.
  intros [A B C D E F G] [A' B' C' D' E' F' G']. constructor; intros; try congruence.
  - rewrite A', A; auto.
  - rewrite B', B; auto.
  - auto.
Qed.

Lemma VF_go sb k s : VF sb s -> VF sb (fst (fst (go_f k s))).
Proof.
  apply (go_ind (VF sb)); [apply VF_step|]. intros s1 n [A B C D E F G]. constructor; auto.
Qed.

Lemma viol_back s evs : viol (run s evs) = false -> viol s = false.
Proof. intros H. destruct (viol s) eqn:E; auto. rewrite (viol_run_mono evs s E) in H. discriminate. Qed.

(* a state of the victim phase is again a base state *)
Lemma Base_VF sb s : Base sb -> VF sb s -> Inv s -> Base s.
Proof.
  intros B V I. constructor.
  - exists s, []. split; auto.
  - intros t Ht. rewrite (v_thr _ _ V) by auto. apply (b_idle _ B); auto.
  - rewrite (v_tproc _ _ V). apply (b_tp0 _ B).
  - rewrite (v_thr _ _ V) by discriminate. apply (b_tp1 _ B).
  - rewrite (v_thr _ _ V) by discriminate. apply (b_tp2 _ B).
  - rewrite (v_oproc _ _ V). apply (b_op0 _ B).
  - rewrite (v_obj _ _ V) by discriminate. apply (b_op1 _ B).
  - rewrite (v_obj _ _ V) by discriminate. apply (b_op2 _ B).
  - rewrite (v_dead _ _ V). apply (b_dead _ B).
  - rewrite (v_faults _ _ V). apply (b_faults _ B).
  - apply (v_uses _ _ V).
  - rewrite (v_obj _ _ V) by discriminate. apply (b_p2 _ B).
  - intros o Ho Ho1. rewrite (v_obj _ _ V) by auto. apply (b_fd _ B); auto.
Qed.

(* ---------- the waiter starts while the victim is still running --------------------------------------- *)

Lemma Base_Kern s : Base s -> Inv s -> Kern s.
Proof. intros B [_ F]. apply Kern_reach; auto. apply (b_faults _ B). Qed.

Lemma Base_live1 s : Base s -> idle_live s 1 1.
Proof.
  intros B. unfold idle_live. rewrite (b_idle _ B), (b_tp1 _ B), (b_op1 _ B), (b_dead _ B) by discriminate. auto.
Qed.

(* the path is free: the waiter gets the lock at once and is a holding survivor from then on *)
Lemma survivor_acq fuel sa :
  16 <= fuel -> Base sa -> Inv sa -> pristine (objs sa 1) -> o_dflt (objs sa 1) = TNeg -> holder sa = None ->
  exists s' d, do_call fuel sa 1 (acq_blk 1) = (s', RTrue) /\ Base s' /\ held_by (objs s' 1) 1 d /\
               t_prog (thr s' 1) = [] /\ last_result s' 1 = RTrue.
Proof.
  intros Hfu B I P1 D1 Hh. pose proof (Base_Kern _ B I) as K. pose proof (Base_live1 _ B) as IL.
  assert (Hunt : forall T, snd (norm' (o_dflt (objs sa 1)) true TNone) <> TVal T) by (rewrite D1; intros T; cbn; discriminate).
  destruct (acq_ok sa 1 1 MPlain true TNone 51%N 0 fuel IL K P1 Hh Hunt Hfu) as (s' & d & E & F & Hb & Pr & Pc & Tp & K').
  pose proof K as (K1 & K2 & K3). destruct IL as (Hpc & Hal & Hpr).
  pose proof (do_acquire_outcome sa 1 1 MPlain true TNone 51%N 0 fuel Hpc Hal Hpr K1 K2) as Out.
  cbv zeta in Out. rewrite E in Out. cbn [fst snd] in Out.
  assert (Hthr : t_prog (thr s' 1) = [] /\ last_result s' 1 = RTrue).
  { destruct Out as [Eo|[[Eo _]|Fin]]; try discriminate.
    destruct Fin as [_ Ht _ _ _ _ _|d' _ Ht _ _ _ _ _ _|E1 _ _ _ _ _ _|b E1 _ _ _ _ _ _ _ _].
    - unfold last_result. rewrite Ht. cbn. auto.
    - unfold last_result. rewrite Ht. cbn. auto.
    - discriminate.
    - destruct b; discriminate. }
  exists s', d. split; [exact E|].
  assert (Et : forall t, t <> 1 -> thr s' t = thr sa t) by apply (f_thr _ _ _ _ _ _ F).
  assert (Eo : forall o, o <> 1 -> objs s' o = objs sa o) by apply (f_obj _ _ _ _ _ _ F).
  split; [|split; [exact Hb|exact Hthr]].
  constructor.
  - destruct (run_alone_run 1 fuel (pop_prog sa 1 [acq_blk 1])) as (evs & Er).
    exists (pop_prog sa 1 [acq_blk 1]), evs. split; [apply Inv_pop; auto|]. rewrite <- Er.
    unfold do_call in E. unfold acq_blk. rewrite E. reflexivity.
  - intros t Ht. destruct (Nat.eq_dec t 1) as [->|H1]; auto. rewrite Et by auto. apply (b_idle _ B); auto.
  - rewrite Et by discriminate. apply (b_tp0 _ B).
  - rewrite Tp. apply (b_tp1 _ B).
  - rewrite Et by discriminate. apply (b_tp2 _ B).
  - rewrite Eo by discriminate. apply (b_op0 _ B).
  - rewrite Pr. apply (b_op1 _ B).
  - rewrite Eo by discriminate. apply (b_op2 _ B).
  - rewrite (f_dead _ _ _ _ _ _ F). apply (b_dead _ B).
  - rewrite (f_faults _ _ _ _ _ _ F). apply (b_faults _ B).
  - rewrite Et by discriminate. apply (b_uses _ B).
  - rewrite Eo by discriminate. apply (b_p2 _ B).
  - intros o Ho Ho1. rewrite Eo by auto. apply (b_fd _ B); auto.
Qed.

(* somebody holds the path: the waiter parks in its blocking flock *)
Record WBase (sb : state) (a : aloc) (d : fdid) : Prop := mkWBase {
  w_inv : exists sp evs, Inv sp /\ sb = run sp evs;
  w_idle : forall t, t <> 0 -> t <> 1 -> t_pc (thr sb t) = PIdle;
  w_pc1 : t_pc (thr sb 1) = PFlock a d;
  w_prog1 : t_prog (thr sb 1) = [];
  w_a : a_o a = 1 /\ a_blk a = true /\ a_tm a = TNeg;
  w_o1 : o_fd (objs sb 1) = None /\ o_own (objs sb 1) = Some 1 /\ o_cnt (objs sb 1) = 1 /\ o_dep (objs sb 1) = 1;
  w_tp0 : t_proc (thr sb 0) = 1; w_tp1 : t_proc (thr sb 1) = 2; w_tp2 : t_proc (thr sb 2) = 0;
  w_op0 : o_proc (objs sb 0) = 1; w_op1 : o_proc (objs sb 1) = 2; w_op2 : o_proc (objs sb 2) = 0;
  w_dead : dead sb = (fun _ => false);
  w_faults : faults sb = [];
  w_uses : forall o, o <> 0 -> ~ uses (thr sb 0) o;
  w_p2 : pristine (objs sb 2);
  w_fd : forall o, o <> 0 -> o <> 1 -> o_fd (objs sb o) = None;
  w_nh : holder sb <> Some d
}.

Lemma waiter_blocks fuel sa h :
  16 <= fuel -> Base sa -> Inv sa -> pristine (objs sa 1) -> o_dflt (objs sa 1) = TNeg -> holder sa = Some h ->
  exists s' a d, do_call fuel sa 1 (acq_blk 1) = (s', RWouldBlock) /\ WBase s' a d.
Proof.
  intros Hfu B I P1 D1 Hh. pose proof (Base_Kern _ B I) as K. pose proof (Base_live1 _ B) as (Hpc & Hal & Hpr).
  pose proof K as (K1 & K2 & K3). pose proof P1 as (Q1 & Q2 & Q3 & Q4).
  pose proof (do_acquire_outcome sa 1 1 MPlain true TNone 51%N 0 fuel Hpc Hal Hpr K1 K2) as Out.
  pose proof (do_acquire_terminates sa 1 1 MPlain true TNone 51%N 0 fuel Hpc Hal Hpr K1 K2 K3) as Term.
  cbv zeta in Out, Term. rewrite normalise_norm' in Out, Term. rewrite D1 in Out, Term.
  change (norm' TNeg true TNone) with (true, TNeg) in Out, Term. cbn [fst snd] in Out, Term.
  assert (Hterm : snd (do_call fuel sa 1 (CAcq 1 MPlain true TNone 51%N 0)) <> ROutOfFuel).
  { apply Term; [intros T Z; discriminate|cbn; lia]. }
  destruct (do_call fuel sa 1 (CAcq 1 MPlain true TNone 51%N 0)) as [s' r] eqn:E. cbn [fst snd] in *.
  assert (Htry : tl_try (objs sa 1) 1 <> None) by (unfold tl_try; rewrite Q2; discriminate).
  destruct Out as [Eo|[[Eo Bl]|Fin]]; [congruence| |].
  - destruct Bl as [a Ht Hb Htm Hbusy _|a d Ht Hb Htm Hfd Htr Hhold Hofd Ha F Ho]; [congruence|].
    exists s', a, d. subst r. split; [unfold acq_blk; exact E|].
    assert (Et : forall t, t <> 1 -> thr s' t = thr sa t) by apply (f_thr _ _ _ _ _ _ F).
    assert (Eo1 : forall o, o <> 1 -> objs s' o = objs sa o) by apply (f_obj _ _ _ _ _ _ F).
    destruct Ha as (A1 & A2 & A3 & A4 & A5 & A6).
    constructor.
    + destruct (run_alone_run 1 fuel (pop_prog sa 1 [acq_blk 1])) as (evs & Er).
      exists (pop_prog sa 1 [acq_blk 1]), evs. split; [apply Inv_pop; auto|]. rewrite <- Er.
      unfold do_call in E. unfold acq_blk. rewrite E. reflexivity.
    + intros t H0 H1. rewrite Et by auto. apply (b_idle _ B); auto.
    + rewrite Ht. reflexivity.
    + rewrite Ht. reflexivity.
    + auto.
    + rewrite Ho. unfold acq_obj. cbn. rewrite Q1, Q2, Q3. auto.
    + rewrite Et by discriminate. apply (b_tp0 _ B).
    + rewrite Ht. cbn. apply (b_tp1 _ B).
    + rewrite Et by discriminate. apply (b_tp2 _ B).
    + rewrite Eo1 by discriminate. apply (b_op0 _ B).
    + rewrite Ho. cbn. apply (b_op1 _ B).
    + rewrite Eo1 by discriminate. apply (b_op2 _ B).
    + rewrite (f_dead _ _ _ _ _ _ F). apply (b_dead _ B).
    + rewrite (f_faults _ _ _ _ _ _ F). apply (b_faults _ B).
    + rewrite Et by discriminate. apply (b_uses _ B).
    + rewrite Eo1 by discriminate. apply (b_p2 _ B).
    + intros o H0 H1. rewrite Eo1 by auto. apply (b_fd _ B); auto.
    + rewrite (f_holder _ _ _ _ _ _ F), Hh. intros [= ->]. destruct (f_pend _ _ _ _ _ _ F d eq_refl) as [[L _] _].
      pose proof (K1 _ Hh). lia.
  - exfalso. destruct Fin as [E1 Ht F Ho Hfd _ _|d E1 Ht F Ho Hfd _ Hhd _|E1 Ht F Ho Hbusy _ _|b E1 Ht F Ho Hfd _ R1 R2 _].
    + congruence.
    + destruct Hhd as [A|A]; [congruence|]. rewrite Hh in A. injection A as ->.
      destruct (f_pend _ _ _ _ _ _ F d eq_refl) as [[L _] _]. pose proof (K1 _ Hh). lia.
    + congruence.
    + destruct b; [apply R1; auto|]. destruct (R2 eq_refl) as [[A|[T A]] _]; discriminate.
Qed.

(* the state after the victim is gone (killed, or finished), survivors idle *)
Lemma after_victim died sb k :
  Base sb -> viol (fst (run_k k sb 0)) = false -> vquiet died (fst (run_k k sb 0)) ->
  let s2 := vend died (fst (run_k k sb 0)) in
  (forall t, t <> 0 -> thr s2 t = thr sb t) /\ (forall o, o <> 0 -> objs s2 o = objs sb o) /\
  Kern s2 /\ Slot s2 2 2 /\ dead s2 2 = false /\ dead s2 0 = false /\
  (o_fd (objs sb 1) = None -> holder s2 = None) /\
  (forall d, o_fd (objs sb 1) = Some d -> holder s2 = Some d).
Proof.
  intros B Hv Hq. pose proof (VF_run_k sb k sb (VF_refl sb (b_uses _ B))) as V.
  destruct (b_inv _ B) as (sp & evs0 & Isp & Esb).
  destruct (run_k_run 0 k sb) as (evs & Esa).
  set (sa := fst (run_k k sb 0)) in *. cbv zeta.
  assert (Isa : Inv sa).
  { rewrite Esa, Esb, <- run_app. apply Inv_run; auto. rewrite run_app, <- Esb, <- Esa. exact Hv. }
  assert (Hd : dead sa = (fun _ => false)) by (rewrite (v_dead _ _ V); apply (b_dead _ B)).
  assert (F2 : FD (vend died sa)) by (apply vend_FD; apply Isa).
  assert (Et : forall t, t <> 0 -> thr (vend died sa) t = thr sb t) by (intros; rewrite vend_thr; apply (v_thr _ _ V); auto).
  assert (Eo : forall o, o <> 0 -> objs (vend died sa) o = objs sb o) by (intros; rewrite vend_objs; apply (v_obj _ _ V); auto).
  assert (K2 : Kern (vend died sa)).
  { apply Kern_reach; auto. rewrite vend_faults, (v_faults _ _ V). apply (b_faults _ B). }
  split; auto. split; auto. split; auto.
  split.
  { split.
    - unfold idle_live. rewrite Et, Eo, vend_dead by (auto; discriminate).
      rewrite (b_idle _ B), (b_tp2 _ B), (b_op2 _ B) by discriminate. rewrite andb_false_r. auto.
    - rewrite Eo by discriminate. apply (b_p2 _ B). }
  split; [rewrite vend_dead by auto; apply andb_false_r|]. split; [rewrite vend_dead by auto; apply andb_false_r|].
  split.
  - intros Hn. destruct (holder (vend died sa)) as [h|] eqn:Eh; auto. exfalso.
    destruct (holder_refs died sa h) as [(o & A & C)|(t & A & C)]; auto.
    + apply Isa.
    + rewrite (v_oproc _ _ V). apply (b_op0 _ B).
    + rewrite (v_tproc _ _ V). apply (b_tp0 _ B).
    + rewrite (v_obj _ _ V) in C by auto. destruct (Nat.eq_dec o 1) as [->|Ho1]; [congruence|].
      rewrite (b_fd _ B) in C by auto. discriminate.
    + rewrite (v_thr _ _ V), (b_idle _ B) in C by auto. discriminate.
  - intros d Hd1. destruct (fd_hold _ F2 1 d) as [A _]; auto.
    + rewrite Eo by discriminate. auto.
    + rewrite Eo, vend_dead, (b_op1 _ B) by (auto; discriminate). apply andb_false_r.
Qed.

(* the victim phase while the waiter is parked: the waiter's descriptor never becomes the holder *)
Lemma parked_phase sb a d k :
  WBase sb a d -> viol (fst (run_k k sb 0)) = false ->
  let sc := fst (run_k k sb 0) in VF sb sc /\ Inv sc /\ holder sc <> Some d.
Proof.
  intros W Hv. cbv zeta.
  destruct (w_inv _ _ _ W) as (sp & evs0 & Isp & Esb).
  assert (Ib : viol sb = true \/ (Inv sb /\ holder sb <> Some d)).
  { destruct (viol sb) eqn:Evb; [left; reflexivity|right]. split; [|apply (w_nh _ _ _ W)].
    rewrite Esb. apply Inv_run; auto. rewrite <- Esb. exact Evb. }
  pose proof (run_k_ind (fun s => VF sb s /\ (viol s = true \/ (Inv s /\ holder s <> Some d))) 0) as Ind.
  destruct (Ind) with (k := k) (s := sb) as [V [Hbad|[I NH]]].
  - intros s [V [Hbad|[I NH]]]; (split; [apply VF_step; exact V|]).
    + left. apply viol_step_mono. exact Hbad.
    + destruct (viol (step s 0)) eqn:Ev; [left; reflexivity|right]. split.
      * apply (Inv_apply s (EStep 0)); auto.
      * destruct (step_holder s 0) as [E|[E|(a' & d' & Epc & E)]]; [rewrite E; exact NH|rewrite E; discriminate|].
        rewrite E. intros [= ->]. destruct I as [_ F].
        assert (0 = 1); [|discriminate].
        apply (fd_pc_inj _ F 0 1 d); [rewrite Epc; reflexivity|].
        rewrite (v_thr _ _ V) by discriminate. rewrite (w_pc1 _ _ _ W). reflexivity.
  - intros s n [V [Hbad|[I NH]]]; (split; [destruct V; constructor; auto|]); [left; exact Hbad|right].
    split; [|exact NH]. destruct I as [T F]. split; [apply TL_adv|apply FD_adv]; auto.
  - split; [apply VF_refl; apply (w_uses _ _ _ W)|exact Ib].
  - congruence.
  - auto.
Qed.

Lemma faulty_nil s k : faults s = [] -> faulty s k = false.
Proof. intros H. unfold faulty. rewrite H. reflexivity. Qed.

(* once the victim is gone the parked waiter's flock goes through: one step, True *)
Lemma waiter_resumes fuel died sb a d k :
  1 <= fuel -> WBase sb a d -> viol (fst (run_k k sb 0)) = false -> vquiet died (fst (run_k k sb 0)) ->
  exists s3, run_alone fuel (vend died (fst (run_k k sb 0))) 1 = (s3, RTrue) /\
    Slot s3 2 2 /\ Kern s3 /\ holder s3 = Some d /\ held_by (objs s3 1) 1 d /\
    t_pc (thr s3 1) = PIdle /\ dead s3 (t_proc (thr s3 1)) = false.
Proof.
  intros Hfu W Hv Hq. destruct (parked_phase sb a d k W Hv) as (V & I & NH).
  set (sc := fst (run_k k sb 0)) in *. set (s2 := vend died sc).
  assert (Hd : dead sc = (fun _ => false)) by (rewrite (v_dead _ _ V); apply (w_dead _ _ _ W)).
  assert (Et : forall t, t <> 0 -> thr s2 t = thr sb t) by (intros; unfold s2; rewrite vend_thr; apply (v_thr _ _ V); auto).
  assert (Eo : forall o, o <> 0 -> objs s2 o = objs sb o) by (intros; unfold s2; rewrite vend_objs; apply (v_obj _ _ V); auto).
  assert (F2 : FD s2) by (apply vend_FD; apply I).
  assert (Ef : faults s2 = []) by (unfold s2; rewrite vend_faults, (v_faults _ _ V); apply (w_faults _ _ _ W)).
  assert (K2 : Kern s2) by (apply Kern_reach; auto).
  destruct (w_a _ _ _ W) as (A1 & A2 & A3). destruct (w_o1 _ _ _ W) as (O1 & O2 & O3 & O4).
  assert (Hpc : t_pc (thr s2 1) = PFlock a d) by (rewrite Et by discriminate; apply (w_pc1 _ _ _ W)).
  assert (Hh : holder s2 = None).
  { destruct (holder s2) as [h|] eqn:Eh; auto. exfalso.
    destruct (holder_refs died sc h) as [(o & X & C)|(t & X & C)]; auto.
    - apply I.
    - rewrite (v_oproc _ _ V). apply (w_op0 _ _ _ W).
    - rewrite (v_tproc _ _ V). apply (w_tp0 _ _ _ W).
    - rewrite (v_obj _ _ V) in C by auto. destruct (Nat.eq_dec o 1) as [->|Ho1]; [congruence|].
      rewrite (w_fd _ _ _ W) in C by auto. discriminate.
    - rewrite (v_thr _ _ V) in C by auto. destruct (Nat.eq_dec t 1) as [->|Ht1].
      + rewrite (w_pc1 _ _ _ W) in C. cbn in C. injection C as <-. apply NH. apply (vend_holder died). exact Eh.
      + rewrite (w_idle _ _ _ W) in C by auto. discriminate. }
  assert (Hal : dead s2 (t_proc (thr s2 1)) = false).
  { rewrite Et, (w_tp1 _ _ _ W) by discriminate. unfold s2. rewrite vend_dead by auto. apply andb_false_r. }
  assert (Hnd : call_done s2 1 = false) by (unfold call_done; rewrite Hpc; reflexivity).
  assert (En : enabled s2 1 = true).
  { unfold enabled, is_dead. rewrite Hal, Hpc, A2, A3. unfold holder_free_for. rewrite Hh. reflexivity. }
  destruct fuel as [|f]; [lia|]. rewrite run_alone_step by auto. rewrite (step_flock _ _ a d En Hpc).
  unfold sys. rewrite (faulty_nil _ _ Ef). cbv iota beta zeta. unfold holder_free_for at 1. cbn [holder]. rewrite Hh.
  match goal with |- context[run_alone f ?x 1] => set (s3 := x) end.
  assert (T3 : thr s3 1 = mkthr (t_proc (thr s2 1)) (t_prog (thr s2 1)) PIdle (RTrue :: t_res (thr s2 1)) (a_o a :: t_cs (thr s2 1))).
  { unfold s3, finish_acq. cbn. rewrite upd_same. reflexivity. }
  assert (T3o : forall t, t <> 1 -> thr s3 t = thr s2 t).
  { intros t Ht. unfold s3, finish_acq. cbn. rewrite upd_other by auto. reflexivity. }
  assert (O3o : forall o, o <> 1 -> objs s3 o = objs s2 o).
  { intros o Ho. unfold s3, finish_acq. cbn. rewrite A1, upd_other by auto. reflexivity. }
  assert (O31 : objs s3 1 = set_fd (objs s2 1) (Some d)).
  { unfold s3, finish_acq. cbn. rewrite A1, upd_same. reflexivity. }
  assert (Hd3 : dead s3 = dead s2) by reflexivity.
  assert (Hh3 : holder s3 = Some d) by reflexivity.
  assert (Hdone : call_done s3 1 = true).
  { unfold call_done. rewrite T3. cbn. rewrite Et by discriminate. rewrite (w_prog1 _ _ _ W). reflexivity. }
  rewrite run_alone_done by auto. exists s3. split; [unfold last_result; rewrite T3; reflexivity|].
  split.
  { split.
    - unfold idle_live. rewrite T3o, O3o, Hd3, Et, Eo by discriminate.
      rewrite (w_idle _ _ _ W), (w_tp2 _ _ _ W), (w_op2 _ _ _ W) by discriminate.
      unfold s2. rewrite vend_dead by auto. rewrite andb_false_r. auto.
    - rewrite O3o, Eo by discriminate. apply (w_p2 _ _ _ W). }
  split.
  { destruct K2 as (K21 & K22 & K23). repeat split.
    - intros h Eh. rewrite Hh3 in Eh. injection Eh as <-. apply (fd_pc_lt _ F2 1 d). rewrite Hpc. reflexivity.
    - exact K22.
    - exact K23. }
  split; [exact Hh3|]. split.
  { rewrite O31, Eo by discriminate. unfold held_by. cbn. auto. }
  split; [rewrite T3; reflexivity|]. rewrite T3. cbn. exact Hal.
Qed.

Lemma model_trace_w_unf reent dflt prog vops vres died a b c :
  model_trace (CCrash reent dflt prog 2 true vops vres died a b c) =
  (let s0 := init_crash reent dflt prog in
   let '(sa, la, rest) := go_f (length vops) s0 in
   let sb := fst (do_call FUEL sa 1 (acq_blk 1)) in
   let '(sc, lc) := run_k rest sb 0 in
   let s2 := if died then crash sc 1 else sc in
   let '(sw, r) := run_alone FUEL s2 1 in
   let '(s4, p1) := probe sw in
   let s5 := fst (do_call FUEL s4 1 (CRel 1 false)) in
   let '(_, p2) := probe s5 in
   (la ++ lc, rev (t_res (thr sc 0)), result_eqb r RTrue, p1, p2)).
Proof.
  unfold model_trace. cbv beta iota zeta delta [Nat.eqb]. fold go_f.
  destruct (go_f (length vops) (init_crash reent dflt prog)) as [[sa la] rest].
  destruct (run_k rest (fst (do_call FUEL sa 1 (acq_blk 1))) 0) as [sc lc].
  destruct (run_alone FUEL (if died then crash sc 1 else sc) 1) as [sw r].
  destruct (probe sw) as [s4 p1]. destruct (probe (fst (do_call FUEL s4 1 (CRel 1 false)))) as [s6 p2].
  reflexivity.
Qed.

(* ---------- the model's prediction, all cases (fuel as a parameter) ----------------------------------- *)

Definition victim_end_w (fuel : nat) (reent : bool) (dflt : tmo) (prog : list call) (k : nat) : state :=
  let '(sa, la, rest) := go_f k (init_crash reent dflt prog) in
  fst (run_k rest (fst (do_call fuel sa 1 (acq_blk 1))) 0).

(* scenario 2, waiter started at the victim's first success *)
Definition mt_gen_w (fuel : nat) (reent : bool) (dflt : tmo) (prog : list call) (k : nat) (died : bool) : bool * bool * bool :=
  let s2 := vend died (victim_end_w fuel reent dflt prog k) in
  let '(sw, r) := run_alone fuel s2 1 in
  let '(s4, p1) := probe_gen fuel sw 2 2 in
  let s5 := fst (do_call fuel s4 1 (CRel 1 false)) in
  let '(_, p2) := probe_gen fuel s5 2 2 in
  (result_eqb r RTrue, p1, p2).

(* waiter (if any) started after the victim is gone *)
Definition mt_gen_d (fuel : nat) (reent : bool) (dflt : tmo) (prog : list call) (scen k : nat) (died : bool) : bool * bool * bool :=
  let s2 := vend died (victim_end fuel reent dflt prog scen k) in
  let '(s3, wh) :=
      if Nat.eqb scen 2 then let '(sw, r) := do_call fuel s2 1 (acq_blk 1) in (sw, result_eqb r RTrue)
      else (s2, false) in
  let '(s4, p1) := probe_gen fuel s3 2 2 in
  let s5 := if Nat.eqb scen 0 then s4 else fst (do_call fuel s4 1 (CRel 1 false)) in
  let '(_, p2) := probe_gen fuel s5 2 2 in
  (wh, p1, p2).

Lemma mt_gen_d_ok fuel reent dflt prog scen k died :
  16 <= fuel -> scen <= 2 -> (forall c, In c prog -> call_obj c = 0) ->
  viol (victim_end fuel reent dflt prog scen k) = false -> vquiet died (victim_end fuel reent dflt prog scen k) ->
  let '(wh, p1, p2) := mt_gen_d fuel reent dflt prog scen k died in ok_obs scen wh p1 p2 = true.
Proof.
  intros Hfu Hs Hp Hv Hq. unfold mt_gen_d. unfold victim_end in *.
  destruct scen as [|[|[|n]]]; [| | |lia]; cbn [Nat.eqb] in *; cbv iota in *.
  - destruct (after_victim died _ k (Base_init reent dflt prog Hp) Hv Hq) as (Et & Eo & K2 & Sl & D2 & D0 & Hn & _).
    set (s2 := vend died _) in *.
    assert (Hh2 : holder s2 = None) by (apply Hn; apply init_objs; discriminate).
    destruct (probe_free fuel s2 2 2 Sl K2 Hh2 Hfu) as (s4 & E4 & Sl4 & K4 & Hh4 & _).
    rewrite E4. destruct (probe_free fuel s4 2 2 Sl4 K4 Hh4 Hfu) as (s6 & E6 & _). rewrite E6. reflexivity.
  - destruct (survivor_holds fuel reent dflt prog Hfu Hp) as (sb & d & E & B & Hb).
    rewrite E in *. cbn [fst] in *.
    destruct (after_victim died _ k B Hv Hq) as (Et & Eo & K2 & Sl & D2 & D0 & _ & Hh).
    set (s2 := vend died _) in *.
    assert (A1 : holder s2 = Some d) by (apply Hh; apply Hb).
    assert (A2 : held_by (objs s2 1) 1 d) by (rewrite Eo by discriminate; exact Hb).
    assert (A3 : t_pc (thr s2 1) = PIdle) by (rewrite Et by discriminate; apply (b_idle _ B); discriminate).
    assert (A4 : dead s2 (t_proc (thr s2 1)) = false) by (rewrite Et, (b_tp1 _ B) by discriminate; exact D2).
    destruct (tail_busy fuel s2 d Hfu Sl K2 A1 A2 A3 A4) as (s4 & s6 & E4 & E6).
    rewrite E4, E6. reflexivity.
  - pose proof (Base_init reent dflt prog Hp) as B.
    destruct (after_victim died _ k B Hv Hq) as (Et & Eo & K2 & Sl & D2 & D0 & Hn & _).
    set (s2 := vend died _) in *.
    destruct (init_objs reent dflt prog 1) as [P1 D1]; [discriminate|].
    assert (A1 : idle_live s2 1 1).
    { unfold idle_live. rewrite Et, Eo by discriminate. rewrite (b_idle _ B), (b_tp1 _ B), (b_op1 _ B) by discriminate. auto. }
    assert (A2 : pristine (objs s2 1)) by (rewrite Eo by discriminate; exact P1).
    assert (A3 : holder s2 = None) by (apply Hn; apply P1).
    assert (A4 : forall T, snd (norm' (o_dflt (objs s2 1)) true TNone) <> TVal T).
    { rewrite Eo, D1 by discriminate. intros T. cbn. discriminate. }
    destruct (acq_ok s2 1 1 MPlain true TNone 51%N 0 fuel A1 K2 A2 A3 A4 Hfu) as (s3 & d & E3 & F3 & Hb3 & Pr3 & Pc3 & Tp3 & K3).
    unfold acq_blk. rewrite E3.
    assert (B1 : Slot s3 2 2).
    { eapply Slot_others; [eapply others_Frame; eauto| | |exact Sl]; discriminate. }
    assert (B2 : holder s3 = Some d) by apply (f_holder _ _ _ _ _ _ F3).
    assert (B3 : dead s3 (t_proc (thr s3 1)) = false).
    { rewrite Tp3, (f_dead _ _ _ _ _ _ F3), Et, (b_tp1 _ B) by discriminate. exact D2. }
    destruct (tail_busy fuel s3 d Hfu B1 K3 B2 Hb3 Pc3 B3) as (s4 & s6 & E4 & E6).
    cbn [result_eqb result_code Nat.eqb]. rewrite E4, E6. reflexivity.
Qed.

Lemma pop_viol s t p : viol (pop_prog s t p) = viol s.
Proof. reflexivity. Qed.

Lemma mt_gen_w_ok fuel reent dflt prog k died :
  16 <= fuel -> (forall c, In c prog -> call_obj c = 0) ->
  viol (victim_end_w fuel reent dflt prog k) = false -> vquiet died (victim_end_w fuel reent dflt prog k) ->
  let '(wh, p1, p2) := mt_gen_w fuel reent dflt prog k died in ok_obs 2 wh p1 p2 = true.
Proof.
  intros Hfu Hp Hv Hq. unfold mt_gen_w. unfold victim_end_w in *.
  pose proof (Base_init reent dflt prog Hp) as B0.
  destruct (init_facts reent dflt prog) as (I0 & _).
  set (s0 := init_crash reent dflt prog) in *.
  pose proof (VF_go s0 k s0 (VF_refl s0 (b_uses _ B0))) as Va.
  destruct (go_run k s0) as (ea & Ea).
  destruct (go_f k s0) as [[sa la] rest]. cbn [fst] in Va, Ea.
  (* the contract held up to the start of the waiter *)
  assert (Hva : viol sa = false).
  { destruct (run_k_run 0 rest (fst (do_call fuel sa 1 (acq_blk 1)))) as (e2 & E2). rewrite E2 in Hv.
    apply viol_back in Hv. unfold do_call in Hv.
    destruct (run_alone_run 1 fuel (pop_prog sa 1 [acq_blk 1])) as (e1 & E1). rewrite E1 in Hv.
    apply viol_back in Hv. exact Hv. }
  assert (Ia : Inv sa) by (rewrite Ea; apply Inv_run; auto; rewrite <- Ea; exact Hva).
  pose proof (Base_VF s0 sa B0 Va Ia) as Ba.
  destruct (init_objs reent dflt prog 1) as [P1 D1]; [discriminate|]. fold s0 in P1, D1.
  assert (P1a : pristine (objs sa 1)) by (rewrite (v_obj _ _ Va) by discriminate; exact P1).
  assert (D1a : o_dflt (objs sa 1) = TNeg) by (rewrite (v_obj _ _ Va) by discriminate; exact D1).
  destruct (holder sa) as [h|] eqn:Eh.
  - (* the victim holds: the waiter parks *)
    destruct (waiter_blocks fuel sa h Hfu Ba Ia P1a D1a Eh) as (sb & a & d & E & W).
    rewrite E in *. cbn [fst] in *.
    destruct (waiter_resumes fuel died sb a d rest) as (s3 & E3 & Sl & K3 & Hh3 & Hb3 & Pc3 & Al3); auto; [lia|].
    rewrite E3.
    destruct (tail_busy fuel s3 d Hfu Sl K3 Hh3 Hb3 Pc3 Al3) as (s4 & s6 & E4 & E6).
    cbn [result_eqb result_code Nat.eqb]. rewrite E4, E6. reflexivity.
  - (* the path is free: the waiter holds from now on *)
    destruct (survivor_acq fuel sa Hfu Ba Ia P1a D1a Eh) as (sb & d & E & Bb & Hb & Pg & Lr).
    rewrite E in *. cbn [fst] in *.
    destruct (after_victim died sb rest Bb Hv Hq) as (Et & Eo & K2 & Sl & D2 & D0 & _ & Hh).
    set (s2 := vend died _) in *.
    assert (A1 : holder s2 = Some d) by (apply Hh; apply Hb).
    assert (A2 : held_by (objs s2 1) 1 d) by (rewrite Eo by discriminate; exact Hb).
    assert (A3 : t_pc (thr s2 1) = PIdle) by (rewrite Et by discriminate; apply (b_idle _ Bb); discriminate).
    assert (A4 : dead s2 (t_proc (thr s2 1)) = false) by (rewrite Et, (b_tp1 _ Bb) by discriminate; exact D2).
    assert (Hdone : call_done s2 1 = true) by (unfold call_done; rewrite Et by discriminate; rewrite (b_idle _ Bb), Pg by discriminate; reflexivity).
    rewrite run_alone_done by auto.
    assert (Lr2 : last_result s2 1 = RTrue) by (unfold last_result in *; rewrite Et by discriminate; exact Lr).
    rewrite Lr2.
    destruct (tail_busy fuel s2 d Hfu Sl K2 A1 A2 A3 A4) as (s4 & s6 & E4 & E6).
    cbn [result_eqb result_code Nat.eqb]. rewrite E4, E6. reflexivity.
Qed.

(* ---------- links to Case_C13.model_trace, the general theorems ---------------------------------------- *)

Lemma model_trace_d reent dflt prog scen vops vres died a b c ops rs wh p1 p2 :
  model_trace (CCrash reent dflt prog scen false vops vres died a b c) = (ops, rs, wh, p1, p2) ->
  mt_gen_d FUEL reent dflt prog scen (length vops) died = (wh, p1, p2).
Proof.
  unfold model_trace, mt_gen_d, victim_end, vend.
  set (s0' := if Nat.eqb scen 1 then _ else _).
  destruct (run_k (length vops) s0' 0) as [sa la]. cbv beta iota zeta. cbn [fst].
  destruct (Nat.eqb scen 2).
  - destruct (do_call FUEL (if died then crash sa 1 else sa) 1 (acq_blk 1)) as [sw r]. cbv beta iota zeta. rewrite probe_eq.
    destruct (probe_gen FUEL sw 2 2) as [s4 q1]. destruct (Nat.eqb scen 0); rewrite probe_eq;
      match goal with |- context[probe_gen FUEL ?x 2 2] => destruct (probe_gen FUEL x 2 2) as [s6 q2] end;
      intros [= _ _ <- <- <-]; reflexivity.
  - cbv beta iota zeta. rewrite probe_eq.
    destruct (probe_gen FUEL (if died then crash sa 1 else sa) 2 2) as [s4 q1]. destruct (Nat.eqb scen 0); rewrite probe_eq;
      match goal with |- context[probe_gen FUEL ?x 2 2] => destruct (probe_gen FUEL x 2 2) as [s6 q2] end;
      intros [= _ _ <- <- <-]; reflexivity.
Qed.

Lemma model_trace_w reent dflt prog vops vres died a b c ops rs wh p1 p2 :
  model_trace (CCrash reent dflt prog 2 true vops vres died a b c) = (ops, rs, wh, p1, p2) ->
  mt_gen_w FUEL reent dflt prog (length vops) died = (wh, p1, p2).
Proof.
  rewrite model_trace_w_unf. unfold mt_gen_w, victim_end_w, vend. cbv zeta.
  destruct (go_f (length vops) (init_crash reent dflt prog)) as [[sa la] rest].
  destruct (run_k rest (fst (do_call FUEL sa 1 (acq_blk 1))) 0) as [sc lc]. cbn [fst].
  destruct (run_alone FUEL (if died then crash sc 1 else sc) 1) as [sw r].
  rewrite probe_eq. destruct (probe_gen FUEL sw 2 2) as [s4 q1]. rewrite probe_eq.
  destruct (probe_gen FUEL (fst (do_call FUEL s4 1 (CRel 1 false))) 2 2) as [s6 q2].
  intros [= _ _ <- <- <-]. reflexivity.
Qed.

(* the state in which the victim ended, per kind of case *)
Definition victim_end_all (fuel : nat) (reent : bool) (dflt : tmo) (prog : list call) (scen : nat) (wb : bool) (k : nat) : state :=
  if wb then victim_end_w fuel reent dflt prog k else victim_end fuel reent dflt prog scen k.

Theorem monitor_complete_all_C13_lemma :
  forall reent dflt prog scen wb vops vres died a b c ops rs wh p1 p2,
    scen <= 2 -> (wb = true -> scen = 2) -> (forall cl, In cl prog -> call_obj cl = 0) ->
    viol (victim_end_all FUEL reent dflt prog scen wb (length vops)) = false ->
    vquiet died (victim_end_all FUEL reent dflt prog scen wb (length vops)) ->
    model_trace (CCrash reent dflt prog scen wb vops vres died a b c) = (ops, rs, wh, p1, p2) ->
    ok (CCrash reent dflt prog scen wb vops vres died wh p1 p2) = true.
Proof.
  intros reent dflt prog scen wb vops vres died a b c ops rs wh p1 p2 Hs Hw Hp Hv Hq Hm.
  destruct wb; unfold victim_end_all in *.
  - rewrite (Hw eq_refl) in *.
    pose proof (mt_gen_w_ok FUEL reent dflt prog (length vops) died FUEL_ge Hp Hv Hq) as H.
    rewrite (model_trace_w _ _ _ _ _ _ _ _ _ _ _ _ _ _ Hm) in H. exact H.
  - pose proof (mt_gen_d_ok FUEL reent dflt prog scen (length vops) died FUEL_ge Hs Hp Hv Hq) as H.
    rewrite (model_trace_d _ _ _ _ _ _ _ _ _ _ _ _ _ _ _ Hm) in H. exact H.
Qed.

(* the contract in static form, also for the waiter-before cases *)
Lemma W_run_full evs : forall s, Inv s -> W s -> viol s = false ->
  viol (run s evs) = false /\ W (run s evs) /\ Inv (run s evs).
Proof.
  induction evs as [|e r IH]; [cbn; auto|]. intros s HI HW Hv.
  change (run s (e :: r)) with (run (apply s e) r).
  destruct (W_apply s e HI HW Hv) as [A B]. apply IH; auto. apply Inv_apply; auto.
Qed.

Lemma victim_viol_w fuel reent dflt prog k :
  (forall c, In c prog -> call_obj c = 0) -> prog_okb (S (length prog)) [] prog = true ->
  viol (victim_end_w fuel reent dflt prog k) = false.
Proof.
  intros Hp Hk. unfold victim_end_w. pose proof (init_cfg_ok reent dflt prog Hp Hk) as Hc.
  pose proof (Base_init reent dflt prog Hp) as B0.
  destruct (init_facts reent dflt prog) as (I0 & _ & _ & _ & _ & _ & _ & _ & T1 & _).
  assert (W0 : W (init_crash reent dflt prog)) by (rewrite init_is_cfg; apply W_init; exact Hc).
  set (s0 := init_crash reent dflt prog) in *.
  pose proof (VF_go s0 k s0 (VF_refl s0 (b_uses _ B0))) as Va.
  destruct (go_run k s0) as (ea & Ea).
  destruct (go_f k s0) as [[sa la] rest]. cbn [fst] in Va, Ea.
  destruct (W_run_full ea s0 I0 W0 eq_refl) as (Hva & Wa & Ia). rewrite <- Ea in *.
  unfold do_call. set (sp := pop_prog sa 1 [acq_blk 1]).
  destruct (run_alone_run 1 fuel sp) as (e1 & E1). rewrite E1.
  destruct (run_k_run 0 rest (run sp e1)) as (e2 & E2). rewrite E2, <- run_app.
  apply W_run; [apply Inv_pop; auto| |exact Hva].
  apply W_pop_acq; auto.
  - rewrite (v_thr _ _ Va) by discriminate. rewrite T1. reflexivity.
  - rewrite (v_thr _ _ Va) by discriminate. rewrite T1. reflexivity.
  - rewrite (v_thr _ _ Va), (v_obj _ _ Va) by discriminate. rewrite (b_op1 _ B0), (b_tp1 _ B0). reflexivity.
Qed.

Theorem monitor_complete_all_static_C13_lemma :
  forall reent dflt prog scen wb vops vres died a b c ops rs wh p1 p2,
    scen <= 2 -> (wb = true -> scen = 2) -> (forall cl, In cl prog -> call_obj cl = 0) ->
    prog_okb (S (length prog)) [] prog = true ->
    vquiet died (victim_end_all FUEL reent dflt prog scen wb (length vops)) ->
    model_trace (CCrash reent dflt prog scen wb vops vres died a b c) = (ops, rs, wh, p1, p2) ->
    ok (CCrash reent dflt prog scen wb vops vres died wh p1 p2) = true.
Proof.
  intros reent dflt prog scen wb vops vres died a b c ops rs wh p1 p2 Hs Hw Hp Hk Hq Hm.
  eapply monitor_complete_all_C13_lemma; eauto.
  unfold victim_end_all. destruct wb; [apply victim_viol_w|apply victim_viol]; auto.
Qed.
