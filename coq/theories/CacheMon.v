(* CacheMon.v — trace monitors for C01 / C05 / C06.  They judge an OBSERVED trace (list of
   Cache.ev as recorded from the real code) using only the trace and the caller table
   (caller id -> (loop, key)); they never look at the model state.  No proofs here. *)
From Coq Require Import List Arith NArith Bool.
Import ListNotations.
Require Import Aiuti.Cache.

Definition tbl_loop (tbl : list (nat * nat)) (c : nat) : nat := fst (lget (0, 0) tbl c).
Definition tbl_key (tbl : list (nat * nat)) (c : nat) : nat := snd (lget (0, 0) tbl c).

Fixpoint assoc (l : list (nat * nat)) (k : nat) : option nat :=
  match l with
  | [] => None
  | (a, b) :: r => if a =? k then Some b else assoc r k
  end.

Definition mem (x : nat) (l : list nat) : bool := existsb (Nat.eqb x) l.

(* ------------------------------------------------------------------------------------------
   C01.  live = invocations in progress on running loops (inv, key, loop); ikeys = key of every
   invocation ever started; succ = key -> value of the invocation that returned successfully.
   Rejected: a start while another invocation of the same key is live; a start after a success
   for that key; a second success for a key; a caller returning a value that is not THE
   successful result of its key. *)
Record m1 := mkM1 { live1 : list (nat * (nat * nat)); ikeys1 : list (nat * nat);
                    succ1 : list (nat * nat); ok1 : bool }.

Definition m1_init := mkM1 [] [] [] true.

Definition m1_step (tbl : list (nat * nat)) (m : m1) (e : ev) : m1 :=
  match e with
  | IStart i c _ =>
      let k := tbl_key tbl c in
      let clash := existsb (fun x => fst (snd x) =? k) (live1 m) in
      let after := match assoc (succ1 m) k with Some _ => true | None => false end in
      mkM1 ((i, (k, tbl_loop tbl c)) :: live1 m) ((i, k) :: ikeys1 m) (succ1 m)
           (ok1 m && negb clash && negb after)
  | IEnd i r _ =>
      let lv := filter (fun x => negb (fst x =? i)) (live1 m) in
      match r with
      | 0 => match assoc (ikeys1 m) i with
             | Some k => match assoc (succ1 m) k with
                         | Some _ => mkM1 lv (ikeys1 m) (succ1 m) false
                         | None => mkM1 lv (ikeys1 m) ((k, i) :: succ1 m) (ok1 m)
                         end
             | None => mkM1 lv (ikeys1 m) (succ1 m) false
             end
      | _ => mkM1 lv (ikeys1 m) (succ1 m) (ok1 m)
      end
  | LoopEv t 0 | LoopEv t 2 =>
      mkM1 (filter (fun x => negb (snd (snd x) =? t)) (live1 m)) (ikeys1 m) (succ1 m) (ok1 m)
  | Done c 0 v _ =>
      mkM1 (live1 m) (ikeys1 m) (succ1 m)
           (ok1 m && match assoc (succ1 m) (tbl_key tbl c) with Some v' => v' =? v | None => false end)
  | _ => m
  end.

Definition ok_C01 (tbl : list (nat * nat)) (tr : list ev) : bool :=
  ok1 (fold_left (m1_step tbl) tr m1_init).

(* ------------------------------------------------------------------------------------------
   C06.  iv = (inv, (caller, result)) with result 9 while running; canc = callers whose task the
   environment cancelled; fin = callers already answered.
   Rejected: a LibExc outcome; a second outcome for one caller; Ret v where v is not the result of
   a successful invocation of the caller's key; UserExc i where i was not performed by this very
   caller or did not raise; Cancelled without the environment having cancelled this caller; a
   cross-loop proxy ending with an exception. *)
Record m6 := mkM6 { iv6 : list (nat * (nat * nat)); canc6 : list nat; fin6 : list nat; ok6 : bool }.

Definition m6_init := mkM6 [] [] [] true.

Fixpoint assoc2 (l : list (nat * (nat * nat))) (k : nat) : option (nat * nat) :=
  match l with
  | [] => None
  | (a, b) :: r => if a =? k then Some b else assoc2 r k
  end.

Definition m6_step (tbl : list (nat * nat)) (m : m6) (e : ev) : m6 :=
  match e with
  | IStart i c _ => mkM6 ((i, (c, 9)) :: iv6 m) (canc6 m) (fin6 m) (ok6 m)
  | IEnd i r _ =>
      match assoc2 (iv6 m) i with
      | Some (c, _) => mkM6 ((i, (c, r)) :: iv6 m) (canc6 m) (fin6 m) (ok6 m)
      | None => mkM6 (iv6 m) (canc6 m) (fin6 m) false
      end
  | Cancel c _ => mkM6 (iv6 m) (c :: canc6 m) (fin6 m) (ok6 m)
  | Done c kind p _ =>
      let fresh := negb (mem c (fin6 m)) in
      let good :=
        match kind with
        | 0 => match assoc2 (iv6 m) p with
               | Some (c', r) => (r =? 0) && (tbl_key tbl c' =? tbl_key tbl c)
               | None => false
               end
        | 1 => match assoc2 (iv6 m) p with
               | Some (c', r) => (r =? 1) && (c' =? c)
               | None => false
               end
        | 2 => mem c (canc6 m)
        | _ => false
        end in
      mkM6 (iv6 m) (canc6 m) (c :: fin6 m) (ok6 m && fresh && good)
  | Proxy _ _ r => mkM6 (iv6 m) (canc6 m) (fin6 m) (ok6 m && (r <? 3))
  | Bad _ => mkM6 (iv6 m) (canc6 m) (fin6 m) false
  | _ => m
  end.

Definition ok_C06 (tbl : list (nat * nat)) (tr : list ev) : bool :=
  ok6 (fold_left (m6_step tbl) tr m6_init).

(* ------------------------------------------------------------------------------------------
   C05.  Rejected:
     - a run that does not end with End 0 (deadlock, step bound = spinning, hang);
     - a loop whose shutdown completes (LoopEv t 2) while a started caller of it is unanswered;
     - time passing (Adv to tick) while some started, unanswered, uncancelled caller c of key k on
       a running (never stopped) loop is not "accounted for":  accounted for means
         strict:  no invocation of k has succeeded yet AND an invocation of k is in progress on a
                  loop that is still running (so c is legitimately waiting for it / performing it), or
         window:  some loop that hosted an invocation of k has stopped running (last at tick d:
                  run_until_complete returned or its shutdown run ended) and
                  tick <= max(first tick of c, d) + 60 s  (c may be stuck behind the dead loop, but
                  only for the safety window).
       In particular, on keys whose computing loops all stay running, every waiter is answered in
       the very tick in which the computation ends (prompt), a failed/cancelled computation is
       followed by a recomputation in the same tick, and nobody waits for nothing. *)
Record m5 := mkM5 {
  now5 : N;
  lst5 : list lstate;                       (* loop states as seen in the trace *)
  stop5 : list (nat * N);                   (* loop -> tick at which it stopped running *)
  st5 : list (nat * N);                     (* started caller -> first tick *)
  fin5 : list nat; canc5 : list nat;
  live5 : list (nat * (nat * nat));         (* inv, key, loop: started, not ended *)
  host5 : list (nat * nat);                 (* key, loop: loops that ever hosted an invocation of key *)
  succ5 : list nat;                         (* keys with a successful invocation *)
  ended5 : bool; ok5 : bool }.

Definition m5_init (nloops : nat) := mkM5 0%N (repeat LRun nloops) [] [] [] [] [] [] [] false true.

Fixpoint assocN (l : list (nat * N)) (k : nat) : option N :=
  match l with
  | [] => None
  | (a, b) :: r => if a =? k then Some b else assocN r k
  end.

Definition m5_upd (m : m5) (ok : bool) : m5 :=
  mkM5 (now5 m) (lst5 m) (stop5 m) (st5 m) (fin5 m) (canc5 m) (live5 m) (host5 m) (succ5 m) (ended5 m) ok.

Definition running5 (m : m5) (t : nat) : bool :=
  match lget LClosed (lst5 m) t with LRun => true | _ => false end.
Definition alive5 (m : m5) (t : nat) : bool := alive (lget LClosed (lst5 m) t).

(* latest stop tick among the stopped hosts of key k *)
Definition deadtick (m : m5) (k : nat) : option N :=
  fold_left (fun acc h =>
               if fst h =? k then
                 match assocN (stop5 m) (snd h) with
                 | Some d => match acc with Some a => Some (N.max a d) | None => Some d end
                 | None => acc
                 end
               else acc) (host5 m) None.

Definition accounted (tbl : list (nat * nat)) (m : m5) (tick : N) (cs : nat * N) : bool :=
  let c := fst cs in
  let k := tbl_key tbl c in
  if mem c (fin5 m) || mem c (canc5 m) || negb (running5 m (tbl_loop tbl c)) then true
  else
    (negb (mem k (succ5 m))
     && existsb (fun x => (fst (snd x) =? k) && running5 m (snd (snd x))) (live5 m))
    || match deadtick m k with
       | Some d => (tick <=? N.max (snd cs) d + SAFETY)%N
       | None => false
       end.

Definition started5 (m : m5) (c : nat) : bool :=
  match assocN (st5 m) c with Some _ => true | None => false end.

Definition m5_start (m : m5) (c : nat) : m5 :=
  if started5 m c then m
  else mkM5 (now5 m) (lst5 m) (stop5 m) ((c, now5 m) :: st5 m) (fin5 m) (canc5 m) (live5 m) (host5 m)
            (succ5 m) (ended5 m) (ok5 m).

Definition m5_step (tbl : list (nat * nat)) (m : m5) (e : ev) : m5 :=
  if ended5 m then m5_upd m false else
  match e with
  | Get _ c => m5_start m c
  | IStart i c _ =>
      mkM5 (now5 m) (lst5 m) (stop5 m) (st5 m) (fin5 m) (canc5 m)
           ((i, (tbl_key tbl c, tbl_loop tbl c)) :: live5 m)
           ((tbl_key tbl c, tbl_loop tbl c) :: host5 m) (succ5 m) (ended5 m) (ok5 m)
  | IEnd i r _ =>
      let k := match assoc2 (live5 m) i with Some (k, _) => Some k | None => None end in
      mkM5 (now5 m) (lst5 m) (stop5 m) (st5 m) (fin5 m) (canc5 m)
           (filter (fun x => negb (fst x =? i)) (live5 m)) (host5 m)
           (match r, k with 0, Some k => k :: succ5 m | _, _ => succ5 m end) (ended5 m) (ok5 m)
  | Cancel c _ =>
      mkM5 (now5 m) (lst5 m) (stop5 m) (st5 m) (fin5 m) (c :: canc5 m) (live5 m) (host5 m) (succ5 m)
           (ended5 m) (ok5 m)
  | Done c _ _ _ =>
      mkM5 (now5 m) (lst5 m) (stop5 m) (st5 m) (c :: fin5 m) (canc5 m) (live5 m) (host5 m) (succ5 m)
           (ended5 m) (ok5 m)
  | LoopEv t 0 =>
      mkM5 (now5 m) (lset LClosed (lst5 m) t LStop) ((t, now5 m) :: stop5 m) (st5 m) (fin5 m) (canc5 m)
           (live5 m) (host5 m) (succ5 m) (ended5 m) (ok5 m)
  | LoopEv t 1 =>
      mkM5 (now5 m) (lset LClosed (lst5 m) t LShut) (stop5 m) (st5 m) (fin5 m) (canc5 m)
           (live5 m) (host5 m) (succ5 m) (ended5 m) (ok5 m)
  | LoopEv t 2 =>
      mkM5 (now5 m) (lset LClosed (lst5 m) t LStop) ((t, now5 m) :: stop5 m) (st5 m) (fin5 m) (canc5 m)
           (live5 m) (host5 m) (succ5 m) (ended5 m)
           (ok5 m && forallb (fun cs => negb (tbl_loop tbl (fst cs) =? t) || mem (fst cs) (fin5 m)) (st5 m))
  | LoopEv t _ =>
      mkM5 (now5 m) (lset LClosed (lst5 m) t LClosed) (stop5 m) (st5 m) (fin5 m) (canc5 m)
           (live5 m) (host5 m) (succ5 m) (ended5 m) (ok5 m)
  | Adv tick =>
      mkM5 tick (lst5 m) (stop5 m) (st5 m) (fin5 m) (canc5 m) (live5 m) (host5 m) (succ5 m) (ended5 m)
           (ok5 m && forallb (accounted tbl m tick) (st5 m))
  | End r =>
      mkM5 (now5 m) (lst5 m) (stop5 m) (st5 m) (fin5 m) (canc5 m) (live5 m) (host5 m) (succ5 m) true
           (ok5 m && (r =? 0))
  | Bad _ => m5_upd m false
  | _ => m
  end.

Definition ok_C05 (nloops : nat) (tbl : list (nat * nat)) (tr : list ev) : bool :=
  let m := fold_left (m5_step tbl) tr (m5_init nloops) in
  ok5 m && ended5 m.
