(* Case_C13.v — crash-point cases for C13.  No proofs here; see FLockCrash.v.

   A case: a victim process (p1, thread 0, object 0) ran [prog] on the real OS
   and was SIGKILLed after completing the primitives [vops] (one opcode per
   completed primitive / API-call start, logged by the victim before it died);
   scenario 0 = alone, 1 = a survivor process (p2) held the lock all along,
   2 = a survivor (p2) waits in a blocking acquire (started before the crash iff
   [w_before]).  Observed afterwards by the parent (p0): did the waiter get the
   lock, probe1 = fresh non-blocking acquire right after the death, probe2 =
   the same after the survivor released.
   The model replays: survivor, victim for |vops| steps (its ops and results
   must be the logged ones), ECrash p1, then the same observations.            *)
From Coq Require Import List Arith Bool NArith.
Import ListNotations.
Require Import Aiuti.CaseLib Aiuti.FLock.

Inductive case :=
| CCrash (reent : bool) (dflt : tmo) (prog : list call) (scen : nat) (w_before : bool)
         (vops : list nat) (vres : list result) (died w_held probe1 probe2 : bool).

Definition FUEL := 400.
Definition result_code (r : result) : nat :=
  match r with RTrue => 0 | RFalse => 1 | RTimeout => 2 | ROSErr => 3 | RNone => 4
             | RRuntime => 5 | RWouldBlock => 6 | ROutOfFuel => 7 end.
Definition result_eqb (a b : result) : bool := Nat.eqb (result_code a) (result_code b).

(* victim alone for k primitive steps (time jumps to its own deadlines); stops when blocked *)
Fixpoint run_k (k : nat) (s : state) (t : tid) : state * list nat :=
  match k with
  | 0 => (s, [])
  | S k' =>
      let s := if enabled s t then s
               else match deadline s t with Some w => set_now s (N.max (now s) w) | None => s end in
      if enabled s t then
        let c := opcode s t in
        let '(s', l) := run_k k' (step s t) t in (s', c :: l)
      else (s, [])
  end.

Definition acq_nb (o : oid) := CAcq o MPlain false TNone 51%N 0.
Definition acq_blk (o : oid) := CAcq o MPlain true TNone 51%N 0.

Definition probe (s : state) : state * bool :=
  let '(s1, r) := do_call FUEL s 2 (acq_nb 2) in
  match r with RTrue => (fst (do_call FUEL s1 2 (CRel 2 false)), true) | _ => (s1, false) end.

Definition init_crash (reent : bool) (dflt : tmo) (prog : list call) : state :=
  init [obj0 1 reent dflt; obj0 2 false TNeg; obj0 0 false TNeg]
       [thr0 1 prog; thr0 2 []; thr0 0 []] [].

Fixpoint count_true (l : list result) : nat :=
  match l with [] => 0 | RTrue :: r => S (count_true r) | _ :: r => count_true r end.

(* (victim ops, victim results, waiter holds, probe1, probe2) *)
Definition model_trace (c : case) : list nat * list result * bool * bool * bool :=
  match c with
  | CCrash reent dflt prog scen w_before vops vres died _ _ _ =>
      let s0 := init_crash reent dflt prog in
      let s0 := if Nat.eqb scen 1 then fst (do_call FUEL s0 1 (acq_blk 1)) else s0 in
      (* the waiter is started when the victim logged its first success *)
      let k := length vops in
      let '(s1, ops1, s1w) :=
          if w_before then
            (* run the victim until its first success, start the waiter (blocks), continue *)
            let fix go (k : nat) (s : state) : state * list nat * nat :=
                match t_res (thr s 0) with
                | RTrue :: _ => (s, [], k)
                | _ =>
                    match k with
                    | 0 => (s, [], 0)
                    | S k' => let '(s', l) := run_k 1 s 0 in
                              match l with
                              | [] => (s', [], 0)
                              | _ => let '(s2, l2, rest) := go k' s' in (s2, l ++ l2, rest)
                              end
                    end
                end in
            let '(sa, la, rest) := go k s0 in
            let sb := fst (do_call FUEL sa 1 (acq_blk 1)) in
            let '(sc, lc) := run_k rest sb 0 in (sc, la ++ lc, true)
          else let '(sa, la) := run_k k s0 0 in (sa, la, false) in
      let s2 := if died then crash s1 1 else s1 in
      let '(s3, wh) :=
          if Nat.eqb scen 2 then
            let '(sw, r) := (if s1w then run_alone FUEL s2 1 else do_call FUEL s2 1 (acq_blk 1)) in
            (sw, result_eqb r RTrue)
          else (s2, false) in
      let '(s4, p1) := probe s3 in
      let s5 := if Nat.eqb scen 0 then s4 else fst (do_call FUEL s4 1 (CRel 1 false)) in
      let '(_, p2) := probe s5 in
      (ops1, rev (t_res (thr s1 0)), wh, p1, p2)
  end.

Definition agree (c : case) : bool :=
  match c with
  | CCrash _ _ _ _ _ vops vres died w_held probe1 probe2 =>
      let '(ops, rs, wh, p1, p2) := model_trace c in
      (* the victim may die in the thread-local code after its last primitive, before the
         call's result was logged: the last model result may be missing from the log *)
      list_eqb Nat.eqb ops vops
      && (list_eqb result_eqb rs vres || list_eqb result_eqb (removelast rs) vres)
      && Bool.eqb wh w_held && Bool.eqb p1 probe1 && Bool.eqb p2 probe2
  end.

(* monitor: the lock is not stuck and the survivors keep exclusion *)
Definition ok (c : case) : bool :=
  match c with
  | CCrash _ _ _ scen _ _ _ died w_held probe1 probe2 =>
      match scen with
      | 0 => probe1 && probe2                       (* nobody left: obtainable at once *)
      | 1 => negb probe1 && probe2                  (* the survivor still holds; free after it released *)
      | _ => w_held && negb probe1 && probe2        (* the waiter got it; exclusive; free afterwards *)
      end
  end.

Definition nontrivial (c : case) : bool :=
  match c with CCrash _ _ _ _ _ vops _ died _ _ _ => died && (2 <=? length vops) end.

Definition verdict := verdict3 agree ok nontrivial.
